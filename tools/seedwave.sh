#!/bin/bash
# seedwave.sh <tag> <prop>... : seedcheck both patches of /tmp/seed-<prop><tag>-out against the property's check
TAG=$1; shift
for P in "$@"; do
  p=$(echo $P | tr 'A-Z' 'a-z')
  for n in 1 2; do
    [ -f /tmp/seed-$p$TAG-out/patch$n.diff ] || continue
    /verif/tools/seedcheck.sh /tmp/seed-$p$TAG-out $n $P 2>&1 | grep -E "demo|passed|SEED|PATCH" | cut -c1-170
  done
done

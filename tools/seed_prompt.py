#!/venv/bin/python
"""print the prompt for a seeded-change sub-agent: python tools/seed_prompt.py C07 a"""
import json, sys
pid, tag = sys.argv[1], (sys.argv[2] if len(sys.argv) > 2 else "a")
avoid = sys.argv[3] if len(sys.argv) > 3 else ""
if avoid == "auto":
    import glob
    items = []
    for f in sorted(glob.glob("/verif/seeded/%s-*/meta.json" % pid)):
        items.append(json.load(open(f))["needs_to_manifest"])
    avoid = " ;; ".join("(%d) %s" % (i + 1, t) for i, t in enumerate(items))
p = [json.loads(l) for l in open("/verif/properties.jsonl") if json.loads(l)["id"] == pid][0]
wt = "/tmp/seed-%s%s" % (pid.lower(), tag)
print(f"""You are helping to evaluate a verification tool by seeding a realistic defect into a library. Work ONLY inside the scratch git worktree {wt} (a checkout of the Python library SasView/sasmodels; create it first with: git -C /repo worktree add --detach {wt} HEAD). Never modify /repo itself and do not read anything under /verif.

Property of sasmodels that your change must break:

  Title: {p['title']}
  Statement: {p['statement']}
  Holds for: {p['quantifier']['text']}
  Code involved: {', '.join(p['anchors']['files'])}

Task: make a change to the library source in {wt} that BREAKS this property while the code still imports/compiles and the repository's own test suite still passes, plus a demonstration program that fails with your change and passes without it.

Requirements
* Realistic: it should look like a plausible refactoring slip, optimisation, off-by-one, wrong default, stale cache, missing copy, wrong operator etc. in the code the property is anchored in - not sabotage that an ordinary first use would expose at once. It should need something specific to manifest: an unusual input or combination of inputs, a multi-step sequence of operations, a particular interleaving of processes, a crash at a particular point, or two cooperating sites that each look fine alone.
* The existing test suite must still pass with your change: run
      cd {wt} && SAS_DLL_PATH={wt}-dll SAS_OPENCL=none PYTHONPATH={wt} /venv/bin/python -m pytest -q -p no:cacheprovider --timeout=900 2>&1 | tail -5
  Expected: 101 passed, and exactly 2 pre-existing failures (IgorComparisonTest::test_ellipsoid and test_slit_romberg fail with ImportError with or without your change). Always run python with PYTHONPATH={wt} (otherwise /repo is imported instead of your worktree) and SAS_DLL_PATH={wt}-dll SAS_OPENCL=none.
* Demonstration: a self-contained script {wt}-out/demo1.py (demo2.py for a second change) that exits with status 0 on the unchanged code and non-zero (with a short message saying what went wrong) on the changed code, run as
      cd {wt} && SAS_DLL_PATH={wt}-dll SAS_OPENCL=none PYTHONPATH={wt} /venv/bin/python {wt}-out/demo1.py
  Check both: with the change applied, and on the unchanged code (save your change with `git diff > {wt}-out/patch1.diff`, revert with `git checkout -- .`, run the demo, re-apply with `git apply {wt}-out/patch1.diff`). Do NOT use `git stash` (the stash is shared with other worktrees).
{("* Changes of the following kinds have ALREADY been produced by others - do something of a clearly different character (other file / other mechanism / other trigger): " + avoid) if avoid else ""}
* If you can, produce TWO independent changes of different character (different mechanism / different file); otherwise one.

Deliver in {wt}-out/ : patch1.diff (output of `git diff` for change 1 alone, relative to HEAD, applicable with `git apply`), demo1.py, and if you have a second one patch2.diff, demo2.py; and notes.md saying for each change what it breaks, what it needs in order to manifest, and the exact commands you ran with their results. When finished, leave the worktree clean (git checkout -- .) - I will remove it. Final answer: a short summary of each change (file, mechanism, trigger) and the test-suite result lines.""")

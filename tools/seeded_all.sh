#!/bin/bash
# Re-run every kept seeded change against its property's quick check (scratch worktree + VERIF_REPO).
# usage: tools/seeded_all.sh [name-glob]   -> table on stdout and /verif/seeded/RESULTS.md
cd /verif
OUT=/verif/seeded/RESULTS.md
echo "| seeded change | property | check exit | violations | wall |" > $OUT.tmp
echo "|---|---|---|---|---|" >> $OUT.tmp
for d in seeded/${1:-*}/; do
  n=$(basename $d); [ -f $d/patch.diff ] || continue
  prop=$(python3 -c "import json;print(json.load(open('$d/meta.json'))['property'])")
  W=$(mktemp -d /tmp/sw-XXXXXX); rmdir $W
  git -C /repo worktree add -q --detach $W HEAD
  if ! git -C $W apply $d/patch.diff 2>/dev/null; then echo "| $n | $prop | PATCH-DOES-NOT-APPLY | | |" >> $OUT.tmp; git -C /repo worktree remove --force $W; continue; fi
  O=$(VERIF_REPO=$W ./check $prop --jobs "${JOBS:-12}" 2>&1); RC=$?
  L=$(echo "$O" | grep -E "^C[0-9]+ tier")
  echo "| $n | $prop | $RC | $(echo $L | sed 's/.*violations=\([0-9]*\).*/\1/') | $(echo $L | sed 's/.*wall=//') |" | tee -a $OUT.tmp
  git -C /repo worktree remove --force $W; rm -rf $W-dll
done
mv $OUT.tmp $OUT

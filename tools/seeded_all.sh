#!/bin/bash
# Re-run every kept seeded change against its property's quick check (scratch worktree + VERIF_REPO).
# usage: tools/seeded_all.sh [name-glob]   -> table on stdout and /verif/seeded/RESULTS.md
# LANES (default 4) seeds run at once, each check with JOBS (default 4) workers.
cd /verif
OUT=/verif/seeded/RESULTS.md; [ -n "$1" ] && OUT=/tmp/seeded-partial.md
R=$(mktemp -d /tmp/seeded-all-XXXXXX)
one() {
  d=$1; R=$2
  n=$(basename $d); [ -f $d/patch.diff ] || exit 0
  prop=$(python3 -c "import json;print(json.load(open('$d/meta.json'))['property'])")
  W=$(mktemp -d /tmp/sw-XXXXXX); rmdir $W
  git -C /repo worktree add -q --detach $W HEAD
  if ! git -C $W apply /verif/$d/patch.diff 2>/dev/null; then echo "| $n | $prop | PATCH-DOES-NOT-APPLY | | |" > $R/$n; git -C /repo worktree remove --force $W; exit 0; fi
  O=$(VERIF_REPO=$W ./check $prop --jobs "${JOBS:-4}" 2>&1); RC=$?
  L=$(echo "$O" | grep -E "^C[0-9]+ tier")
  [ $RC = 1 ] || echo "$O" | tail -60 > /verif/.seeded_all.$n.out
  echo "| $n | $prop | $RC | $(echo $L | sed 's/.*violations=\([0-9]*\).*/\1/') | $(echo $L | sed 's/.*wall=//') |" | tee $R/$n
  git -C /repo worktree remove --force $W; rm -rf $W-dll
}
export -f one
ls -d seeded/${1:-*}/ | xargs -P "${LANES:-4}" -I{} bash -c 'one {} '$R
{ echo "| seeded change | property | check exit | violations | wall |"; echo "|---|---|---|---|---|"; cat $R/* ; } > $OUT
rm -rf $R; git -C /repo worktree prune

#!/venv/bin/python
"""rewrite DESIGN.md section 8.5 from seeded/*/meta.json, seeded/RESULTS.md and seeded/REVERTS.md"""
import collections, glob, json, os, re, subprocess
D = "/verif/DESIGN.md"
s = open(D).read()
i = s.index("### 8.5 Detection record")
head = s[:i]
metas = {os.path.basename(os.path.dirname(f)): json.load(open(f)) for f in sorted(glob.glob("/verif/seeded/*/meta.json"))}
tot, esc = collections.Counter(), collections.Counter()
for n, m in metas.items():
    w = n.split("-")[1][0]
    tot[w] += 1
    if (m.get("history") or "").strip():
        esc[w] += 1
res, cross = {}, {}
for line in open("/verif/seeded/RESULTS.md"):
    m = re.match(r"\| (\S+)( \(cross\))? \| (C\d+) \| (\S+) \| (\d*) \|", line)
    if m:
        (cross if m.group(2) else res)[m.group(1)] = (m.group(3), m.group(4), m.group(5))
own = sum(1 for n, r in res.items() if r[1] == "1")
notown = sorted(n for n, r in res.items() if r[1] != "1")
rev = [l for l in open("/verif/seeded/REVERTS.md") if re.match(r"\| [0-9a-f]{8} ", l)]
rev_ok = sum(1 for l in rev if re.match(r"\| [0-9a-f]{8} \| C\d+ \| 1 \|", l))
waves = "".join(sorted(tot))
table = subprocess.check_output(["/venv/bin/python", "/verif/tools/detection_table.py"]).decode()
crosstxt = "; ".join("%s by %s (exit %s, %s violations)" % (n, cross[n][0], cross[n][1], cross[n][2]) if n in cross else "%s: NOT RE-CHECKED" % n
                     for n in notown)
body = """### 8.5 Detection record: which check catches which change

**Independent seeded changes.**  %d property-breaking changes were written by fresh sub-agents that were
given only the text of one property and a scratch worktree of `/repo` (nothing from `/verif`), in %d waves
(%s-%s; from the second wave on the prompt listed which *kinds* of change already existed for the property and
asked for something of a different character, so later waves probe the edges of the alphabets).  A change was
kept only after I confirmed in a scratch worktree of my own (`tools/seedcheck.sh`) that (i) it applies to
`/repo` HEAD, (ii) the repository's suite still passes with it (101 passed, the 2 pre-existing failures
unchanged), (iii) the sub-agent's demonstration fails with it and passes without it.  Each is stored as
`/verif/seeded/<property>-<wave><n>/` (`patch.diff`, `demo.py`, `meta.json`).  %d of the %d (%s per wave)
**escaped** the checks as they stood when the change arrived; every escape was answered by extending an
alphabet, a bound or an oracle (8.3a; the `first attempt` column says what was missing), never by special-casing
the change, and three of the extensions exposed genuine defects of the unchanged tree (8.4: c35a352d, 4d4dd036,
c227e954).  `tools/seeded_all.sh` re-runs all of them (scratch worktree + `VERIF_REPO`, quick tier, seed 0) and
writes `/verif/seeded/RESULTS.md`; the last run, after all extensions, gives **exit 1 with a VIOLATION line for
%d of %d through the quick check of the change's own property**; the other %d need another property's
quantifier by construction and are caught by that property's quick check (`tools/cross_check.sh`, rows marked
`(cross)` in RESULTS.md): %s.  No kept change is left undetected.  (Seven stored patches - C15-a1, b1, c1, c2, e1,
g2 and C19-a1 - no longer applied after later `fix:` commits touched the same lines; they were rebased by 3-way
merge, three of them by hand, and confirmed again with `tools/seedcheck.sh`.)

**Own mutants** (`/verif/mutants/*.diff`, run with `tools/mutant.sh <diff> <Cxx> [--suite]`): chunk overlap in
the dispersity loop, `>=` instead of `>` at the cutoff, normalisation by the form volume, silent truncation to
`MAX_PD`, stale result for an empty mesh, library tag from a rounded timestamp, template edit without rebuild -
all caught by C01 / C11 / C17 quick.

**Reverting the repairs.**  `tools/revert_sweep.sh` reverts each `fix:` commit of 8.4 in a scratch worktree
and runs the quick check of its property; `/verif/seeded/REVERTS.md` holds the result of the last sweep:
%d reverts, %d of them come back as exit 1 with a VIOLATION line (a fixed entry in `known_findings.json`
suppresses nothing).

The `caught by` column names the family inside the check; `re-run` is the exit code and the number of
distinct violating cases of the last `tools/seeded_all.sh` run.

""" % (len(metas), len(tot), waves[0], waves[-1], sum(esc.values()), len(metas),
       ", ".join(str(esc[w]) for w in sorted(tot)), own, len(res), len(notown), crosstxt, len(rev), rev_ok)
open(D, "w").write(head + body + table)
print("seeds", len(metas), "own", own, "notown", notown, "reverts", len(rev), rev_ok)

#!/bin/bash
# usage: mutant.sh <patch.diff> <check id> [--suite] [--tier T]
# Applies a patch to a scratch copy of /repo, optionally runs the repository suite there, runs the
# check against the copy (VERIF_REPO), reports the exit code and removes the copy.
PATCH="$(readlink -f "$1")"; ID="$2"; shift 2
SUITE=0; TIER=quick
while [ $# -gt 0 ]; do case "$1" in --suite) SUITE=1;; --tier) TIER="$2"; shift;; esac; shift; done
D=$(mktemp -d /tmp/mut-XXXXXX)
rsync -a --exclude .git --exclude '__pycache__' /repo/ "$D/"
if ! (cd "$D" && patch -p1 -s < "$PATCH"); then echo "PATCH-FAILED $PATCH"; rm -rf "$D"; exit 3; fi
if [ $SUITE = 1 ]; then
  (cd "$D" && PYTHONPATH="$D" bash /verif/tools/suite.sh "$D" | tail -1)
fi
cd /verif
OUT=$(VERIF_REPO="$D" ./check "$ID" --tier "$TIER" --jobs "${JOBS:-8}" 2>&1); RC=$?
echo "$OUT" | grep -E "^(VIOLATION|KNOWN-FINDING|HARNESS|VACUOUS|C[0-9]+ tier)" | head -8
echo "MUTANT $(basename "$PATCH") check=$ID exit=$RC"
rm -rf "$D"
exit 0

#!/bin/bash
# Run the repository's own pinned suite (guard off) and compare with the baseline:
# exactly the two always-failing tests may fail, 101 must pass.   usage: suite.sh [repo-dir]
REPO="${1:-/repo}"
cd "$REPO" || exit 2
OUT=$(/venv/bin/python -m pytest -ra -q -p no:cacheprovider --timeout=900 --continue-on-collection-errors 2>&1)
echo "$OUT" | tail -6
FAILED=$(echo "$OUT" | grep -E '^(FAILED|ERROR) ' | grep -v -E 'IgorComparisonTest::test_ellipsoid|IgorComparisonTest::test_slit_romberg')
PASSED=$(echo "$OUT" | grep -oE '[0-9]+ passed' | grep -oE '[0-9]+')
if [ -n "$FAILED" ] || [ "${PASSED:-0}" -lt 101 ]; then
  echo "SUITE: NOT OK (passed=$PASSED)"; echo "$FAILED"; exit 1
fi
echo "SUITE: OK (passed=$PASSED)"

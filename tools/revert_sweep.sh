#!/bin/bash
# Revert each `fix:` commit recorded in known_findings.json in a scratch worktree of /repo and run the quick
# check of its property against it: the violation it repaired must come back (exit 1).
# usage: tools/revert_sweep.sh [commit-prefix...]  -> /verif/seeded/REVERTS.md
cd /verif
OUT=/verif/seeded/REVERTS.md; [ -n "$1" ] && OUT=/tmp/reverts-partial.md
R=$(mktemp -d /tmp/revert-sweep-XXXXXX)
python3 - "$@" > $R/list <<'PY'
import json, sys
seen = set()
for e in json.load(open('/verif/known_findings.json'))['findings']:
    if e.get('status') == 'fixed' and (e['property'], e['commit']) not in seen:
        if len(sys.argv) > 1 and not any(e['commit'].startswith(a) for a in sys.argv[1:]):
            continue
        seen.add((e['property'], e['commit']))
        print(e['property'], e['commit'])
PY
one() {
  prop=$1; c=$2; R=$3
  W=$(mktemp -d /tmp/rv-XXXXXX); rmdir $W
  git -C /repo worktree add -q --detach $W HEAD
  NOTE=""
  if ! git -C $W revert --no-commit $c >/dev/null 2>&1; then
    # a later fix builds on this one: revert the later commits that touch the same files first (newest first)
    git -C $W revert --abort >/dev/null 2>&1; git -C $W reset -q --hard HEAD
    LATER=$(git -C $W log --format=%h $c..HEAD -- $(git -C $W show --format= --name-only $c))
    if ! git -C $W revert --no-commit $LATER $c >/dev/null 2>&1; then
      echo "| $c | $prop | REVERT-CONFLICTS | | |" > $R/$prop-$c
      git -C /repo worktree remove --force $W; exit 0
    fi
    NOTE=" (reverted together with the later $(echo $LATER | tr '\n' ' ')that builds on it)"
  fi
  O=$(VERIF_REPO=$W ./check $prop --jobs "${JOBS:-4}" 2>&1); RC=$?
  L=$(echo "$O" | grep -E "^C[0-9]+ tier")
  echo "| $c | $prop | $RC | $(echo $L | sed 's/.*violations=\([0-9]*\).*/\1/') | $(git -C /repo log -1 --format=%s $c | cut -c1-90)$NOTE |" | tee $R/$prop-$c
  git -C /repo worktree remove --force $W; rm -rf $W-dll
}
export -f one
cat $R/list | xargs -P "${LANES:-4}" -L1 bash -c 'one $0 $1 '$R
{ echo "| reverted commit | property | check exit | violations | subject |"; echo "|---|---|---|---|---|"; cat $R/C* ; } > $OUT
rm -rf $R; git -C /repo worktree prune

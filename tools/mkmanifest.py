#!/venv/bin/python
"""Regenerate /verif/MANIFEST.json from the property modules (python tools/mkmanifest.py)."""
import importlib
import json
import os
import sys

sys.path.insert(0, "/verif")
os.environ.setdefault("SAS_DLL_PATH", "/nonexistent-verif-manifest")

props = [json.loads(l) for l in open("/verif/properties.jsonl")]
checks, na = [], []
for p in props:
    pid = p["id"]
    path = "/verif/mc/props/%s.py" % pid.lower()
    ready = open("/verif/tools/ready.txt").read().split()
    if not os.path.exists(path) or pid not in ready:
        na.append({"property_id": pid, "reason": "check not built yet (planned: DESIGN.md section 3 %s)" % pid})
        continue
    src = open(path).read()
    ns = {}
    # read the declarative constants without importing sasmodels
    for name in ("TECHNIQUE", "LEVEL_TEXT", "LEVEL_NOTE", "LEVEL", "ENGINE"):
        pass
    mod = importlib.import_module("mc.props." + pid.lower())
    if getattr(mod, "NOT_APPLICABLE", None):
        na.append({"property_id": pid, "reason": mod.NOT_APPLICABLE})
        continue
    checks.append({
        "property_id": pid,
        "quick_cmd": "./check %s --tier quick" % pid,
        "thorough_cmd": "./check %s --tier thorough" % pid,
        "evidence_file": "/verif/evidence/%s.json" % pid,
        "replay_cmd_template": "./check %s --replay {path}" % pid,
        "engine": getattr(mod, "ENGINE", "E1"),
        "level_claimed": {
            "category": getattr(mod, "LEVEL", "model_checking"),
            "text": getattr(mod, "LEVEL_TEXT", None) or (
                "Bounded exhaustive exploration on the real implementation: " + mod.TECHNIQUE.rstrip(". ") + ". "
                "Space and non-triviality rule: " + getattr(mod, "RULE", "").rstrip(". ") + ". "
                "Within the stated bounds every element is executed and judged (nothing is sampled), so a violation "
                "inside the space cannot be missed; outside the alphabet (other real values, deeper histories, more "
                "preemptions) nothing is claimed. This is the right level because the property quantifies over a space "
                "the pinned tests sample at a handful of points, while its mechanisms branch on a small number of "
                "discrete conditions that a per-branch alphabet can cover completely."),
            "design_ref": "DESIGN.md section 3, %s" % pid,
        },
        "level_note": getattr(mod, "LEVEL_NOTE", "; ".join(getattr(mod, "ASSUMPTIONS", []))),
        "technique": mod.TECHNIQUE,
    })

manifest = {
    "version": 1,
    "setup_cmd": "bash /verif/tools/setup.sh",
    "hooks": {
        "guard": "SASMODELS_VERIF",
        "enable": "no source hooks are needed: scheduling points come from sys.addaudithook and the CC "
                  "environment variable, kernels are reached through ctypes; checks import /repo's working tree",
        "baseline_off_cmd": "bash /verif/tools/suite.sh /repo",
        "source_commits": [],
        "add_only": True,
    },
    "engines": [
        {"name": "E1", "path": "/verif/mc/engine.py",
         "serves_properties": [c["property_id"] for c in checks if c["engine"] == "E1"],
         "kind_free_text": "deviation-bounded exhaustive enumeration of a finite per-branch input/program alphabet, "
                           "every element executed on the real implementation and judged against a numpy reference model"},
        {"name": "E2", "path": "/verif/mc/props/c11.py",
         "serves_properties": [c["property_id"] for c in checks if c["engine"] == "E2"],
         "kind_free_text": "stateless exploration of operation / edit histories on the real implementation: depth-first "
                           "search that forks the process holding the live objects at every node, every history up to "
                           "the depth bound executed (count checked against the closed form), fresh-process oracle from "
                           "a pristine zygote (mc/zygote.py); C17 uses the same scheme in mc/props/c17.py"},
        {"name": "E3", "path": "/verif/mc/procsched.py",
         "serves_properties": [c["property_id"] for c in checks if c["engine"] == "E3"],
         "kind_free_text": "controlled scheduler over real OS processes: all interleavings up to a preemption bound "
                           "and all kill / interrupt points, scheduling points from audit hooks and a scripted compiler"},
        {"name": "E4", "path": "/verif/mc/threadsched.py",
         "serves_properties": ["C02"],
         "kind_free_text": "controlled scheduler over real Python threads (sys.settrace line events of the files under "
                           "test, one thread runs at a time): all interleavings up to a preemption bound; used by part C "
                           "of the C02 check"},
    ],
    "checks": checks,
    "notes": "All checks: cwd=/verif, ./check <id> --tier quick|thorough; exit 0 held / 1 VIOLATION / 2 harness error. "
             "Known findings: /verif/known_findings.json (read-only at run time).",
    "not_applicable": na,
}
with open("/verif/MANIFEST.json", "w") as fh:
    json.dump(manifest, fh, indent=1)
    fh.write("\n")
print("checks:", [c["property_id"] for c in checks])
print("not_applicable:", [n["property_id"] for n in na])

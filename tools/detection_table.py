#!/venv/bin/python
"""print the markdown detection table from /verif/seeded/*/meta.json (+ RESULTS.md exit codes if present)"""
import glob, json, os, re
res = {}
p = "/verif/seeded/RESULTS.md"
if os.path.exists(p):
    for line in open(p):
        m = re.match(r"\| (\S+) \| (C\d+) \| (\S+) \| (\d*) \|", line)
        if m:
            res[m.group(1)] = (m.group(3), m.group(4))
print("| seeded change | property | needs in order to manifest | caught by | first attempt |")
print("|---|---|---|---|---|")
for d in sorted(glob.glob("/verif/seeded/*/meta.json")):
    m = json.load(open(d))
    n = os.path.basename(os.path.dirname(d))
    hist = m.get("history") or "caught as built"
    r = res.get(n)
    det = m["detected_by"] + ((" (re-run: exit %s, %s violations)" % r) if r else "")
    print("| %s | %s | %s | %s | %s |" % (n, m["property"], m["needs_to_manifest"].replace("|", "/"), det.replace("|", "/"), hist.replace("|", "/")))

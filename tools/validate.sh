#!/bin/bash
# validate MANIFEST.json and every evidence file against the schemas
python3-vt - <<'PY'
import json, glob, jsonschema, sys
ok = True
m = json.load(open('/verif/MANIFEST.json'))
jsonschema.validate(m, json.load(open('/root/.vp/MANIFEST.schema.json')))
print("MANIFEST ok: %d checks, %d n/a" % (len(m['checks']), len(m.get('not_applicable', []))))
s = json.load(open('/root/.vp/EVIDENCE.schema.json'))
for f in sorted(glob.glob('/verif/evidence/*.json')):
    try:
        jsonschema.validate(json.load(open(f)), s); print("ok", f)
    except Exception as e:
        ok = False; print("INVALID", f, str(e)[:300])
sys.exit(0 if ok else 1)
PY

#!/bin/bash
# silence.sh <tier> <seeds...> : run every registered check for the given seeds; report non-zero exits
TIER="$1"; shift
for s in "$@"; do
  for id in $(cat /verif/tools/ready.txt); do
    O=$(VERIF_SEED=$s ./check $id --tier $TIER --jobs "${JOBS:-8}" 2>&1); RC=$?
    echo "seed=$s $id exit=$RC $(echo "$O" | grep -E "^C[0-9]+ tier" | sed 's/.*evaluations/evaluations/')"
    [ $RC != 0 ] && echo "$O" | grep -E "VIOLATION|HARNESS|VACUOUS" | head -3
  done
done

#!/bin/bash
# usage: seedcheck.sh <seed-out-dir> <n> <check id> [more check ids...]
# Confirms a seeded change independently (suite passes, demo fails with / passes without) in a fresh
# scratch worktree of /repo and runs the given checks against it (VERIF_REPO).  Removes the worktree.
OUT="$1"; N="$2"; shift 2
W=$(mktemp -d /tmp/sw-XXXXXX); rmdir "$W"
git -C /repo worktree add -q --detach "$W" HEAD || exit 3
trap 'git -C /repo worktree remove --force "$W" 2>/dev/null; rm -rf "$W" "$W-dll"' EXIT
run_demo() { (cd "$W" && SAS_DLL_PATH="$W-dll" SAS_OPENCL=none PYTHONPATH="$W" timeout 900 /venv/bin/python "$OUT/demo$N.py" >/tmp/seedcheck-demo.log 2>&1; echo $?); }
echo "demo on unchanged code: exit=$(run_demo)"
if ! git -C "$W" apply "$OUT/patch$N.diff"; then echo "PATCH DOES NOT APPLY"; exit 3; fi
echo "demo with change:       exit=$(run_demo)   ($(tail -1 /tmp/seedcheck-demo.log | cut -c1-160))"
(cd "$W" && SAS_DLL_PATH="$W-dll" SAS_OPENCL=none PYTHONPATH="$W" /venv/bin/python -m pytest -q -p no:cacheprovider --timeout=900 2>&1 | tail -1)
cd /verif
for ID in "$@"; do
  O=$(VERIF_REPO="$W" ./check "$ID" --jobs "${JOBS:-8}" 2>&1); RC=$?
  echo "$O" | grep -E "^(VIOLATION|HARNESS|VACUOUS|C[0-9]+ tier)" | head -4
  echo "$O" | grep -B3 "^VIOLATION" | grep -v "^VIOLATION" | head -4 | cut -c1-300
  echo "SEED $(basename $OUT)/patch$N check=$ID exit=$RC"
done

#!/venv/bin/python
"""keepseed.py <outdir> <n> <property> <name> <needs> <detected_by> [<history>]  -> /verif/seeded/<name>/"""
import json, os, shutil, sys
out, n, prop, name, needs, det = sys.argv[1:7]
hist = sys.argv[7] if len(sys.argv) > 7 else ""
d = "/verif/seeded/%s" % name
os.makedirs(d, exist_ok=True)
shutil.copy(os.path.join(out, "patch%s.diff" % n), os.path.join(d, "patch.diff"))
shutil.copy(os.path.join(out, "demo%s.py" % n), os.path.join(d, "demo.py"))
notes = os.path.join(out, "notes.md")
if os.path.exists(notes):
    shutil.copy(notes, os.path.join(d, "author_notes.md"))
meta = {
    "property": prop,
    "origin": "independent sub-agent given only the property text and a scratch worktree (%s patch%s)" % (os.path.basename(out.rstrip('/')), n),
    "needs_to_manifest": needs,
    "confirmed_by": [
        "tools/seedcheck.sh %s %s %s: fresh scratch worktree of /repo; demo exits 0 on the unchanged code and non-zero with the change; "
        "repository suite with the change: 101 passed, 2 pre-existing failures" % (out, n, det.split()[0]),
    ],
    "detected_by": det,
    "history": hist,
    "apply": "git -C /repo apply /verif/seeded/%s/patch.diff ; ./check <id> ; git -C /repo checkout -- ." % name,
}
json.dump(meta, open(os.path.join(d, "meta.json"), "w"), indent=1)
print("kept", d)

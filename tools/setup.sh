#!/bin/bash
# Offline setup: the framework is pure Python run by /venv/bin/python (numpy, scipy + the editable
# install of /repo); nothing to build.  Verify the interpreter and imports only.
set -e
cd /verif
chmod +x check tools/*.sh 2>/dev/null || true
mkdir -p evidence replays
/venv/bin/python -c "import numpy, scipy, sasmodels; print('setup ok', numpy.__version__, scipy.__version__, sasmodels.__file__)"

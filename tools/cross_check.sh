#!/bin/bash
# Seeded changes whose own property's quick check does not see them (by construction: they need another
# property's quantifier) are run against the check named here; rows are appended to seeded/RESULTS.md.
cd /verif
OUT=/verif/seeded/RESULTS.md
MAP="C01-g1:C05 C02-g2:C10 C07-a2:C11 C09-a2:C01 C11-d2:C17 C11-g2:C02 C14-c1:C11"
sed -i '/ (cross) /d' $OUT
for m in $MAP; do
  n=${m%%:*}; c=${m##*:}
  W=$(mktemp -d /tmp/sw-XXXXXX); rmdir $W
  git -C /repo worktree add -q --detach $W HEAD
  git -C $W apply /verif/seeded/$n/patch.diff
  O=$(VERIF_REPO=$W ./check $c --jobs "${JOBS:-8}" 2>&1); RC=$?
  L=$(echo "$O" | grep -E "^C[0-9]+ tier")
  echo "| $n (cross) | $c | $RC | $(echo $L | sed 's/.*violations=\([0-9]*\).*/\1/') | $(echo $L | sed 's/.*wall=//') |" | tee -a $OUT
  git -C /repo worktree remove --force $W; rm -rf $W-dll
done
git -C /repo worktree prune

"""
Known findings: /verif/known_findings.json is committed and only ever READ at run time.

Entry:  {"property": "C12", "status": "open" | "fixed", "match": {key: value, ...},
         "what": "<the specific input / call site that fails>", "commit": "<fix commit, if fixed>"}

A violation carries an `fkey` dict produced by the property module (model, clause, parameter...).
It is covered by an *open* entry iff every (key, value) of the entry's `match` equals the
violation's fkey entry (a list value in `match` means "one of").  A `fixed` entry suppresses
nothing.  Any violation not covered is reported with exit 1.
"""
import json
import os

PATH = "/verif/known_findings.json"


def load_findings(pid):
    if not os.path.exists(PATH):
        return []
    with open(PATH) as fh:
        doc = json.load(fh)
    return [e for e in doc.get("findings", []) if e.get("property") == pid]


def _covers(entry, fkey):
    m = entry.get("match") or {}
    if not m:
        return False
    for k, v in m.items():
        have = fkey.get(k)
        if isinstance(v, list):
            if have not in v:
                return False
        elif have != v:
            return False
    return True


def split_known(fails, findings):
    open_entries = [e for e in findings if e.get("status") == "open"]
    new, hits = [], {}
    for f in fails:
        for n, e in enumerate(open_entries):
            if _covers(e, f.get("fkey") or {}):
                hits.setdefault(n, []).append(f)
                break
        else:
            new.append(f)
    known = [(open_entries[n], hits[n]) for n in sorted(hits)]
    return new, known

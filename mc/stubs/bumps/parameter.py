"""
Minimal stand-in for bumps.parameter (bumps is not installed in this image and
cannot be fetched).  Only what sasmodels.bumps_model touches: Parameter.default,
Parameter.value / .name / .range, and Reference.
"""


class Parameter(object):
    def __init__(self, value=None, name=None, **kw):
        self.value = value
        self.name = name
        self.limits = kw.get("limits", (float("-inf"), float("inf")))
        self.fixed = True

    @classmethod
    def default(cls, value, **kw):
        if isinstance(value, Parameter):
            return value
        return cls(value, **kw)

    def range(self, low, high):
        self.limits = (low, high)
        self.fixed = False
        return self

    def pm(self, *args):
        self.fixed = False
        return self

    def pmp(self, *args):
        self.fixed = False
        return self

    def __float__(self):
        return float(self.value)

    def __repr__(self):
        return "Parameter(%r, name=%r)" % (self.value, self.name)


class Reference(Parameter):
    def __init__(self, obj, attr, **kw):
        Parameter.__init__(self, None, **kw)
        self.obj, self.attr = obj, attr

    @property
    def value(self):
        return getattr(self.obj, self.attr)

    @value.setter
    def value(self, v):
        if v is not None:
            setattr(self.obj, self.attr, v)

"""
Generated plug-in model definitions (C09, C16) and the reference mean over a dispersity mesh
computed from a point function.

Expression trees are JSON-able nested lists:

    ["q"]                       the scattering vector magnitude
    ["a", name]                 another array-valued variable (qa, qb, qc, qab of the oriented 2-D functions)
    ["p", name]                 scalar parameter
    ["e", name, k]              element k (0-based) of vector parameter `name`
    ["c", value]                floating point constant
    ["i", text]                 INTEGER literal written exactly as `text` ("-2", "+3", "0") in C, same value in numpy
    ["call", f, a]  ["call", f, a, b]   C99 math function f (MATH_FUNCTIONS) of one / two arguments
    ["inv", x]                  1/(1+x^2)
    ["gau", x]                  exp(-x^2)
    ["add", a, b], ["mul", a, b]

Every tree can be rendered as C, rendered as numpy source, or evaluated directly (`evaluate`).  All
leaves are positive in the alphabets used, so no rendering involves cancellation.
"""
import itertools
import json
import os

import numpy as np


# ------------------------------------------------------------------------------------------------
# expression trees

def _np_gamma(x):
    from scipy.special import gamma
    return gamma(x)


def _np_erf(x):
    from scipy.special import erf
    return erf(x)


def _np_erfc(x):
    from scipy.special import erfc
    return erfc(x)


# C99 name -> (numpy source text used in the Python flavour, callable used by direct evaluation)
MATH_FUNCTIONS = {
    "sin": ("np.sin", np.sin), "cos": ("np.cos", np.cos), "tan": ("np.tan", np.tan),
    "asin": ("np.arcsin", np.arcsin), "acos": ("np.arccos", np.arccos), "atan": ("np.arctan", np.arctan),
    "sinh": ("np.sinh", np.sinh), "cosh": ("np.cosh", np.cosh), "tanh": ("np.tanh", np.tanh),
    "asinh": ("np.arcsinh", np.arcsinh), "acosh": ("np.arccosh", np.arccosh), "atanh": ("np.arctanh", np.arctanh),
    "atan2": ("np.arctan2", np.arctan2), "erf": ("erf", _np_erf), "erfc": ("erfc", _np_erfc),
    "tgamma": ("tgamma", _np_gamma), "exp": ("np.exp", np.exp), "exp2": ("np.exp2", np.exp2),
    "expm1": ("np.expm1", np.expm1), "log": ("np.log", np.log), "log2": ("np.log2", np.log2),
    "log10": ("np.log10", np.log10), "log1p": ("np.log1p", np.log1p), "pow": ("np.power", np.power),
    "sqrt": ("np.sqrt", np.sqrt), "fabs": ("np.fabs", np.fabs), "fmax": ("np.fmax", np.fmax),
    "fmin": ("np.fmin", np.fmin),
}


def render(e, lang="c"):
    k = e[0]
    if k == "i":
        return e[1] if lang == "c" else "(%r)" % float(int(e[1]))
    if k == "call":
        args = ", ".join(render(a, lang) for a in e[2:])
        return "%s(%s)" % (e[1] if lang == "c" else MATH_FUNCTIONS[e[1]][0], args)
    if k == "q":
        return "q"
    if k == "a":
        return e[1]
    if k == "p":
        return e[1]
    if k == "e":
        return "%s[%d]" % (e[1], e[2])
    if k == "c":
        return repr(float(e[1]))
    if k == "inv":
        x = render(e[1], lang)
        return "(1.0/(1.0 + (%s)*(%s)))" % (x, x)
    if k == "gau":
        x = render(e[1], lang)
        return "exp(-(%s)*(%s))" % (x, x)
    if k == "add":
        return "(%s + %s)" % (render(e[1], lang), render(e[2], lang))
    if k == "mul":
        return "(%s * %s)" % (render(e[1], lang), render(e[2], lang))
    raise ValueError("bad expression node %r" % (e,))


def evaluate(e, env):
    """direct numpy evaluation; env: {"q": array, name: float | sequence}"""
    k = e[0]
    if k == "i":
        return float(int(e[1]))
    if k == "call":
        return MATH_FUNCTIONS[e[1]][1](*[evaluate(a, env) for a in e[2:]])
    if k == "q":
        return np.asarray(env["q"], float)
    if k == "a":
        return np.asarray(env[e[1]], float)
    if k == "p":
        return float(env[e[1]])
    if k == "e":
        return float(env[e[1]][e[2]])
    if k == "c":
        return float(e[1])
    if k == "inv":
        x = evaluate(e[1], env)
        return 1.0 / (1.0 + x * x)
    if k == "gau":
        x = evaluate(e[1], env)
        return np.exp(-(x * x))
    if k == "add":
        return evaluate(e[1], env) + evaluate(e[2], env)
    if k == "mul":
        return evaluate(e[1], env) * evaluate(e[2], env)
    raise ValueError("bad expression node %r" % (e,))


def symbols(e):
    if e[0] == "q":
        return {"q"}
    if e[0] == "a":
        return {e[1]}
    if e[0] == "p":
        return {e[1]}
    if e[0] == "e":
        return {e[1]}
    if e[0] in ("c", "i"):
        return set()
    if e[0] == "call":
        out = set()
        for x in e[2:]:
            out |= symbols(x)
        return out
    out = set()
    for x in e[1:]:
        out |= symbols(x)
    return out


def all_trees(leaves, depth):
    """
    ALL expression trees of depth <= `depth` over the given leaves with the operators
    {inv, gau, add, mul}; operands of the commutative operators are taken as unordered pairs
    (combinations with replacement), which removes only mirror images.
    """
    base = [list(l) for l in leaves]
    cur = list(base)
    for _ in range(depth):
        new, seen = [], set()

        def add(t):
            key = json.dumps(t)
            if key not in seen:
                seen.add(key)
                new.append(t)
        for t in cur:
            add(t)
        for t in cur:
            add(["inv", t])
            add(["gau", t])
        for a, b in itertools.combinations_with_replacement(cur, 2):
            add(["add", a, b])
            add(["mul", a, b])
        cur = new
    return cur


def substitute(e, mapping):
    """rename scalar parameters / turn a scalar into a vector element: mapping {old: new-node}"""
    if e[0] == "p" and e[1] in mapping:
        return mapping[e[1]]
    if e[0] in ("q", "a", "p", "e", "c", "i"):
        return e
    if e[0] == "call":
        return e[:2] + [substitute(x, mapping) for x in e[2:]]
    return [e[0]] + [substitute(x, mapping) for x in e[1:]]


def lincomb(nodes, c0=1.0, step=0.5):
    """sum_k (c0 + k*step) * node_k  - distinguishes every argument position"""
    out = None
    for k, n in enumerate(nodes):
        term = ["mul", ["c", c0 + k * step], n]
        out = term if out is None else ["add", out, term]
    return out


# ------------------------------------------------------------------------------------------------
# model definition files

HEADER = '''r"""generated by the verification harness: %(doc)s"""
import numpy as np
from numpy import inf, exp, sqrt, nan
name = "%(name)s"
title = "generated definition"
description = "generated definition"
category = "shape-independent"
'''


def par_rows(spec):
    rows = []
    for p in spec["pars"]:
        nm = p["name"]
        if p.get("length") is not None:
            nm = "%s[%s]" % (nm, p["length"])
        rows.append([nm, p.get("units", ""), p["default"], [p["lo"], p["hi"]], p["type"], "generated"])
    return rows


def _pyrepr(v):
    if isinstance(v, float) and np.isinf(v):
        return "inf" if v > 0 else "-inf"
    if isinstance(v, (list, tuple)):
        return "[" + ", ".join(_pyrepr(x) for x in v) + "]"
    return repr(v)


def table_source(rows):
    return "parameters = [\n" + "".join("    %s,\n" % _pyrepr(r) for r in rows) + "]\n"


def kernel_pars(spec):
    """parameter entries in table order with resolved vector length"""
    out = []
    ctl = {p["name"]: p for p in spec["pars"]}
    for p in spec["pars"]:
        ln = p.get("length")
        if ln is None:
            n = 1
        elif isinstance(ln, int):
            n = ln
        else:
            n = int(ctl[ln]["hi"])
        out.append(dict(p, n=n, vector=ln is not None))
    return out


def call_names(spec):
    """user-visible parameter names (vector elements name1, name2, ...) in table order, with their entry"""
    out = []
    for p in kernel_pars(spec):
        if p["vector"]:
            for k in range(1, p["n"] + 1):
                out.append((p["name"] + str(k), p))
        else:
            out.append((p["name"], p))
    return out


def _args(spec, which, lang):
    out = []
    for p in kernel_pars(spec):
        if which == "volume" and p["type"] != "volume":
            continue
        if lang == "c":
            out.append(("double *%s" if p["vector"] else "double %s") % p["name"])
        else:
            out.append(p["name"])
    return out


def write_pair(spec, scratch, name):
    """write <name>_c.py and <name>_py.py (and <name>_pys.py, non-vectorised Iq); returns their paths"""
    paths = {}
    valid = spec.get("valid")
    # ---- C flavour
    src = [HEADER % {"doc": "C flavour", "name": name + "_c"}, table_source(par_rows(spec))]
    src.append('Iq = """\n    return %s;\n"""\n' % render(spec["iq"], "c"))
    if spec.get("iqxy") is not None:
        src.append('Iqxy = """\n    const double q = sqrt(qx*qx + qy*qy);\n    return %s + 0.5*qx*qx + 0.25*qy;\n"""\n'
                   % render(spec["iqxy"], "c"))
    if spec.get("volume") is not None:
        src.append('form_volume = """\n    return %s;\n"""\n' % render(spec["volume"], "c"))
    if spec.get("shell") is not None:
        src.append('shell_volume = """\n    return %s;\n"""\n' % render(spec["shell"], "c"))
    if spec.get("reff") is not None:
        a = ", ".join(["int mode"] + _args(spec, "volume", "c"))
        body = "".join("    case %d: return %s;\n" % (m + 1, render(e, "c")) for m, e in enumerate(spec["reff"]))
        src.append('radius_effective_modes = %r\n' % ["mode %d" % (m + 1) for m in range(len(spec["reff"]))])
        src.append('c_code = """\nstatic double radius_effective(%s)\n{\n  switch (mode) {\n  default:\n%s  }\n}\n"""\n'
                   % (a, body))
    if valid:
        src.append('valid = "%s <= %s"\n' % (valid[0], valid[1]))
    paths["c"] = os.path.join(scratch, name + "_c.py")
    with open(paths["c"], "w") as fh:
        fh.write("".join(src))
    # ---- Python flavours
    for tag, vectorized in (("py", True), ("pys", False)):
        src = [HEADER % {"doc": "Python flavour", "name": name + "_" + tag},
               "from scipy.special import erf, erfc, gamma as tgamma\n", table_source(par_rows(spec))]
        a = ", ".join(["q"] + _args(spec, "iq", "py"))
        guard = ""
        if valid:
            guard = "    if not (%s <= %s):\n        return nan*q\n" % (valid[0], valid[1])
        src.append("def Iq(%s):\n%s    return %s\nIq.vectorized = %r\n"
                   % (a, guard, render(spec["iq"], "py"), vectorized))
        if spec.get("iqxy") is not None:
            a2 = ", ".join(["qx", "qy"] + _args(spec, "iq", "py"))
            src.append("def Iqxy(%s):\n    q = sqrt(qx*qx + qy*qy)\n%s    return %s + 0.5*qx*qx + 0.25*qy\nIqxy.vectorized = %r\n"
                       % (a2, guard, render(spec["iqxy"], "py"), vectorized))
        va = ", ".join(_args(spec, "volume", "py"))
        if spec.get("volume") is not None:
            src.append("def form_volume(%s):\n    return %s\n" % (va, render(spec["volume"], "py")))
        if spec.get("shell") is not None:
            src.append("def shell_volume(%s):\n    return %s\n" % (va, render(spec["shell"], "py")))
        if spec.get("reff") is not None:
            src.append('radius_effective_modes = %r\n' % ["mode %d" % (m + 1) for m in range(len(spec["reff"]))])
            body = "".join("    if mode == %d:\n        return %s\n" % (m + 1, render(e, "py"))
                           for m, e in enumerate(spec["reff"]))
            src.append("def radius_effective(%s):\n%s    return %s\n"
                       % (", ".join(["mode"] + _args(spec, "volume", "py")), body, render(spec["reff"][0], "py")))
        paths[tag] = os.path.join(scratch, "%s_%s.py" % (name, tag))
        with open(paths[tag], "w") as fh:
            fh.write("".join(src))
    return paths


def point_eval(spec, vals, q, mode, dim="1d", honour_novolume=True):
    """
    Direct evaluation of the definition at one parameter point.
    vals: {call name: value}; q: array (nq,) or (nq,2).  Returns None if the validity predicate fails,
    else dict(F2, form, shell, reff).
    """
    env = {}
    for p in kernel_pars(spec):
        if p["vector"]:
            env[p["name"]] = [vals[p["name"] + str(k)] for k in range(1, p["n"] + 1)]
        else:
            env[p["name"]] = vals[p["name"]]
    valid = spec.get("valid")
    if valid and not (env[valid[0]] <= env[valid[1]]):
        return None
    q = np.asarray(q, float)
    if dim == "2d":
        qx, qy = q[:, 0], q[:, 1]
        env["q"] = np.sqrt(qx * qx + qy * qy)
        if spec.get("iqxy") is not None:
            F2 = evaluate(spec["iqxy"], env) + 0.5 * qx * qx + 0.25 * qy
        else:
            F2 = evaluate(spec["iq"], env)
    else:
        env["q"] = q
        F2 = evaluate(spec["iq"], env)
    F2 = np.broadcast_to(np.asarray(F2, float), (len(q),)).copy()
    form = float(evaluate(spec["volume"], env)) if spec.get("volume") is not None else 1.0
    shell = float(evaluate(spec["shell"], env)) if spec.get("shell") is not None else form
    reff = 0.0
    if mode and spec.get("reff") is not None:
        reff = float(evaluate(spec["reff"][mode - 1], env))
    return {"F2": F2, "F1": None, "form": form, "shell": shell, "reff": reff}


# ------------------------------------------------------------------------------------------------
# reference mean from a point function

def mean_from_points(point_fn, nq, base, disp, cutoff=0.0):
    """
    Volume-normalised weighted mean over the Cartesian mesh of `disp` = {name: (values, weights)} (ordered),
    every mesh point evaluated by point_fn(point-dict) -> None (invalid point) | dict(F2, F1|None, form, shell, reff).
    base: nominal values incl. 'scale' and 'background'.  Same result keys as refmodel.weighted_mean.
    """
    scale = float(base.get("scale", 1.0))
    background = float(base.get("background", 0.0))
    names = list(disp)
    grids = [list(zip(np.asarray(disp[n][0], float), np.asarray(disp[n][1], float))) for n in names]
    sF2, sF1, aF2 = np.zeros(nq), np.zeros(nq), np.zeros(nq)
    have_F1 = False
    sw = sform = sshell = sreff = 0.0
    npoints = nqual = ncut = ninvalid = 0
    point = {k: v for k, v in base.items() if k not in ("scale", "background")}
    for combo in itertools.product(*grids):
        npoints += 1
        w = 1.0
        for n, (v, wi) in zip(names, combo):
            point[n] = float(v)
            w *= wi
        if not (w > cutoff):
            ncut += 1
            continue
        p = point_fn(dict(point))
        if p is None:
            ninvalid += 1
            continue
        if p.get("wfactor") is not None:
            # extra weight of the point that is not a distribution weight (|cos(dtheta)| of the jitter projection);
            # the cutoff applies to the complete weight
            w *= p["wfactor"]
            if not (w > cutoff):
                ncut += 1
                continue
        nqual += 1
        sw += w
        sF2 += w * p["F2"]
        aF2 += abs(w) * np.abs(p["F2"])
        if p.get("F1") is not None:
            have_F1 = True
            sF1 += w * p["F1"]
        sform += w * p["form"]
        sshell += w * p["shell"]
        sreff += w * p["reff"]
    out = {"npoints": npoints, "nqual": nqual, "ncut": ncut, "ninvalid": ninvalid, "sw": sw}
    if nqual == 0 or sw == 0:
        out.update(I=np.full(nq, background), F2=np.zeros(nq), F1=np.zeros(nq) if have_F1 else None,
                   reff=0.0, vshell=1.0, vratio=None, vform=0.0, mag=np.zeros(nq) + abs(background))
        return out
    vshell, vform = sshell / sw, sform / sw
    vs = vshell if vshell != 0 else 1.0
    out.update(I=scale * (sF2 / sw) / vs + background, F2=sF2 / sw, F1=(sF1 / sw) if have_F1 else None,
               reff=sreff / sw, vshell=vs, vform=vform, vratio=vform / vs,
               mag=np.abs(scale) * (aF2 / sw) / abs(vs) + abs(background), magF2=aF2 / sw)
    return out

"""
Building compiled models from the current working tree into the run's private SAS_DLL_PATH.

prebuild() compiles each *distinct base model* in its own process, models disjoint, before the worker
pool forks: concurrent first use of one model is exactly what C18 says is unsafe, and the harness must
not race with itself.  Workers then find every library already in the cache directory.
"""
import functools
import os

from .engine import HarnessError, pool_map


def all_models(kind="all"):
    from sasmodels import core
    return core.list_models(kind)


def compiled_models():
    from sasmodels import core
    return core.list_models("c")


@functools.lru_cache(maxsize=None)
def model(name, dtype="double"):
    """load (cached per process) a model / model expression on the DLL or pure-python driver"""
    from sasmodels import core
    return core.load_model(name, dtype=dtype, platform="dll")


@functools.lru_cache(maxsize=None)
def info(name):
    from sasmodels import core
    return core.load_model_info(name)


def _build_one(arg):
    name, dtype = arg
    from sasmodels import core
    m = core.load_model(name, dtype=dtype, platform="dll")
    return getattr(m, "dllpath", None)


def prebuild(ctx, names, dtype="double"):
    """compile the given BASE models (no expressions), one process per model"""
    names = sorted(set(names))
    for n in names:
        if any(ch in n for ch in "+*@"):
            raise HarnessError("prebuild takes base model names only: %r" % n)
    res = pool_map(ctx, _build_one, [(n, dtype) for n in names], timeout=300)
    bad = [(n, r) for n, r in zip(names, res) if r[0] != "done"]
    if bad:
        # a model that does not build on the current tree is a fact about the tree, reported by the caller
        return {n: r for n, r in bad}
    return {}


def base_names(expr):
    import re
    return [t for t in re.split(r"[+*@()\s]+", expr) if t]

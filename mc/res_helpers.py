"""
Shared helpers of the resolution / SESANS property modules (C03, C04, C19): finite alphabets of
q grids and widths, smooth test intensities with analytic derivatives, small numeric utilities.
Nothing here imports sasmodels and nothing is sampled.
"""
import math

import numpy as np

EPS = 2.0 ** -52
MIN_ABS_Q = 0.02          # documented: "Limit the smallest q value evaluated (in absolute) to 0.02*min"
NSIG_LOW, NSIG_HIGH = 2.5, 3.0   # documented pinhole window (-2.5, +3) sigma
SPAN = 50.0               # q[-1]/q[0] of every generated grid


# ----------------------------------------------------------------------------------------------
# q grids

def jitter_table(n):
    """fixed 'irregular' positions in [0, 1] (sorted, strictly increasing, end points included)"""
    if n == 1:
        return np.array([0.0])
    i = np.arange(n, dtype=float)
    t = i + 0.3 * np.sin(12.9898 * (i + 1.0))       # |jitter| <= 0.3 of a step: spacing >= 0.4 step
    t[0], t[-1] = 0.0, n - 1.0
    return np.sort(t) / (n - 1.0)


def qgrid(kind, n, q0, span=SPAN):
    """n ascending points starting at q0 and ending at span*q0"""
    if n == 1:
        return np.array([q0], dtype=float)
    if kind == "linear":
        return np.linspace(q0, span * q0, n)
    if kind == "log":
        return q0 * span ** (np.arange(n) / (n - 1.0))
    if kind == "irregular":
        return q0 * span ** jitter_table(n)
    raise ValueError(kind)


# ----------------------------------------------------------------------------------------------
# storage order of the data points: a fixed, finite menu of permutations (nothing random)

ORDERS = ["ascending", "descending", "rotated", "interleaved"]
ORDER_SPAN = 200.0        # max(q)/min(q) of the data sets whose storage order is varied


def order_perm(name, n):
    """
    index array p: the stored data are ascending[p] (per-point widths / wavelengths are permuted with them).
      descending  - reversed
      rotated     - cyclic shift by n//3: the set starts in its middle, the smallest value is stored inside; the
                    first two stored values are still increasing; not an involution unless n = 2k
      interleaved - two banks, even-indexed points first, then the odd-indexed ones; not an involution for n >= 4
    """
    i = np.arange(n)
    if name == "ascending":
        return i
    if name == "descending":
        return i[::-1].copy()
    if name == "rotated":
        k = max(1, n // 3)
        return np.concatenate([i[k:], i[:k]])
    if name == "interleaved":
        return np.concatenate([i[0::2], i[1::2]])
    raise ValueError(name)


def distinct_orders(n):
    """the non-ascending orders of the menu that are distinct permutations for n points"""
    out, seen = [], {tuple(range(n))}
    for name in ORDERS[1:]:
        t = tuple(int(v) for v in order_perm(name, n))
        if t not in seen:
            seen.add(t)
            out.append(name)
    return out


# ----------------------------------------------------------------------------------------------
# widths

PINHOLE_WIDTHS = ["zero", "tiny", "w10", "w50", "w120", "mixed"]


def pinhole_sigma(name, q):
    q = np.asarray(q, float)
    if name == "zero":
        return np.zeros_like(q)
    if name == "tiny":
        return 1e-3 * q
    if name == "w10":
        return 0.1 * q
    if name == "w50":
        return 0.5 * q
    if name == "w120":
        return 1.2 * q
    if name == "mixed":
        s = 0.1 * q
        s[0::2] = 0.0
        return s
    raise ValueError(name)


SLIT_SHAPES = ["zero", "length-only", "width-only", "both-L>W", "both-W>L"]
SLIT_MAGS = ["small", "mid", "big", "eq0"]


def slit_LW(shape, mag, per_point, q):
    """
    (q_length, q_width) realising the named shape.  `mag` sets the larger of the two:
    small = 0.03 q, mid = 0.9 q, big = 10 q, eq0 = exactly q (scalar: exactly q[0]); the other is
    a quarter of it.  scalar values are python floats, per-point values are arrays.
    """
    q = np.asarray(q, float)
    ref = q if per_point else q[0]
    if mag == "small":
        big = 0.03 * ref
    elif mag == "mid":
        big = 0.9 * (q if per_point else q[len(q) // 2])
    elif mag == "big":
        big = 10.0 * (q if per_point else q[-1])
    elif mag == "eq0":
        big = 1.0 * ref
    else:
        raise ValueError(mag)
    small = 0.25 * big
    zero = np.zeros_like(q) if per_point else 0.0
    if not per_point:
        big, small = float(big), float(small)
    if shape == "zero":
        return zero, zero
    if shape == "length-only":
        return big, zero
    if shape == "width-only":
        return zero, big
    if shape == "both-L>W":
        return big, small
    if shape == "both-W>L":
        return small, big
    raise ValueError(shape)


def as_vec(v, n):
    return np.full(n, float(v)) if np.isscalar(v) else np.asarray(v, float)


# ----------------------------------------------------------------------------------------------
# windows (documented support of each data point, as a set of |q| values)

def pinhole_window(qi, si):
    """[lo, hi] of |q'| for q' in [q-2.5s, q+3s]"""
    lo, hi = qi - NSIG_LOW * si, qi + NSIG_HIGH * si
    if lo < 0:
        return 0.0, max(-lo, hi)
    return lo, hi


def slit_window(qi, L, W):
    """[lo, hi] of sqrt((q+v)^2+u^2), |v|<=W, 0<=u<=L"""
    lo = qi - W
    lo = 0.0 if lo < 0 else lo
    hi = math.sqrt((qi + W) ** 2 + L ** 2)
    return lo, hi


def end_steps(qc):
    """
    (low, high) spacing of the distinct calculated |q| values at the two ends of the grid (0 for a one-point
    grid).  A grid that was extended through q = 0 and folded by abs() interleaves the points of its two
    sides, so the low-end spacing is the largest of the first three gaps between values that differ by more
    than 1e-9 relative; the high end is never folded and uses the last gap.
    """
    s = np.unique(np.asarray(qc, float))
    if len(s) < 2:
        return 0.0, 0.0
    d = [s[0]]
    for v in s[1:]:
        if v > d[-1] * (1 + 1e-9):
            d.append(v)
    if len(d) < 2:
        return 0.0, 0.0
    gaps = np.diff(d)
    return float(np.max(gaps[:3])), float(gaps[-1])


# ----------------------------------------------------------------------------------------------
# smooth test intensities with analytic first and second derivatives (C04)

class TestFn(object):
    def __init__(self, name, f, d1, d2):
        self.name, self.f, self.d1, self.d2 = name, f, d1, d2


def test_functions(qref):
    """
    the five smooth 1-D intensities of DESIGN C04, scaled to the reference q so that they vary on the
    scale of the resolution window: 1, a+bq, a+bq^2, Lorentzian^2, damped cosine + 2
    """
    b1 = 0.6 / qref
    b2 = 0.4 / qref ** 2
    xi = 1.3 / qref
    q0 = 1.7 * qref
    k = 2.2 / qref

    def lor(q):
        return 1.0 / (1.0 + (xi * q) ** 2) ** 2

    def lor1(q):
        return -4.0 * xi ** 2 * q / (1.0 + (xi * q) ** 2) ** 3

    def lor2(q):
        d = 1.0 + (xi * q) ** 2
        return -4.0 * xi ** 2 / d ** 3 + 24.0 * xi ** 4 * q ** 2 / d ** 4

    def dc(q):
        return np.exp(-q / q0) * np.cos(k * q) + 2.0

    def dc1(q):
        return np.exp(-q / q0) * (-np.cos(k * q) / q0 - k * np.sin(k * q))

    def dc2(q):
        return np.exp(-q / q0) * (np.cos(k * q) / q0 ** 2 + 2 * k * np.sin(k * q) / q0 - k ** 2 * np.cos(k * q))

    one = lambda q: np.ones_like(np.asarray(q, float))
    zero = lambda q: np.zeros_like(np.asarray(q, float))
    return [
        TestFn("const", one, zero, zero),
        TestFn("linear", lambda q: 1.0 + b1 * q, lambda q: b1 * one(q), zero),
        TestFn("quadratic", lambda q: 0.5 + b2 * q ** 2, lambda q: 2 * b2 * np.asarray(q, float),
               lambda q: 2 * b2 * one(q)),
        TestFn("lorentz2", lor, lor1, lor2),
        TestFn("dampedcos", dc, dc1, dc2),
    ]


def sup_abs(fn, lo, hi, m=2001):
    """max |fn| on [lo, hi] from a dense fixed grid, inflated by 2 % (the functions are smooth)"""
    x = np.linspace(lo, hi, m)
    return 1.02 * float(np.max(np.abs(fn(x))))


# ----------------------------------------------------------------------------------------------
# "inputs are not modified": bit-exact snapshots of everything reachable from an object handed to the library

def snapshot(obj, depth=3, _name="", _out=None, _seen=None):
    """
    {path: fingerprint} of every numpy array / number / string / tuple reachable from `obj` (a numpy array, a dict of
    inputs, or a data object with attributes such as x, dx, dxl, qx_data, dqx_data, mask, source.wavelength,
    sample.zacceptance, detector[...]).  Arrays are fingerprinted by dtype, shape and bytes.
    """
    out = {} if _out is None else _out
    seen = set() if _seen is None else _seen
    if isinstance(obj, np.ndarray):
        out[_name or "array"] = ("ndarray", str(obj.dtype), obj.shape, obj.tobytes())
    elif isinstance(obj, (bool, int, float, complex, str, bytes, type(None), np.generic)):
        out[_name or "value"] = ("value", repr(obj))
    elif isinstance(obj, (list, tuple)):
        for k, v in enumerate(obj):
            snapshot(v, depth, "%s[%d]" % (_name, k), out, seen)
    elif isinstance(obj, dict):
        for k in sorted(obj, key=str):
            snapshot(obj[k], depth, "%s%s" % (_name + "." if _name else "", k), out, seen)
    elif depth > 0 and hasattr(obj, "__dict__") and id(obj) not in seen:
        seen.add(id(obj))
        for k in sorted(vars(obj)):
            if not k.startswith("__"):
                snapshot(getattr(obj, k), depth - 1, "%s%s" % (_name + "." if _name else "", k), out, seen)
    return out


def changed(before, obj):
    """names of the inputs whose content differs from the snapshot taken before (added / removed attributes included)"""
    after = snapshot(obj)
    names = [k for k in before if k not in after or after[k] != before[k]]
    names += [k for k in after if k not in before]
    return sorted(names)


def describe_change(before, obj, name):
    """short 'was -> is' text for one changed input"""
    after = snapshot(obj)
    def show(f):
        if f is None:
            return "absent"
        if f[0] == "ndarray":
            a = np.frombuffer(f[3], dtype=f[1]).reshape(f[2])
            return np.array2string(a.ravel()[:4], precision=6) + ("..." if a.size > 4 else "")
        return f[1]
    return "%s: %s -> %s" % (name, show(before.get(name)), show(after.get(name)))


# ----------------------------------------------------------------------------------------------
# "copy round trip": a resolution object that went through copy.deepcopy / pickle behaves bit-identically

STEP_FRACTIONS = [0.1, 0.17, 0.2, 0.25, 0.3, 0.34, 0.38, 0.4, 0.5, 0.75, 1.0, 1.5]   # sigma / local data step


def copy_round_trips(obj):
    """[(name, copy or None, refusal text or None)] for copy.deepcopy and a pickle round trip.  A refusal (exception
    while copying) is reported as such; what to make of it is the caller's decision."""
    import copy
    import pickle
    out = []
    for name, fn in (("deepcopy", copy.deepcopy), ("pickle", lambda o: pickle.loads(pickle.dumps(o)))):
        try:
            out.append((name, fn(obj), None))
        except Exception as exc:  # noqa
            out.append((name, None, "%s: %s" % (type(exc).__name__, exc)))
    return out

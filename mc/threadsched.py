"""
Controlled scheduler for real Python THREADS (stateless exploration of interleavings).

Every executed source line of the files under test is a scheduling point (sys.settrace 'line' events of the
frames whose code lives in `files`); exactly one thread runs at a time, the controller decides at every point
which thread goes on.  run(prefix) replays a choice prefix (out-of-range choices fail loudly) and takes choice 0
afterwards; choice 0 = the running thread if it is still enabled, otherwise the lowest id.  The points/choices
records have the format of mc.procsched, so procsched.alternatives() / preemptions() give the preemption-bounded
exploration.

Not owned by this scheduler: what happens INSIDE one source line (a line that calls into numpy runs to its end),
C-level data races (the interpreter lock serialises byte codes anyway) and threads the code under test starts itself.
"""
import os
import sys
import threading

from .engine import HarnessError


class Run(object):
    def __init__(self):
        self.points, self.choices, self.trace, self.results = [], [], [], []


def run(bodies, files, prefix=(), step_cap=20000):
    files = {os.path.realpath(f) for f in files}
    n = len(bodies)
    sem = [threading.Semaphore(0) for _ in range(n)]
    ctl = threading.Semaphore(0)
    status = ["waiting"] * n
    at = ["start"] * n
    results = [None] * n
    names = {}

    def park(i, where):
        at[i] = where
        status[i] = "waiting"
        ctl.release()
        sem[i].acquire()
        status[i] = "running"

    def tracer(i):
        def local(frame, event, arg):
            if event == "line":
                park(i, "%s:%d" % (names[frame.f_code.co_filename], frame.f_lineno))
            return local

        def glob(frame, event, arg):
            if event == "call":
                fn = frame.f_code.co_filename
                if fn not in names:
                    names[fn] = os.path.basename(fn) if os.path.realpath(fn) in files else None
                if names[fn]:
                    return local
            return None
        return glob

    def worker(i):
        sem[i].acquire()
        status[i] = "running"
        sys.settrace(tracer(i))
        try:
            results[i] = ("ok", bodies[i]())
        except BaseException as exc:  # noqa
            results[i] = ("raised", repr(exc))
        finally:
            sys.settrace(None)
            status[i] = "done"
            ctl.release()

    threads = [threading.Thread(target=worker, args=(i,), daemon=True) for i in range(n)]
    for t in threads:
        t.start()
    out = Run()
    running = None
    step = 0
    while True:
        enabled = [i for i in range(n) if status[i] == "waiting"]
        if not enabled:
            break
        if running in enabled:
            enabled = [running] + [i for i in enabled if i != running]
        choice = prefix[step] if step < len(prefix) else 0
        if choice >= len(enabled):
            raise HarnessError("thread schedule diverged while replaying %r at step %d: enabled %r"
                               % (list(prefix), step, [(i, at[i]) for i in enabled]))
        out.points.append({"enabled": [[i, at[i]] for i in enabled], "running_enabled": running in enabled})
        out.choices.append(choice)
        p = enabled[choice]
        out.trace.append([p, at[p]])
        status[p] = "granted"
        sem[p].release()
        if not ctl.acquire(timeout=60):
            raise HarnessError("thread %d did not reach its next scheduling point within 60 s (blocked on a lock "
                               "the scheduler does not own?) after %r" % (p, out.trace[-3:]))
        running = p
        step += 1
        if step > step_cap:
            raise HarnessError("more than %d scheduling points in one execution" % step_cap)
    for t in threads:
        t.join(5)
    out.results = results
    return out


def explore(make_bodies, files, bound, judge, cap=None):
    """
    all schedules with <= bound preemptions.  make_bodies() -> fresh list of callables for one execution;
    judge(run) -> list of problems.  Returns (executions, distinct traces, problems, capped).
    """
    from . import procsched
    frontier = [[]]
    n_exec, problems, traces = 0, [], set()
    capped = False
    while frontier:
        pre = frontier.pop()
        r = run(make_bodies(), files, pre)
        n_exec += 1
        traces.add(tuple(map(tuple, r.trace)))
        for pr in judge(r):
            problems.append((pr, list(r.choices), r.trace))
        frontier.extend(procsched.alternatives(r.points, r.choices, len(pre), bound))
        if cap and n_exec >= cap:
            capped = bool(frontier)
            break
        if len(problems) >= 5:
            break
    return n_exec, len(traces), problems, capped

"""Deviation-bounded enumeration: every combination with at most `bound` dimensions off their default."""
import itertools


def deviations(dims, bound):
    """
    dims: list of (name, default, [alternatives]).  Yields (ndev, {name: value}) for EVERY
    assignment in which at most `bound` dimensions take a non-default value, ordered by the
    number of deviations (so the first counter-example is also the smallest).
    """
    names = [d[0] for d in dims]
    base = {d[0]: d[1] for d in dims}
    for k in range(0, min(bound, len(dims)) + 1):
        for subset in itertools.combinations(range(len(dims)), k):
            alts = [dims[i][2] for i in subset]
            if any(len(a) == 0 for a in alts):
                continue
            for combo in itertools.product(*alts):
                case = dict(base)
                for i, v in zip(subset, combo):
                    case[names[i]] = v
                yield k, case


def count_deviations(dims, bound):
    return sum(1 for _ in deviations(dims, bound))

"""
E3 - controlled scheduler over real OS processes.

N real processes (forked from the calling process, which acts as zygote: sasmodels is already imported)
run a body; every file-system-visible step is a scheduling point at which the process blocks until the
controller grants it.  Scheduling points come from

  * Python audit events in the process itself (sys.addaudithook): os.mkdir, tempfile.mkstemp, open for
    writing inside the watched directories, subprocess.Popen, os.remove, os.rename (also os.replace),
    os.link/symlink, fcntl.flock/lockf, ctypes.dlopen;
  * the scripted compiler (mc/scripted_cc.py): "writes first half", "writes second half".

A process and the compiler it spawned form one logical thread (same id).  The controller serialises
everything: exactly one logical thread runs between two points, so an execution is fully described by
the list of choices taken at the points (index into the canonical order "running thread first if still
enabled, then ascending ids").  Processes that die from a signal are reaped with waitpid and are an
outcome, not a harness failure.  A granted thread that does not reach its next point within
`block_timeout` is considered blocked (lock-based code); "nobody enabled, somebody unfinished" = deadlock.
"""
import errno
import json
import os
import select
import signal
import socket
import sys
import time

from .engine import HarnessError


class Phase(object):
    """result of one controlled phase"""

    def __init__(self):
        self.trace = []        # [(id, event)] in grant order
        self.points = []       # per step: {"enabled": [(id, event)...], "running_enabled": bool}
        self.choices = []      # choice taken at each step
        self.status = {}       # id -> ["exit", code] | ["signal", n] | ["killed", n]
        self.results = {}      # id -> payload reported by the body
        self.errors = {}       # id -> exception text reported by the body
        self.deadlock = False
        self.blocked_seen = False
        self.killed_at = None

    def pack(self):
        return {"trace": self.trace, "points": self.points, "choices": self.choices,
                "status": {str(k): v for k, v in self.status.items()},
                "results": {str(k): v for k, v in self.results.items()},
                "errors": {str(k): v for k, v in self.errors.items()},
                "deadlock": self.deadlock, "blocked_seen": self.blocked_seen, "killed_at": self.killed_at}


def _install_hook(point, watch, finals=()):
    state = {"busy": False}
    finals = set(finals)

    def mark(p):
        """'!' marks an operation on a FINAL cache name (as opposed to a temporary one)"""
        p = os.fspath(p)
        if isinstance(p, bytes):
            p = p.decode("utf8", "replace")
        return "!" if os.path.basename(p) in finals else ""

    wflags = os.O_WRONLY | os.O_RDWR | os.O_CREAT | os.O_TRUNC | os.O_APPEND

    def watched(p):
        try:
            p = os.fspath(p)
        except TypeError:
            return False
        if isinstance(p, bytes):
            p = p.decode("utf8", "replace")
        return any(p.startswith(w) for w in watch)

    def ext(p):
        p = os.fspath(p)
        if isinstance(p, bytes):
            p = p.decode("utf8", "replace")
        b = os.path.basename(p)
        return os.path.splitext(b)[1] or "-"

    def hook(event, args):
        if state["busy"]:
            return
        name = None
        try:
            if event == "ctypes.dlopen":
                if args and isinstance(args[0], str) and watched(args[0]):
                    name = "dlopen"
            elif event == "subprocess.Popen":
                name = "Popen"
            elif event == "tempfile.mkstemp":
                name = None     # the creation itself is reported by the "open" event that follows
            elif event == "os.remove":
                if watched(args[0]):
                    name = "remove" + ext(args[0]) + mark(args[0])
            elif event == "os.rename":
                if watched(args[0]) or watched(args[1]):
                    name = "rename" + ext(args[0]) + ">" + ext(args[1]) + mark(args[1])
            elif event in ("os.link", "os.symlink"):
                if watched(args[0]) or watched(args[1]):
                    name = event.split(".")[1]
            elif event == "os.mkdir":
                if watched(args[0]):
                    name = "mkdir"
            elif event == "os.rmdir":
                if watched(args[0]):
                    name = "rmdir"
            elif event == "open":
                path, mode, flags = args[0], args[1], args[2]
                if isinstance(path, (str, bytes)) and watched(path) and isinstance(flags, int) and flags & wflags:
                    name = "open-w" + ext(path) + mark(path)
            elif event in ("fcntl.flock", "fcntl.lockf"):
                name = "lock"
            elif event == "os.truncate":
                name = "truncate"
        except Exception:  # noqa - never let the hook change the behaviour of the code under test
            name = None
        if name:
            state["busy"] = True
            try:
                point(name)
            finally:
                state["busy"] = False

    sys.addaudithook(hook)


def _child(i, sock_path, body, watch, extra_env, finals=()):
    code = 3
    try:
        os.setsid()
        signal.signal(signal.SIGINT, signal.default_int_handler)
        conn = socket.socket(socket.AF_UNIX, socket.SOCK_STREAM)
        conn.connect(sock_path)

        def point(ev):
            conn.sendall(("%d %s\n" % (i, ev)).encode())
            if not conn.recv(1):
                os._exit(98)

        os.environ["VERIF_SCHED_SOCK"] = sock_path
        os.environ["VERIF_PROC_ID"] = str(i)
        os.environ.update(extra_env or {})
        point("start")
        _install_hook(point, watch, finals)
        try:
            payload = body(i)
            conn.sendall(("%d !result %s\n" % (i, json.dumps(payload))).encode())
            code = 0
        except BaseException as exc:  # noqa
            import traceback
            tb = traceback.format_exc()
            conn.sendall(("%d !exc %s\n" % (i, json.dumps("%r\n%s" % (exc, tb[-1200:])))).encode())
            code = 3
    finally:
        try:
            sys.stdout.flush()
            sys.stderr.flush()
        except Exception:  # noqa
            pass
        os._exit(code)


def run_phase(body, nprocs, prefix, exec_dir, watch, kill=None, extra_env=None,
              block_timeout=3.0, deadlock_timeout=6.0, id_base=0, wake_timeout=0.4, finals=()):
    """
    Run `nprocs` controlled processes executing body(i).  `prefix` = choices for the first steps,
    afterwards choice 0.  kill = (victim id, step k): when the controller is about to grant step k
    (global step counter) the victim's process group is SIGKILLed instead (the victim is blocked at a
    point whose action has not happened yet), and the phase continues with the others.
    kill = ("all", k) kills every process group at step k.
    """
    ph = Phase()
    sock_path = os.path.join(exec_dir, "s%d.sock" % id_base)
    if os.path.exists(sock_path):
        os.remove(sock_path)
    srv = socket.socket(socket.AF_UNIX, socket.SOCK_STREAM)
    srv.bind(sock_path)
    srv.listen(128)
    srv.setblocking(False)
    ids = list(range(id_base, id_base + nprocs))
    pids = {}
    sys.stdout.flush()
    sys.stderr.flush()
    for i in ids:
        pid = os.fork()
        if pid == 0:
            srv.close()
            _child(i, sock_path, body, watch, dict(extra_env or {}, VERIF_FINAL_NAMES=",".join(finals)), finals)
        pids[i] = pid
    conns = {}      # fileno -> [sock, buffer]
    waiting = {}    # id -> (sock, event)
    exiting = set() # ids that reported their result: the process exits right after
    cc_pids = {}    # id -> pid of the compiler that logical thread is currently running

    def reap():
        for i, pid in list(pids.items()):
            if i in ph.status:
                continue
            try:
                got, st = os.waitpid(pid, os.WNOHANG)
            except ChildProcessError:
                ph.status[i] = ["lost", 0]
                continue
            if got:
                if os.WIFSIGNALED(st):
                    ph.status[i] = ["signal", os.WTERMSIG(st)]
                else:
                    ph.status[i] = ["exit", os.WEXITSTATUS(st)]

    def handle_line(sock, line):
        try:
            ident, msg = line.split(" ", 1)
            ident = int(ident)
        except ValueError:
            raise HarnessError("garbled scheduler message %r" % line)
        if msg.startswith("!pid "):
            cc_pids[ident] = int(msg[5:])
        elif msg.startswith("!result "):
            ph.results[ident] = json.loads(msg[8:])
            exiting.add(ident)
        elif msg.startswith("!exc "):
            ph.errors[ident] = json.loads(msg[5:])
            exiting.add(ident)
        else:
            waiting[ident] = (sock, msg)

    def pump(timeout):
        rl = [srv] + [c[0] for c in conns.values()]
        try:
            ready, _, _ = select.select(rl, [], [], timeout)
        except InterruptedError:
            ready = []
        for s in ready:
            if s is srv:
                try:
                    c, _ = srv.accept()
                    conns[c.fileno()] = [c, b""]
                except BlockingIOError:
                    pass
                continue
            rec = conns.get(s.fileno())
            if rec is None:
                continue
            try:
                data = s.recv(65536)
            except (ConnectionResetError, OSError):
                data = b""
            if not data:
                del conns[s.fileno()]
                s.close()
                continue
            rec[1] += data
            while b"\n" in rec[1]:
                line, rec[1] = rec[1].split(b"\n", 1)
                handle_line(s, line.decode())
        for i in list(exiting):
            exiting.discard(i)
            if i in pids and i not in ph.status:
                try:
                    got, st = os.waitpid(pids[i], 0)
                    ph.status[i] = (["signal", os.WTERMSIG(st)] if os.WIFSIGNALED(st)
                                    else ["exit", os.WEXITSTATUS(st)])
                except ChildProcessError:
                    ph.status[i] = ["lost", 0]
        reap()

    def settle(which, timeout):
        t0 = time.time()
        while True:
            pump(0.02)
            pending = [i for i in which if i not in waiting and i not in ph.status]
            if not pending:
                # a thread that exited may still have unread result lines
                return []
            if time.time() - t0 > timeout:
                return pending
            # a dead main process whose status we have: done; otherwise keep waiting

    def kill_group(i):
        try:
            os.killpg(pids[i], signal.SIGKILL)
        except OSError:
            pass
        try:
            os.waitpid(pids[i], 0)
        except OSError:
            pass
        ph.status[i] = ["killed", 9]
        if i in waiting:
            s, _ = waiting.pop(i)

    blocked = set(settle(ids, block_timeout + 10))
    if blocked:
        ph.blocked_seen = True
    running = None
    step = 0
    try:
        while True:
            for b in list(blocked):
                if b in waiting or b in ph.status:
                    blocked.discard(b)
            enabled = sorted(waiting)
            if running in waiting:
                enabled = [running] + [i for i in enabled if i != running]
            unfinished = [i for i in ids if i not in ph.status]
            if not enabled:
                if not unfinished:
                    break
                still = settle(unfinished, deadlock_timeout)
                if still and not waiting:
                    ph.deadlock = True
                    break
                continue
            if kill is not None and len(kill) > 2 and kill[2] == "cc" and step == kill[1] and ph.killed_at is None:
                # only the COMPILER of the victim is killed (a crash of the child, not of the loader):
                # the loader goes on and must neither install nor leave a truncated library
                v = kill[0]
                at = waiting[v][1] if v in waiting else None
                ph.killed_at = {"step": step, "victims": [], "compiler_of": v, "at": {str(v): at}}
                if v in waiting and at and at.startswith("cc.") and v in cc_pids:
                    try:
                        os.kill(cc_pids[v], signal.SIGKILL)
                    except OSError:
                        pass
                    waiting.pop(v)
                    late = settle([v], block_timeout)
                    if late:
                        blocked.update(late)
                else:
                    ph.killed_at["not_at_compiler"] = True
                continue
            if kill is not None and len(kill) > 2 and kill[2] == "int" and step == kill[1] and ph.killed_at is None:
                # an INTERRUPT (Ctrl-C: SIGINT to the whole foreground group) instead of a hard kill: the compiler
                # dies, the loader gets KeyboardInterrupt at the operation it is about to perform and UNWINDS through
                # its except/finally clauses - every further operation it performs while unwinding is scheduled as
                # usual.  It may fail; it must not publish a partial library.
                v = kill[0]
                at = waiting[v][1] if v in waiting else None
                ph.killed_at = {"step": step, "victims": [v], "interrupt": True, "at": {str(v): at}}
                if v in waiting and v not in ph.status:
                    waiting.pop(v)
                    try:
                        os.killpg(pids[v], signal.SIGINT)
                    except OSError:
                        pass
                    late = settle([v], block_timeout)
                    if late:
                        blocked.update(late)
                else:
                    ph.killed_at["not_reached"] = True
                continue
            if kill is not None and step == kill[1] and ph.killed_at is None:
                victims = ids if kill[0] == "all" else [kill[0]]
                ph.killed_at = {"step": step, "victims": victims,
                                "at": {str(v): waiting[v][1] if v in waiting else None for v in victims}}
                for v in victims:
                    if v not in ph.status:
                        kill_group(v)
                if running in victims:
                    running = None
                continue
            choice = prefix[step] if step < len(prefix) else 0
            if choice >= len(enabled):
                raise HarnessError("schedule diverged while replaying prefix %r at step %d: enabled=%r"
                                   % (prefix, step, [(i, waiting[i][1]) for i in enabled]))
            ph.points.append({"enabled": [[i, waiting[i][1]] for i in enabled],
                              "running_enabled": running in waiting})
            ph.choices.append(choice)
            p = enabled[choice]
            s, ev = waiting.pop(p)
            ph.trace.append([p, ev])
            try:
                s.sendall(b"g")
            except OSError:
                pass
            running = p
            step += 1
            late = settle([p], block_timeout)
            if late:
                ph.blocked_seen = True
                blocked.update(late)
            if blocked:
                # make waiting visible: a blocked (polling / lock-waiting) thread whose condition this step
                # made true wakes up within its polling interval and runs to its next point; give it that
                # time so that the enabled set after every step is well defined (replayable)
                settle(list(blocked), wake_timeout)
        # drain: results written just before exit
        t0 = time.time()
        while conns and time.time() - t0 < 1.0:
            pump(0.02)
    finally:
        for i in ids:
            if i not in ph.status:
                kill_group(i)
        for c in list(conns.values()):
            try:
                c[0].close()
            except OSError:
                pass
        srv.close()
        try:
            os.remove(sock_path)
        except OSError:
            pass
    return ph


SHARED_PREFIXES = ("start", "mkdir", "rmdir", "rename", "remove.so", "dlopen", "link", "symlink", "lock", "truncate")


def is_shared(event):
    """events on objects other processes can see under their final names (for the reduced exploration)"""
    return event.startswith(SHARED_PREFIXES) or event.endswith("!")


def alternatives(points, choices, prefix_len, bound, shared_only=False):
    """
    new prefixes reachable from one finished execution under the preemption bound.
    shared_only: partial-order reduction - a running thread is only preempted BEFORE an operation on a shared
    object (operations on its private temporary files commute with everything the others do, PROVIDED temporary
    names are invisible to them; the unreduced families do not rely on that assumption).
    """
    out = []
    pre = 0
    for i, (pt, ch) in enumerate(zip(points, choices)):
        if i >= prefix_len:
            cost = pre + (1 if pt["running_enabled"] else 0)
            if shared_only and pt["running_enabled"] and not is_shared(pt["enabled"][0][1]):
                cost = bound + 1
            if cost <= bound:
                for alt in range(1, len(pt["enabled"])):
                    if alt != ch:
                        out.append(list(choices[:i]) + [alt])
            # alternatives with ch != 0 taken by default never happen (default is 0)
        if pt["running_enabled"] and ch != 0:
            pre += 1
    return out


def preemptions(points, choices):
    return sum(1 for pt, ch in zip(points, choices) if pt["running_enabled"] and ch != 0)

"""
The C05/C12/C14 *shim* (DESIGN 2.2): direct access to a model's own C functions.

The model's Iq/Fq/Iqac/Iqabc/form_volume/shell_volume are `static` functions of the translation unit
produced by `generate.make_source(info)['dll']`, so the only way to call them without going through
kernel_iq.c (dispersity loops, rotation, jitter, projection weights, normalisation) is to append a
few exported wrappers to that very unit.  The wrappers contain NO physics and no geometry: they copy
a parameter vector into the generated ParameterTable and expand the *generator's own* call macros
(`CALL_IQ_ABC`, `CALL_IQ_AC`, `CALL_FQ`, `CALL_VOLUME`, `VALID`, `TRANSLATION_VARS`, ...), whose
`#define` lines are copied verbatim out of the generated source (they are #undef'd at the end of
each kernel instantiation).  Directions and weights of any average are supplied by the caller.

    verif_npars()                                   -> NUM_PARS
    verif_mode()                                    -> 3: Iqabc, 2: Iqac, 1: Iq/Fq(|q|), 0: Iqxy (not supported)
    verif_valid(p)                                  -> VALID(table)
    verif_volumes(p, out[2])                        -> form, shell volume (CALL_VOLUME)
    verif_I(qa, qb, qc, p)                          -> particle-frame intensity F^2 (un-normalised)
    verif_Ivec(n, qabc[3n], p, out[n])              -> the same for n points
    verif_Fq(n, q[n], p, F1[n], F2[n])              -> the model's own 1-D Fq (or Iq -> F2, F1 = NaN)
    verif_avg(nq, q[nq], p, nd, dirs[3nd], w[nd], out[2nq])
                                                    -> out[2k] = sum_i w_i I(q_k*d_i), out[2k+1] = sum_i |w_i I|

p is the vector of the NUM_PARS kernel parameters (call_parameters[2:2+npars]: no scale/background,
orientation angles included but ignored by the particle-frame functions).

Compilation uses kerneldll.compile_model, i.e. exactly the command kerneldll uses for the model
libraries, and writes into a directory owned by the run (ctx.scratch).  build_all() compiles one
shim per process, shims disjoint, before the worker pool forks.
"""
import copy
import ctypes as ct
import functools
import os
import re

import numpy as np

from .engine import HarnessError, pool_map

_CALL_RE = re.compile(r"^#define (CALL_(?:IQ_ABC|IQ_AC|IQ_A|FQ_A|IQ_XY|FQ|IQ))\(", re.M)

_WRAPPER = r'''
/* ===================== verif shim: wrappers only, no physics ===================== */
%(defines)s

#define VERIF_LOAD(_lv, _p) ParameterBlock _lv; \
    for (int _i=0; _i < NUM_PARS; _i++) _lv.vector[_i] = _p[_i];

#if defined(CALL_IQ_ABC)
  #define VERIF_MODE 3
  #define VERIF_CALL(_qa,_qb,_qc,_t) CALL_IQ_ABC(_qa,_qb,_qc,_t)
#elif defined(CALL_IQ_AC)
  #define VERIF_MODE 2
  /* documented calling convention of symmetric shapes: Iqac(qab, qc) with qab = |(qa,qb)| */
  #define VERIF_CALL(_qa,_qb,_qc,_t) CALL_IQ_AC(sqrt((_qa)*(_qa)+(_qb)*(_qb)),_qc,_t)
#elif defined(CALL_FQ_A)
  #define VERIF_MODE 1
  #define VERIF_CALL(_qa,_qb,_qc,_t) CALL_FQ_A(sqrt((_qa)*(_qa)+(_qb)*(_qb)+(_qc)*(_qc)),_vF1,_vF2,_t)
#elif defined(CALL_IQ_A)
  #define VERIF_MODE 1
  #define VERIF_CALL(_qa,_qb,_qc,_t) CALL_IQ_A(sqrt((_qa)*(_qa)+(_qb)*(_qb)+(_qc)*(_qc)),_t)
#else
  #define VERIF_MODE 0
  #define VERIF_CALL(_qa,_qb,_qc,_t) (0.0/0.0)
#endif

kernel int verif_npars(void) { return NUM_PARS; }
kernel int verif_mode(void) { return VERIF_MODE; }

kernel int verif_valid(const double *p)
{
    VERIF_LOAD(lv, p)
    TRANSLATION_VARS(lv.table);
    return (VALID(lv.table)) ? 1 : 0;
}

kernel void verif_volumes(const double *p, double *out)
{
    VERIF_LOAD(lv, p)
    TRANSLATION_VARS(lv.table);
    double form, shell;
    CALL_VOLUME(form, shell, lv.table);
    out[0] = form; out[1] = shell;
}

kernel double verif_I(double qa, double qb, double qc, const double *p)
{
    VERIF_LOAD(lv, p)
    TRANSLATION_VARS(lv.table);
    double _vF1=0.0, _vF2=0.0; (void)_vF1; (void)_vF2;
    return VERIF_CALL(qa, qb, qc, lv.table);
}

kernel void verif_Ivec(int n, const double *qabc, const double *p, double *out)
{
    VERIF_LOAD(lv, p)
    TRANSLATION_VARS(lv.table);
    double _vF1=0.0, _vF2=0.0; (void)_vF1; (void)_vF2;
    for (int i=0; i < n; i++) {
        out[i] = VERIF_CALL(qabc[3*i], qabc[3*i+1], qabc[3*i+2], lv.table);
    }
}

kernel void verif_Fq(int n, const double *q, const double *p, double *F1, double *F2)
{
    VERIF_LOAD(lv, p)
    TRANSLATION_VARS(lv.table);
    for (int i=0; i < n; i++) {
#if defined(CALL_FQ)
        double f1 = 0.0, f2 = 0.0;
        CALL_FQ(q[i], f1, f2, lv.table);
        F1[i] = f1; F2[i] = f2;
#else
        F1[i] = 0.0/0.0;
        F2[i] = CALL_IQ(q[i], lv.table);
#endif
    }
}

kernel void verif_avg(int nq, const double *q, const double *p,
                      int nd, const double *dirs, const double *w, double *out)
{
    VERIF_LOAD(lv, p)
    TRANSLATION_VARS(lv.table);
    double _vF1=0.0, _vF2=0.0; (void)_vF1; (void)_vF2;
    for (int k=0; k < nq; k++) {
        const double qk = q[k];
        double sum = 0.0, mag = 0.0;
        for (int i=0; i < nd; i++) {
            const double v = w[i] * VERIF_CALL(qk*dirs[3*i], qk*dirs[3*i+1], qk*dirs[3*i+2], lv.table);
            sum += v;
            mag += fabs(v);
        }
        out[2*k] = sum; out[2*k+1] = mag;
    }
}
'''


def alt_info(info, ngauss=None):
    """a private copy of the model info, optionally with the Gauss-Legendre table size switched"""
    from sasmodels import generate
    if ngauss is None:
        return info
    path = os.path.join(generate.MODEL_PATH, "lib", "gauss%d.c" % ngauss)
    if not os.path.exists(path):
        # set_integration_size would generate the table INTO the repository: never do that
        raise HarnessError("no lib/gauss%d.c in the repository under test" % ngauss)
    info2 = copy.copy(info)
    info2.source = list(info.source)
    generate.set_integration_size(info2, ngauss)
    return info2


def gauss_size(info):
    """size of the Gauss-Legendre table the model's own 1-D integration uses (None: it uses none)"""
    for lib in info.source or []:
        m = re.match(r"lib/gauss(\d+)\.c$", lib)
        if m:
            return int(m.group(1))
    return None


def shim_source(info):
    """generated translation unit + wrappers"""
    from sasmodels import generate
    source = generate.make_source(info)["dll"]
    defines, seen = [], set()
    for m in _CALL_RE.finditer(source):
        if m.group(1) in seen:
            continue
        seen.add(m.group(1))
        end = source.index("\n", m.start())
        defines.append(source[m.start():end])
        # HAVE_THETA/HAVE_PSI lines that follow CALL_IQ_XY are not needed here
    if not ({"CALL_FQ", "CALL_IQ"} & seen):
        raise HarnessError("no 1-D call macro found in the generated source of %s" % info.id)
    source = generate.convert_type(source, generate.F64)
    return source + _WRAPPER % {"defines": "\n".join(defines)}


def shim_path(outdir, name, ngauss=None):
    return os.path.join(outdir, "verif_shim_%s%s.so" % (name, "" if ngauss is None else "_g%d" % ngauss))


def build_one(arg):
    """compile one shim; arg = (model name, outdir, ngauss or None).  Returns the library path."""
    name, outdir, ngauss = arg
    from sasmodels import core, kerneldll
    info = alt_info(core.load_model_info(name), ngauss)
    out = shim_path(outdir, name, ngauss)
    if os.path.exists(out):
        return out
    csrc = out[:-3] + ".c"
    with open(csrc, "w") as fh:
        fh.write(shim_source(info))
    tmp = out + ".tmp%d" % os.getpid()
    kerneldll.compile_model(source=csrc, output=tmp)
    os.replace(tmp, out)       # a loader never sees a partially written library
    os.unlink(csrc)
    return out


def build_all(ctx, items):
    """
    items: list of (model name, ngauss or None).  One process per shim, shims disjoint, run before the
    worker pool forks.  Returns {(name, ngauss): path}; raises HarnessError if one does not build.
    """
    outdir = os.path.join(ctx.scratch, "shim")
    os.makedirs(outdir, exist_ok=True)
    items = sorted(set(items), key=lambda t: (t[0], t[1] or 0))
    res = pool_map(ctx, build_one, [(n, outdir, g) for n, g in items], timeout=300)
    out = {}
    for (n, g), (status, payload) in zip(items, res):
        if status != "done":
            raise HarnessError("shim for %s (gauss %r) failed to build: %s" % (n, g, str(payload)[-1500:]))
        out[(n, g)] = payload
    return out


_dp = ct.POINTER(ct.c_double)


def _ptr(a):
    return a.ctypes.data_as(_dp)


class Shim(object):
    """ctypes handle on one compiled shim"""

    def __init__(self, path, info):
        self.path, self.info = path, info
        lib = self.lib = ct.CDLL(path)
        lib.verif_npars.restype = ct.c_int
        lib.verif_mode.restype = ct.c_int
        lib.verif_valid.restype = ct.c_int
        lib.verif_valid.argtypes = [_dp]
        lib.verif_volumes.restype = None
        lib.verif_volumes.argtypes = [_dp, _dp]
        lib.verif_I.restype = ct.c_double
        lib.verif_I.argtypes = [ct.c_double, ct.c_double, ct.c_double, _dp]
        lib.verif_Ivec.restype = None
        lib.verif_Ivec.argtypes = [ct.c_int, _dp, _dp, _dp]
        lib.verif_Fq.restype = None
        lib.verif_Fq.argtypes = [ct.c_int, _dp, _dp, _dp, _dp]
        lib.verif_avg.restype = None
        lib.verif_avg.argtypes = [ct.c_int, _dp, _dp, ct.c_int, _dp, _dp, _dp]
        P = info.parameters
        self.names = [p.id for p in P.call_parameters[2:2 + P.npars]]
        self.defaults = [p.default for p in P.call_parameters[2:2 + P.npars]]
        if lib.verif_npars() != len(self.names):
            raise HarnessError("shim %s: NUM_PARS=%d but %d kernel parameters"
                               % (path, lib.verif_npars(), len(self.names)))
        self.mode = lib.verif_mode()

    def pvec(self, pars):
        """parameter vector in ParameterTable order; missing names take the model default"""
        return np.array([float(pars.get(n, d)) for n, d in zip(self.names, self.defaults)], dtype=np.float64)

    def valid(self, p):
        return bool(self.lib.verif_valid(_ptr(p)))

    def volumes(self, p):
        out = np.zeros(2)
        self.lib.verif_volumes(_ptr(p), _ptr(out))
        return float(out[0]), float(out[1])

    def I(self, qa, qb, qc, p):
        return float(self.lib.verif_I(qa, qb, qc, _ptr(p)))

    def Ivec(self, qabc, p):
        qabc = np.ascontiguousarray(qabc, dtype=np.float64).reshape(-1, 3)
        out = np.empty(len(qabc))
        self.lib.verif_Ivec(len(qabc), _ptr(qabc), _ptr(p), _ptr(out))
        return out

    def Fq(self, q, p):
        q = np.ascontiguousarray(q, dtype=np.float64)
        F1, F2 = np.empty(len(q)), np.empty(len(q))
        self.lib.verif_Fq(len(q), _ptr(q), _ptr(p), _ptr(F1), _ptr(F2))
        return F1, F2

    def avg(self, q, p, dirs, w):
        """(sum_i w_i I(q*d_i), sum_i |w_i I(q*d_i)|) for every q"""
        q = np.ascontiguousarray(q, dtype=np.float64)
        dirs = np.ascontiguousarray(dirs, dtype=np.float64).reshape(-1, 3)
        w = np.ascontiguousarray(w, dtype=np.float64)
        if len(w) != len(dirs):
            raise HarnessError("directions/weights mismatch")
        out = np.empty(2 * len(q))
        self.lib.verif_avg(len(q), _ptr(q), _ptr(p), len(w), _ptr(dirs), _ptr(w), _ptr(out))
        return out[0::2].copy(), out[1::2].copy()


@functools.lru_cache(maxsize=None)
def load(path, name):
    """load (cached per process) a shim built by build_all"""
    from sasmodels import core
    return Shim(path, core.load_model_info(name))

"""
A pristine "zygote" process: forked from the check's parent in setup() (sasmodels imported, nothing
evaluated), it serves requests over a unix socket by forking a child per request.  Every child therefore
starts from the same never-used interpreter state, whatever the calling pool worker has done before.

    zygote.start(ctx, "name", preload=callable)        # in setup(), parent process
    zygote.call(ctx, "name", "mc.props.c19:_hist_one", arg)   # anywhere (pool workers)
    -> the JSON-able return value of the function run in a fresh child, or raises HarnessError
"""
import atexit
import importlib
import json
import os
import signal
import socket
import sys
import traceback

from .engine import HarnessError


def _serve(path, preload):
    try:
        if preload:
            preload()
        srv = socket.socket(socket.AF_UNIX, socket.SOCK_STREAM)
        srv.bind(path)
        srv.listen(64)
        signal.signal(signal.SIGCHLD, signal.SIG_IGN)     # children are reaped automatically
        while True:
            conn, _ = srv.accept()
            pid = os.fork()
            if pid == 0:
                srv.close()
                signal.signal(signal.SIGCHLD, signal.SIG_DFL)
                out = {}
                try:
                    buf = b""
                    while not buf.endswith(b"\n"):
                        chunk = conn.recv(1 << 20)
                        if not chunk:
                            break
                        buf += chunk
                    req = json.loads(buf.decode())
                    modname, fname = req["fn"].split(":")
                    fn = getattr(importlib.import_module(modname), fname)
                    out = {"ok": fn(req["arg"])}
                except BaseException:  # noqa
                    out = {"error": traceback.format_exc()[-2000:]}
                try:
                    conn.sendall((json.dumps(out) + "\n").encode())
                finally:
                    conn.close()
                    os._exit(0)
            conn.close()
    finally:
        os._exit(0)


def start(ctx, name, preload=None):
    path = os.path.join(ctx.scratch, "zygote-%s.sock" % name)
    sys.stdout.flush()
    sys.stderr.flush()
    pid = os.fork()
    if pid == 0:
        _serve(path, preload)
    ctx.notes["zygote:" + name] = (path, pid)

    def stop(pid=pid, owner=os.getpid()):
        if os.getpid() == owner:
            try:
                os.kill(pid, signal.SIGKILL)
                os.waitpid(pid, 0)
            except OSError:
                pass
    atexit.register(stop)
    import time
    for _ in range(600):
        if os.path.exists(path):
            return
        time.sleep(0.01)
    raise HarnessError("zygote %s did not start" % name)


def call(ctx, name, fn, arg, timeout=300):
    path, _ = ctx.notes["zygote:" + name]
    s = socket.socket(socket.AF_UNIX, socket.SOCK_STREAM)
    s.settimeout(timeout)
    s.connect(path)
    s.sendall((json.dumps({"fn": fn, "arg": arg}) + "\n").encode())
    buf = b""
    try:
        while not buf.endswith(b"\n"):
            chunk = s.recv(1 << 20)
            if not chunk:
                break
            buf += chunk
    finally:
        s.close()
    if not buf:
        return {"died": True}
    out = json.loads(buf.decode())
    if "error" in out:
        return {"raised": out["error"]}
    return {"value": out["ok"]}

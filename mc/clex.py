"""
A small C lexer for C15 (translation phases 2 and 3 only: line splicing, then preprocessing tokens).

    lex(text) -> [Tok(kind, text, directive, pos)]        pos = offset in the line-spliced text

kinds
    ppnum    preprocessing number  .?digit (digit | letter | _ | . | [eEpP][+-])*      (C11 6.4.8)
    ident    identifier
    string   string literal incl. encoding prefix, one opaque token; also the "file" of #include "file"
    header   <file> after #include
    char     character constant
    punct    punctuator (longest match)

Comments and white space are not tokens and are dropped.  `directive` is None for ordinary text and the
directive name ('include', 'define', 'line', '' for a null directive ...) for every token on a preprocessor
directive line, the leading '#' and the name included.

The lexer is deliberately independent of sasmodels.generate (it shares no regular expression with it).
"""
import collections
import re

Tok = collections.namedtuple("Tok", "kind text directive pos")


class LexError(ValueError):
    pass


_PUNCT = ["%:%:", "...", "<<=", ">>=", "->", "++", "--", "<<", ">>", "<=", ">=", "==", "!=", "&&", "||",
          "*=", "/=", "%=", "+=", "-=", "&=", "^=", "|=", "##", "<:", ":>", "<%", "%>", "%:",
          "[", "]", "(", ")", "{", "}", ".", "&", "*", "+", "-", "~", "!", "/", "%", "<", ">", "^", "|",
          "?", ":", ";", "=", ",", "#", "@", "$", "`", "\\"]
_TOKEN = re.compile(r"""
    (?P<ws>[ \t\f\v\r]+)
  | (?P<nl>\n)
  | (?P<comment>/\*.*?\*/|//[^\n]*)
  | (?P<badcomment>/\*)
  | (?P<string>(?:u8|[uUL])?"(?:\\.|[^"\\\n])*")
  | (?P<char>[uUL]?'(?:\\.|[^'\\\n])+')
  | (?P<ppnum>\.?[0-9](?:[eEpP][+-]|[0-9A-Za-z_.])*)
  | (?P<ident>[A-Za-z_][A-Za-z0-9_]*)
  | (?P<punct>%s)
""" % "|".join(re.escape(p) for p in _PUNCT), re.VERBOSE | re.DOTALL)
_HEADER = re.compile(r"<[^>\n]*>")


def lex(text):
    """tokenise `text`; raises LexError on an unterminated comment / literal or a stray character"""
    text = text.replace("\\\n", "")          # phase 2: splice continued lines
    out = []
    pos, n = 0, len(text)
    at_line_start = True       # only white space / comments since the last newline
    directive = None           # name of the directive of the current line
    expect_name = False        # '#' seen, directive name not yet
    expect_header = False      # '#include' seen, file not yet
    while pos < n:
        if expect_header and text[pos] == "<":
            m = _HEADER.match(text, pos)
            if not m:
                raise LexError("unterminated header name at %d" % pos)
            out.append(Tok("header", m.group(), directive, m.start()))
            pos = m.end()
            expect_header = False
            continue
        m = _TOKEN.match(text, pos)
        if not m:
            raise LexError("stray character %r at %d" % (text[pos], pos))
        kind = m.lastgroup
        pos = m.end()
        if kind == "ws" or kind == "comment":
            continue
        if kind == "badcomment":
            raise LexError("unterminated comment")
        if kind == "nl":
            at_line_start, directive, expect_name, expect_header = True, None, False, False
            continue
        tok = m.group()
        if at_line_start and kind == "punct" and tok in ("#", "%:"):
            directive, expect_name = "", True
            out.append(Tok(kind, tok, directive, m.start()))
            at_line_start = False
            continue
        at_line_start = False
        if expect_name:
            expect_name = False
            if kind == "ident":
                directive = tok
                # re-tag the '#'
                out[-1] = Tok(out[-1].kind, out[-1].text, directive, out[-1].pos)
                expect_header = tok in ("include", "include_next", "import")
                out.append(Tok(kind, tok, directive, m.start()))
                continue
        elif expect_header and kind not in ("string",):
            expect_header = False      # computed include: ordinary tokens
        if kind == "string":
            expect_header = False
        out.append(Tok(kind, tok, directive, m.start()))
    return out


def texts(tokens):
    return [t.text for t in tokens]


_DEC_FLOAT = re.compile(r"(?:[0-9]+\.[0-9]*|\.[0-9]+)(?:[eE][+-]?[0-9]+)?|[0-9]+[eE][+-]?[0-9]+")
_HEX_FLOAT = re.compile(r"0[xX](?:[0-9a-fA-F]+\.?[0-9a-fA-F]*|\.[0-9a-fA-F]+)[pP][+-]?[0-9]+")
_DEC_INT = re.compile(r"0|[1-9][0-9]*")


def is_decimal_float(text):
    """an unsuffixed decimal floating constant (C11 6.4.4.2)"""
    return _DEC_FLOAT.fullmatch(text) is not None


def is_hex_float(text):
    """an unsuffixed hexadecimal floating constant"""
    return _HEX_FLOAT.fullmatch(text) is not None


def is_decimal_int(text):
    """an unsuffixed decimal integer constant (or 0)"""
    return _DEC_INT.fullmatch(text) is not None

"""
Boring numpy reference models.

The dispersity reference re-computes  scale * sum(w F^2) / sum(w V_shell) + background  from
*single-point, monodisperse* evaluations of the same compiled library; it shares no code with
make_details (loop layout), the PD_* loop macros, the chunked invocation or Kernel.Fq's normalisation.
"""
import itertools

import numpy as np


def split_pars(pars):
    """separate the plain values from the *_pd* keys of a parameter dict"""
    base, pd = {}, {}
    for k, v in pars.items():
        if "_pd" in k:
            pd[k] = v
        else:
            base[k] = v
    return base, pd


def raw_point(kernel, pars, mode=0, magnetic_ok=True):
    """
    One monodisperse evaluation at exactly `pars`.  Returns dict with the un-normalised accumulators
    of the kernel: w (total weight: 1 if the model declares the point valid, 0 otherwise),
    F2[nq], F1[nq] or None, form, shell, reff.
    """
    from sasmodels.direct_model import get_mesh
    from sasmodels.details import make_kernel_args
    mesh = get_mesh(kernel.info, pars, dim=kernel.dim, mono=True)
    call_details, values, is_magnetic = make_kernel_args(kernel, mesh)
    kernel._call_kernel(call_details, values, 0.0, is_magnetic, mode)
    res = np.array(kernel.result, dtype=float)
    nq = kernel.q_input.nq
    nout = 2 if (kernel.info.have_Fq and kernel.dim == "1d") else 1
    out = {
        "w": res[nout * nq + 0], "form": res[nout * nq + 1], "shell": res[nout * nq + 2],
        "reff": res[nout * nq + 3],
        "F2": res[0:nout * nq:nout].copy(),
        "F1": res[1:nout * nq:nout].copy() if nout == 2 else None,
    }
    return out


def par_dist(par, dtype, npts, width, nsigmas, value):
    """(values, weights) of one parameter's distribution: relative width for sizes, absolute about 0 for angles"""
    from sasmodels import weights
    relative = par.type != "orientation"
    if npts == 0 or width == 0:
        return np.array([value if relative else 0.0]), np.array([1.0])
    x, w = weights.get_weights(dtype, npts, width, nsigmas, value, par.limits, relative)
    return np.asarray(x, float), np.asarray(w, float)


def py_valid(info, point):
    """the model's `valid` clause evaluated in Python (None if the model has none) - independent of the kernel"""
    expr = getattr(info, "valid", None)
    if not expr:
        return None
    pyexpr = expr.replace("&&", " and ").replace("||", " or ")
    import re
    pyexpr = re.sub(r"!(?!=)", " not ", pyexpr)
    env = {k: v for k, v in point.items() if isinstance(v, (int, float))}
    for p in info.parameters.call_parameters:
        env.setdefault(p.name, p.default)
    return bool(eval(pyexpr, {"__builtins__": {}}, env))  # noqa - expression comes from the model definition


def weighted_mean(kernel, base, disp, cutoff=0.0, mode=0, point_hook=None):
    """
    base : monodisperse parameter values (scale/background may be present)
    disp : {parameter name: (values, weights)}  - the mesh is their Cartesian product
    Returns the reference I(q) and the averaged amplitude outputs, plus bookkeeping counters.
    """
    scale = float(base.get("scale", 1.0))
    background = float(base.get("background", 0.0))
    names = list(disp)
    grids = [list(zip(np.asarray(disp[n][0], float), np.asarray(disp[n][1], float))) for n in names]
    nq = kernel.q_input.nq
    sF2 = np.zeros(nq)
    sF1 = np.zeros(nq)
    aF2 = np.zeros(nq)
    have_F1 = False
    sw = sform = sshell = sreff = 0.0
    npoints = nqual = ncut = ninvalid = nverdict = 0
    point = dict(base)
    point["scale"], point["background"] = 1.0, 0.0
    for combo in itertools.product(*grids):
        npoints += 1
        w = 1.0
        for n, (v, wi) in zip(names, combo):
            point[n] = float(v)
            w *= wi
        if not (w > cutoff):
            ncut += 1
            continue
        p = raw_point(kernel, point, mode)
        if point_hook is not None:
            point_hook(point, p)
        verdict = py_valid(kernel.info, point)
        if verdict is not None and verdict != (p["w"] != 0.0):
            nverdict += 1
        if (verdict is False) or (verdict is None and p["w"] == 0.0):
            ninvalid += 1
            continue
        nqual += 1
        sw += w
        sF2 += w * p["F2"]
        aF2 += abs(w) * np.abs(p["F2"])
        if p["F1"] is not None:
            have_F1 = True
            sF1 += w * p["F1"]
        sform += w * p["form"]
        sshell += w * p["shell"]
        sreff += w * p["reff"]
    out = {"npoints": npoints, "nqual": nqual, "ncut": ncut, "ninvalid": ninvalid, "sw": sw,
           "verdict_mismatch": nverdict}
    if nqual == 0 or sw == 0:
        out.update(I=np.full(nq, background), F2=np.zeros(nq), F1=np.zeros(nq) if have_F1 else None,
                   reff=0.0, vshell=1.0, vratio=None, vform=0.0, mag=np.zeros(nq))
        return out
    vshell = sshell / sw
    vform = sform / sw
    vs = vshell if vshell != 0 else 1.0
    out.update(I=scale * (sF2 / sw) / vs + background, F2=sF2 / sw,
               F1=(sF1 / sw) if have_F1 else None, reff=sreff / sw, vshell=vs, vform=vform,
               vratio=vform / vs, mag=np.abs(scale) * (aF2 / sw) / abs(vs) + abs(background))
    return out


def close(impl, ref, mag=None, rtol=1e-11, atol=0.0):
    """|impl-ref| <= rtol*magnitude + atol, NaN == NaN; returns (ok, worst relative error)"""
    impl = np.asarray(impl, float)
    ref = np.asarray(ref, float)
    if impl.shape != ref.shape:
        return False, np.inf
    mag = np.abs(ref) if mag is None else np.maximum(np.abs(mag), np.abs(ref))
    both_nan = np.isnan(impl) & np.isnan(ref)
    err = np.abs(impl - ref)
    err = np.where(both_nan, 0.0, err)
    bound = rtol * mag + atol + 1e-300
    bad = ~(err <= bound)
    bad &= ~both_nan
    # equal infinities
    bad &= ~((impl == ref))
    with np.errstate(all="ignore"):
        rel = np.where(mag > 0, err / np.where(mag > 0, mag, 1), err)
        rel = np.where(np.isfinite(rel), rel, 0.0 if not bad.any() else np.inf)
    return (not bad.any()), float(np.nanmax(rel)) if rel.size else 0.0

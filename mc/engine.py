"""
Exploration engine shared by all property modules.

* Context      - tier/seed/jobs, private scratch + SAS_DLL_PATH (set before sasmodels is imported)
* R            - per-case result accumulator (a case may be a block of many elementary evaluations)
* Report       - aggregate over the whole enumerated space
* pool_map     - fork-based worker pool; survives workers that die from a signal or hang
* run / replay - drive a property module
"""
from __future__ import annotations

import collections
import hashlib
import json
import os
import pickle
import shutil
import signal
import sys
import tempfile
import time
import traceback


class HarnessError(Exception):
    """Something is wrong with the checking machinery itself (never a verdict on the code)."""


def canon(obj):
    return json.dumps(obj, sort_keys=True, default=str, separators=(",", ":"))


def case_id(case):
    return hashlib.sha1(canon(case).encode()).hexdigest()[:12]


class Context(object):
    def __init__(self, pid, tier, seed, jobs=None, verbose=False, only=None):
        self.pid, self.tier, self.seed = pid, tier, seed
        self.quick = tier == "quick"
        self.jobs = jobs or min(16, os.cpu_count() or 1)
        self.verbose = verbose
        self.only = only
        self.mod = None
        self.repo = os.environ.get("VERIF_REPO", "/repo")
        self.scratch = tempfile.mkdtemp(prefix="verif-%s-" % pid.lower())
        self.dll_path = os.path.join(self.scratch, "dll")
        os.makedirs(self.dll_path)
        # everything the code under test (or a killed builder) leaves in the temporary directory goes
        # away with the scratch directory
        tmp = os.path.join(self.scratch, "tmp")
        os.makedirs(tmp)
        os.environ["TMPDIR"] = tmp
        tempfile.tempdir = tmp
        # must happen before sasmodels.kerneldll is imported anywhere in this process
        if "sasmodels.kerneldll" in sys.modules:
            raise HarnessError("sasmodels.kerneldll imported before the private SAS_DLL_PATH was set")
        os.environ["SAS_DLL_PATH"] = self.dll_path
        os.environ.setdefault("SAS_OPENCL", "none")
        self._owner = os.getpid()
        self.notes = {}

    # deterministic rotation of representatives: never selects WHICH cases run
    def rot(self, seq, k=0):
        seq = list(seq)
        return seq[(self.seed + k) % len(seq)]

    def factor(self, k=0):
        """a 'non-default value' multiplier from a fixed table of eight, rotated by the seed"""
        table = (0.5, 0.37, 1.9, 0.71, 1.37, 0.83, 2.3, 0.59)
        return table[(self.seed + k) % len(table)]

    def log(self, *a):
        if self.verbose:
            print(*a, file=sys.stderr)
            sys.stderr.flush()

    def cleanup(self):
        if os.getpid() == self._owner:
            shutil.rmtree(self.scratch, ignore_errors=True)


class R(object):
    """Result of executing one case (possibly a block of elementary evaluations)."""

    def __init__(self):
        self.evals = 0
        self.nt = 0
        self.trans = 0
        self.inconclusive = 0
        self.outcomes = set()
        self.branches = collections.Counter()
        self.fails = []
        self.samples = []
        self.extra = collections.Counter()

    def ok(self, nt=False, outcome=None, trans=1, branches=(), n=1):
        self.evals += n
        self.nt += (n if nt else 0) if isinstance(nt, bool) else int(nt)
        self.trans += trans
        if outcome is not None:
            self.outcomes.add(str(outcome)[:80])
        for b in branches:
            self.branches[b] += 1
        return self

    def inconc(self, why="", trans=1, n=1):
        self.evals += n
        self.inconclusive += n
        self.trans += trans
        self.branches["inconclusive:" + why] += n
        return self

    def fail(self, detail, fkey=None, sub=None, nt=True, trans=1, branches=(), count_eval=True):
        if count_eval:
            self.evals += 1
            self.nt += 1 if nt else 0
            self.trans += trans
        self.outcomes.add("FAIL")
        for b in branches:
            self.branches[b] += 1
        self.fails.append({"detail": str(detail), "fkey": fkey or {}, "sub": sub})
        return self

    def branch(self, name, n=1):
        self.branches[name] += n

    def sample(self, obj):
        if len(self.samples) < 2:
            self.samples.append(obj)

    def pack(self):
        return {"evals": self.evals, "nt": self.nt, "trans": self.trans,
                "inconclusive": self.inconclusive, "outcomes": sorted(self.outcomes)[:200],
                "branches": dict(self.branches), "fails": self.fails[:50],
                "nfails": len(self.fails), "samples": self.samples, "extra": dict(self.extra)}


class Report(object):
    def __init__(self):
        self.evals = 0
        self.nt = 0
        self.trans = 0
        self.states = 0
        self.inconclusive = 0
        self.outcomes = set()
        self.branches = collections.Counter()
        self.extra = collections.Counter()
        self.fails = []
        self.samples = []
        self.nt_samples = []
        self.vacuous = []
        self.coverage = {}
        self.exhaustive = True
        self.caps = []

    def add(self, case, cid, packed):
        self.evals += packed["evals"]
        self.nt += packed["nt"]
        self.trans += packed["trans"]
        self.inconclusive += packed["inconclusive"]
        self.outcomes.update(packed["outcomes"])
        self.branches.update(packed["branches"])
        self.extra.update(packed.get("extra", {}))
        for f in packed["fails"]:
            g = dict(f)
            g["case"] = dict(case, _sub=f["sub"]) if f.get("sub") is not None else case
            g["cid"] = cid
            self.fails.append(g)
        for s in packed["samples"]:
            if len(self.samples) < 3:
                self.samples.append(s)
        if len(self.samples) < 3 and not packed["samples"]:
            self.samples.append({"case": case})
        if packed["nt"] and len(self.nt_samples) < 3:
            self.nt_samples.append({"case": case, "outcomes": packed["outcomes"][:3]})

    def require(self, branch, minimum=1, what=None):
        """vacuity guard: a branch counter that stays below `minimum` makes the run exit 2"""
        if self.branches.get(branch, 0) < minimum:
            self.vacuous.append("%s: branch %r hit %d times (< %d)"
                                % (what or "guard", branch, self.branches.get(branch, 0), minimum))


# ----------------------------------------------------------------------------------------------
# worker pool

def _child(fn, items, idxs, path, timeout):
    signal.signal(signal.SIGINT, signal.SIG_DFL)
    out = open(path, "ab")

    def on_alarm(signum, frame):
        raise TimeoutError("case exceeded %ds" % timeout)
    if timeout:
        signal.signal(signal.SIGALRM, on_alarm)
    for i in idxs:
        pickle.dump(("start", i, None), out)
        out.flush()
        try:
            if timeout:
                signal.alarm(timeout)
            res = ("done", i, fn(items[i]))
        except HarnessError:
            res = ("harness", i, traceback.format_exc())
        except BaseException:  # noqa - an exception escaping run_case is a verdict on the code
            res = ("exc", i, traceback.format_exc())
        finally:
            if timeout:
                signal.alarm(0)
        pickle.dump(res, out)
        out.flush()
    out.close()
    sys.stdout.flush()
    sys.stderr.flush()
    os._exit(0)


def _read(path):
    recs = []
    try:
        with open(path, "rb") as fh:
            while True:
                try:
                    recs.append(pickle.load(fh))
                except EOFError:
                    break
                except Exception:
                    break
    except FileNotFoundError:
        pass
    return recs


def pool_map(ctx, fn, items, timeout=120, jobs=None, hang_factor=3):
    """
    Run fn(items[i]) for every i in forked workers.  Returns a list, aligned with items, of
    (status, payload) with status in {"done", "exc", "harness", "crash", "hang"}.
    A worker that dies from a signal (e.g. SIGBUS in dlopen, SIGSEGV in a kernel) or stops making
    progress is replaced; the case it was executing gets status "crash"/"hang".
    """
    n = len(items)
    if n == 0:
        return []
    jobs = max(1, min(jobs or ctx.jobs, n))
    results = [None] * n
    slices = [list(range(w, n, jobs)) for w in range(jobs)]
    workers = {}  # pid -> (w, path, idxs, t_last, size_last)
    gen = [0]

    def spawn(w, idxs):
        if not idxs:
            return
        gen[0] += 1
        path = os.path.join(ctx.scratch, "pool-%d-%d.pkl" % (w, gen[0]))
        sys.stdout.flush()
        sys.stderr.flush()
        pid = os.fork()
        if pid == 0:
            try:
                _child(fn, items, idxs, path, timeout)
            finally:
                os._exit(99)
        workers[pid] = [w, path, idxs, time.time(), -1]

    for w in range(jobs):
        spawn(w, slices[w])

    def harvest(pid, how):
        w, path, idxs, _, _ = workers.pop(pid)
        recs = _read(path)
        done = set()
        inflight = None
        for kind, i, payload in recs:
            if kind == "start":
                inflight = i
            else:
                results[i] = (kind, payload)
                done.add(i)
                inflight = None
        if how != "exit0":
            if inflight is None:
                # died between cases: resume with what is left
                rest = [i for i in idxs if i not in done]
            else:
                results[inflight] = (("hang" if how == "hang" else "crash"), how)
                done.add(inflight)
                rest = [i for i in idxs if i not in done]
            spawn(w, rest)
        else:
            rest = [i for i in idxs if i not in done]
            if rest:
                spawn(w, rest)
        try:
            os.remove(path)
        except OSError:
            pass

    while workers:
        try:
            pid, status = os.waitpid(-1, os.WNOHANG)
        except ChildProcessError:
            pid = 0
            for p in list(workers):
                harvest(p, "lost")
            break
        if pid and pid in workers:
            if os.WIFSIGNALED(status):
                harvest(pid, "signal %d" % os.WTERMSIG(status))
            elif os.WEXITSTATUS(status) != 0:
                harvest(pid, "exit %d" % os.WEXITSTATUS(status))
            else:
                harvest(pid, "exit0")
            continue
        if pid:
            continue
        # hang detection: no growth of the result file for hang_factor*timeout seconds
        now = time.time()
        for p, rec in list(workers.items()):
            try:
                size = os.path.getsize(rec[1])
            except OSError:
                size = 0
            if size != rec[4]:
                rec[4], rec[3] = size, now
            elif timeout and now - rec[3] > hang_factor * timeout + 30:
                try:
                    os.kill(p, signal.SIGKILL)
                    os.waitpid(p, 0)
                except OSError:
                    pass
                harvest(p, "hang")
        time.sleep(0.02)
    for i, r in enumerate(results):
        if r is None:
            results[i] = ("crash", "no result recorded")
    return results


# ----------------------------------------------------------------------------------------------

def _exec_case(ctx, mod, case):
    r = mod.run_case(case, ctx)
    if isinstance(r, R):
        return r.pack()
    return r


def _fold(report, case, cid, status, payload):
    if status == "done":
        report.add(case, cid, payload)
    elif status == "harness":
        raise HarnessError("case %s: %s" % (cid, payload))
    else:
        r = R()
        what = payload if isinstance(payload, str) else repr(payload)
        last = what.strip().splitlines()[-1] if what.strip() else status
        etype = last.split(":")[0].strip() if status == "exc" else status
        r.fail("%s while executing case: %s\n%s" % (status, last, what[-1500:]),
               fkey={"exception": etype})
        report.add(case, cid, r.pack())


def run(ctx, mod):
    if hasattr(mod, "explore"):
        report = mod.explore(ctx)
        if hasattr(mod, "finish"):
            mod.finish(ctx, report)
        return report

    if hasattr(mod, "setup"):
        mod.setup(ctx)
    all_cases = list(mod.cases(ctx))
    seen, cases, cids = set(), [], []
    for c in all_cases:
        cid = case_id(c)
        if cid in seen:
            continue
        seen.add(cid)
        if ctx.only and ctx.only not in cid and ctx.only not in canon(c):
            continue
        cases.append(c)
        cids.append(cid)
    if not cases:
        raise HarnessError("empty case space")
    ctx.log("%s: %d distinct cases (%d generated)" % (ctx.pid, len(cases), len(all_cases)))
    # seed rotates the exploration order only
    order = list(range(len(cases)))
    k = ctx.seed % len(order)
    order = order[k:] + order[:k]
    timeout = getattr(mod, "CASE_TIMEOUT", 120)
    t0 = time.time()
    res = pool_map(ctx, lambda i: _exec_case(ctx, mod, cases[i]), order, timeout=timeout)
    ctx.log("%s: pool finished in %.1fs" % (ctx.pid, time.time() - t0))
    report = Report()
    report.states = len(cases)
    by_index = {}
    for pos, i in enumerate(order):
        by_index[i] = res[pos]
    for i in range(len(cases)):
        status, payload = by_index[i]
        _fold(report, cases[i], cids[i], status, payload)
    report.generated = len(all_cases)

    # every failing case is executed once more in a fresh worker before it is reported
    failing = []
    for f in report.fails:
        if f["cid"] not in [cid for cid, _ in failing]:
            failing.append((f["cid"], cases[cids.index(f["cid"])]))
    failing = failing[:64]
    nonrepro = []
    if failing:
        again = pool_map(ctx, lambda c: _exec_case(ctx, mod, c), [c for _, c in failing],
                         timeout=timeout)
        jobs = max(1, min(ctx.jobs, len(order)))
        for (cid, case), (status, payload) in zip(failing, again):
            still = status != "done" or payload.get("nfails", 0) > 0
            if status == "harness":
                raise HarnessError(payload)
            if still:
                continue
            # Alone in a fresh process the case passes.  Either the harness is flaky, or the failure depends
            # on what the same process executed BEFORE it (module-level state in the code under test).  Decide by
            # replaying, in one fresh process, exactly the cases that worker had executed up to this one.
            pos = order.index(cids.index(cid))
            history = [cases[order[k]] for k in range(pos % jobs, pos + 1, jobs)]

            def run_history(hist):
                last = None
                for c in hist:
                    last = _exec_case(ctx, mod, c)
                return last
            (st2, pl2), = pool_map(ctx, run_history, [history], timeout=timeout * max(1, len(history)), jobs=1)
            if st2 == "harness":
                raise HarnessError(pl2)
            if st2 == "done" and pl2.get("nfails", 0) == 0:
                # neither alone nor after its history: not reported as a violation.  If the run has violations that DO
                # reproduce they are reported (exit 1) and this one is only listed in the evidence; a run whose only
                # failures are non-reproducible ends as a harness error (exit 2) below.
                nonrepro.append((cid, canon(case)[:300]))
                report.fails = [f for f in report.fails if f["cid"] != cid]
                continue
            for f in report.fails:
                if f["cid"] == cid:
                    f["fkey"] = dict(f.get("fkey") or {}, history_dependent=True)
                    f["detail"] = ("[passes as the first case of a fresh process; fails again when the %d cases this worker "
                                   "executed before it are replayed first -> depends on process history] " % (len(history) - 1)
                                   + f["detail"])
                    f["case"] = {"sequence": history}
    if nonrepro:
        if not report.fails:
            raise HarnessError("non-reproducible failure in case %s: %s" % nonrepro[0])
        report.coverage["non_reproducible_failures_not_reported"] = [c for c, _ in nonrepro]
    if hasattr(mod, "finish"):
        mod.finish(ctx, report)
    return report


def replay(ctx, mod, path):
    with open(path) as fh:
        doc = json.load(fh)
    case = doc["case"] if "case" in doc else doc
    if "sequence" in case:
        if hasattr(mod, "setup"):
            mod.setup(ctx)

        def run_history(hist):
            last = None
            for c in hist:
                last = _exec_case(ctx, mod, {k: v for k, v in c.items() if k != "_sub"})
            return last
        (status, payload), = pool_map(ctx, run_history, [case["sequence"]], jobs=1,
                                      timeout=getattr(mod, "CASE_TIMEOUT", 120) * len(case["sequence"]))
        if status != "done" or payload.get("nfails", 0):
            print("replay (sequence of %d cases): last case fails: %s" % (len(case["sequence"]), str(payload)[:600]))
            print("VIOLATION property=%s replay=%s" % (ctx.pid, path))
            return 1
        print("replay (sequence of %d cases): passes" % len(case["sequence"]))
        return 0
    case = {k: v for k, v in case.items() if k != "_sub"}
    if hasattr(mod, "setup"):
        mod.setup_replay(ctx, case) if hasattr(mod, "setup_replay") else mod.setup(ctx)
    if hasattr(mod, "replay"):
        packed = mod.replay(case, ctx)
        if isinstance(packed, R):
            packed = packed.pack()
    else:
        (status, payload), = pool_map(ctx, lambda c: _exec_case(ctx, mod, c), [case], jobs=1,
                                      timeout=getattr(mod, "CASE_TIMEOUT", 120))
        if status == "harness":
            raise HarnessError(payload)
        if status != "done":
            print("replay: %s %s" % (status, str(payload)[-800:]))
            print("VIOLATION property=%s replay=%s" % (ctx.pid, path))
            return 1
        packed = payload
    from .findings import load_findings, split_known
    fails = [dict(f, case=case, cid=case_id(case)) for f in packed["fails"]]
    new, known = split_known(fails, load_findings(ctx.pid))
    for entry, hits in known:
        print("KNOWN-FINDING: property=%s %s" % (ctx.pid, entry["what"]))
    print("replay: evaluations=%d failures=%d" % (packed["evals"], packed["nfails"]))
    for f in new[:10]:
        print("  " + f["detail"][:800])
    if new:
        print("VIOLATION property=%s replay=%s" % (ctx.pid, path))
        return 1
    return 0

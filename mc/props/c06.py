"""
C06 - polarised magnetic scattering is the weighted sum of the four spin channels.

Space (E1, deviation bounded): per model with SLD parameters the dimensions
  * one per active SLD parameter: (M0, mtheta, mphi) in {off, three generic vectors, zero magnitude with angles set},
  * "allmag": every SLD of the model (vector SLDs at their maximal length) magnetic with distinct vectors,
  * up_frac_i, up_frac_f (incl. 0, 0.5, 1, clipped values and a fraction whose channel weight is just above
    the kernel's 1e-8 threshold),
  * (up_theta, up_phi), size dispersity, orientation dispersity (jitter),
and every combination with at most D of them off default is executed on a fixed set of q directions
(four quadrants, both axes, q = 0).

Oracle: per q point the Halpern-Johnson vector Mperp = M - qhat (qhat.M) of every SLD, the polarisation
frame (P, e1, e2) from the polar angles, then FOUR NON-MAGNETIC 2-D calls of the same model at that single q
point with every SLD replaced (rho - P.Mperp, rho + P.Mperp, e1.Mperp, e2.Mperp), same dispersity, recombined
with the documented weights.  The oracle never enters the magnetic kernel, convert_magnetism or the
magnetic value slots.
"""
import math

import numpy as np

from .. import build
from ..engine import R, HarnessError
from ..space import deviations

ID = "C06"
TITLE = "Polarised magnetic scattering is the weighted sum of the four spin channels"
LEVEL = "model_checking"
ENGINE = "E1"
TECHNIQUE = ("deviation-bounded exhaustive enumeration of magnetic configurations; every 2-D magnetic result is "
             "re-derived per q point from four non-magnetic calls of the same model with substituted SLDs")
RULE = ("[dev] per model every combination of <=D dimensions off default (per-SLD magnetisation vector, all-SLDs-magnetic, "
        "up_frac_i, up_frac_f, polarisation axis, size dispersity, orientation dispersity); non-trivial = some "
        "magnitude non-zero and the result differs from the non-magnetic one by >1e-6 relative at some q; "
        "[cutoff] [precision] [after-refusal]: explicit families, see coverage.bounds.families")
ASSUMPTIONS = [
    "the model's own non-magnetic 2-D intensity (Iqxy kernel of the same library, same dispersity mesh) is the reference "
    "for every I(.) of the statement; dispersity averaging itself is decided by C01",
    "M and P are given by polar angle from the beam (z) axis and azimuth in the detector plane, "
    "(sin t cos p, sin t sin p, cos t), the convention magnetism.rst gives for P; e1=(-sin p, cos p, 0), e2 = P x e1",
    "scale multiplies the channel sum and background is added once",
    "the kernel omits spin channels whose weight is <= 1e-8 (anchored mechanism, outside the statement): the weighted "
    "intensity of such channels (weights 1e-14 in the alphabet) is added to the tolerance; all other weights are 0 or >= 2e-8",
    "q = 0 is checked for finiteness only (the kernel's q = 0 guard is outside the statement)",
    "DLL and pure-Python drivers only (no OpenCL/CUDA in the image)",
]
QUICK_MODELS = ["sphere", "core_shell_sphere", "cylinder", "core_multi_shell", "parallelepiped", "lamellar_hg",
                "multilayer_vesicle", "fractal", "core_shell_ellipsoid", "onion", "spherical_sld"]
NSHELL = 3          # used length of vector parameters outside the "allmag" dimension (which uses the maximum)
PY_MODELS = ["adsorbed_layer", "teubner_strey"]
# one representative per structural class of parameter table (thorough tier explores these one level deeper)
D4_MODELS = ["sphere", "core_shell_sphere", "cylinder", "core_multi_shell", "parallelepiped", "lamellar_hg", "vesicle",
             "hollow_cylinder", "fractal", "multilayer_vesicle", "core_shell_ellipsoid", "binary_hard_sphere",
             "spherical_sld", "triaxial_ellipsoid", "stacked_disks", "polymer_micelle"]
SLOW_MODELS = ["pringle"]      # numerical double integral per call (~0.1 s per single-q evaluation block)
# explicit full-product family for the dispersity cut-off (a mesh point qualifies when its weight exceeds the cut-off)
CUTOFFS = [0.0, 1e-5, 1e-3]
SPIN_PAIRS = [[0.02, 0.97], [0.97, 0.02], [0.3, 0.8], [0.0, 0.0]]        # channel weights spanning decades
EPS = {"single": 2.0 ** -23, "quad": 2.0 ** -52, "double": 2.0 ** -52}   # quad results are read back as doubles
FAMILIES = {
    "cutoff": "full product per compiled model: {1, 2 magnetic SLDs} x spin pairs %s x cutoff %s x dispersity "
              "{one size 3 pts, two sizes 8x8 pts nsigma 3, the latter + jitter} x {default, oblique} polarisation"
              % (SPIN_PAIRS, CUTOFFS),
    "precision": "single and quad (long double) builds of every model that supports them: every combination of <=2 "
                 "deviations that contains a magnetic SLD (quad quick: <=1), reference from the SAME-precision "
                 "non-magnetic kernel; tolerance 64 eps sum|terms| + 2 x first-order response of every channel to "
                 "an 8-eps perturbation of each effective SLD",
    "after-refusal": "one kernel object: a refused call (too many dispersed parameters; magnetism on a pure-Python "
                     "model) followed by an ordinary evaluation that must be bit-identical to a fresh kernel's",
}
BOUNDS = {
    "quick": {"models": QUICK_MODELS + PY_MODELS, "D": 3, "python_models_D": 1,
              "families": FAMILIES, "q_points": 9, "vector_sld_elements": "first, second and last used (n=3) of each vector SLD; all 10 in the allmag dimension"},
    "thorough": {"models": "all 47 models with SLD parameters", "D": 3, "D4_models": D4_MODELS, "python_models_D": 1,
                 "D2_models": SLOW_MODELS,
                 "D_note": "D=4 models with >4 active SLD dimensions: all D=4 combinations that involve at most 2 SLD dimensions",
                 "families": FAMILIES, "q_points": 9, "vector_sld_elements": "first, second and last used (n=3) of each vector SLD; all 10 in the allmag dimension"},
}
CASE_TIMEOUT = 300

SCALE, BACKGROUND = 1.7, 0.25
M_ALTS = [[3.0, 30.0, 50.0], [-2.0, 90.0, 0.0], [1.5, 0.0, 123.0], [0.0, 40.0, 70.0]]
FRACS = [0.5, 1.0, 0.3, 0.8, 1.4, -0.2, 1e-7]
UP_TABLE = [(35.0, 60.0), (63.0, 21.0), (48.0, 140.0), (17.0, 75.0)]
# unit directions: both axes (+/-) and the four quadrants, then |q|; last point q = 0
_DIRS = [(1, 0), (0, 1), (-1, 0), (0, -1), (0.6, 0.8), (-0.8, 0.6), (-0.28, -0.96), (0.96, -0.28)]
_QMAG = [0.013, 0.05, 0.11, 0.21, 0.03, 0.08, 0.17, 0.29]


def qpoints(ctx):
    f = 1.0 if ctx.seed == 0 else ctx.factor(3)
    pts = [(d[0] * m * f, d[1] * m * f) for d, m in zip(_DIRS, _QMAG)]
    pts.append((0.0, 0.0))
    return pts


def sld_names(info):
    """SLD call parameters in call order; EACH vector SLD contributes its first, second and last used element
    (the vector length is set to NSHELL = 3, so these are elements 1, 2, 3 of every vector SLD separately)"""
    out = []
    for p in info.parameters.call_parameters:
        if p.type != "sld":
            continue
        stem = p.name.rstrip("0123456789")
        if stem != p.name and any(k.length > 1 and k.id == stem for k in info.parameters.kernel_parameters):
            if int(p.name[len(stem):]) > NSHELL:
                continue
        out.append(p.name)
    return out


def vector_sld_stems(info):
    """ids of the vector-valued SLD parameters in table order"""
    return [k.id for k in info.parameters.kernel_parameters if k.length > 1 and k.type == "sld"]


def all_sld_names(info):
    return [p.name for p in info.parameters.call_parameters if p.type == "sld"]


def controls(info):
    """{control parameter name: upper limit} of the vector parameters"""
    out = {}
    for p in info.parameters.kernel_parameters:
        if p.length > 1 and p.length_control:
            out[p.length_control] = p.length
    return out


def models(ctx):
    from sasmodels import core
    if ctx.quick:
        return QUICK_MODELS + PY_MODELS
    return core.list_models("magnetic")


def is_py(name):
    return callable(build.info(name).Iq)


def setup(ctx):
    names = [m for m in models(ctx) if not is_py(m)]
    bad = build.prebuild(ctx, names)
    bad.update(build.prebuild(ctx, [m for m in names if build.info(m).single], dtype="single"))
    bad.update(build.prebuild(ctx, [m for m in names if m not in SLOW_MODELS], dtype="quad"))
    if bad:
        raise HarnessError("models failed to build: %r" % bad)


def _dims(ctx, name):
    info = build.info(name)
    f = 1.0 if ctx.seed == 0 else ctx.factor(0)
    alts = [[a[0] * f, a[1], a[2]] for a in M_ALTS]
    dims = [("M:" + s, None, alts) for s in sld_names(info)]
    dims.append(("allmag", 0, [1]))
    dims.append(("up_frac_i", 0.0, FRACS))
    dims.append(("up_frac_f", 0.0, FRACS))
    dims.append(("up", [90.0, 0.0], [[0.0, 0.0], list(ctx.rot(UP_TABLE, 0)), [120.0, 200.0]]))
    vol = [p.name for p in info.parameters.call_parameters if p.type == "volume" and p.name in info.parameters.pd_1d
           and p.name not in controls(info)]
    if vol:
        dims.append(("size_pd", None, [vol[0]]))
    if info.parameters.orientation_parameters:
        dims.append(("orient_pd", 0, [1]))
    return dims


def cases(ctx):
    out = []
    for name in models(ctx):
        dims = _dims(ctx, name)
        if is_py(name):
            D = 1          # every magnetic call is refused before any arithmetic happens
        elif name in SLOW_MODELS:
            D = 2
        elif ctx.quick:
            D = 3
        else:
            D = 4 if name in D4_MODELS else 3
        nsld = sum(1 for d in dims if d[0].startswith("M:"))
        for k, c in deviations(dims, D):
            if k == 4 and nsld > 4:
                if sum(1 for key, v in c.items() if key.startswith("M:") and v is not None) > 2:
                    continue
            out.append({"model": name, "dev": k, "cfg": c})
        if not is_py(name) and name not in SLOW_MODELS:
            out.extend(_cutoff_cases(ctx, name, dims))
            out.extend(_precision_cases(ctx, name, dims))
        out.extend(_refusal_cases(ctx, name, dims))
    return out


def _default_cfg(dims):
    return {d[0]: d[1] for d in dims}


def _size_names(info):
    return [p.name for p in info.parameters.call_parameters if p.type == "volume" and p.name in info.parameters.pd_1d
            and p.name not in controls(info)]


def _cutoff_cases(ctx, name, dims):
    info = build.info(name)
    slds = [d for d in dims if d[0].startswith("M:")]
    if not slds or not _size_names(info):
        return
    oriented = bool(info.parameters.orientation_parameters)
    mags = [{slds[0][0]: slds[0][2][0]}]
    if len(slds) > 1:
        mags.append({slds[0][0]: slds[0][2][0], slds[1][0]: slds[1][2][1]})
    ups = [d for d in dims if d[0] == "up"][0]
    for mag in mags:
        for i, f in SPIN_PAIRS:
            for cutoff in CUTOFFS:
                for disp in ["size3", "multi"] + (["multi+orient"] if oriented else []):
                    for up in (ups[1], ups[2][1]):
                        cfg = _default_cfg(dims)
                        cfg.update(mag)
                        cfg.update(up_frac_i=i, up_frac_f=f, up=up, cutoff=cutoff,
                                   size_pd=_size_names(info)[0] if disp == "size3" else "@multi",
                                   orient_pd=int(disp.endswith("orient")))
                        yield {"kind": "cutoff", "model": name, "cfg": cfg}


def _precision_cases(ctx, name, dims):
    info = build.info(name)
    for dtype in ("single", "quad"):
        if dtype == "single" and not info.single:
            continue          # the library builds such models in double whatever is asked for
        D = 1 if (dtype == "quad" and ctx.quick) else 2
        pdims = [d for d in dims if d[0] != "allmag"]
        for k, c in deviations(pdims, D):
            if not any(key.startswith("M:") and v is not None and v[0] != 0.0 for key, v in c.items()):
                continue
            c["allmag"] = 0
            yield {"kind": "precision", "dtype": dtype, "model": name, "dev": k, "cfg": c}


def _refusal_cases(ctx, name, dims):
    info = build.info(name)
    slds = [d for d in dims if d[0].startswith("M:")]
    cfg = _default_cfg(dims)
    cfg[slds[0][0]] = slds[0][2][0]
    if is_py(name):
        yield {"kind": "after-refusal", "reason": "python-magnetism", "model": name, "cfg": cfg}
    else:
        npd = len([p for p in info.parameters.call_parameters if p.name in info.parameters.pd_2d])
        if npd > info.parameters.max_pd:
            yield {"kind": "after-refusal", "reason": "too-many-dispersed", "model": name, "cfg": cfg}


# ------------------------------------------------------------------------------------------------
_KCACHE = {}


def _kernels(ctx, name, dtype="double", fresh=False):
    """(kernel over all q points, [kernel per single q point])"""
    key = (name, ctx.seed, dtype)
    if key not in _KCACHE or fresh:
        m = build.model(name, dtype)
        pts = np.array(qpoints(ctx), float)
        full = m.make_kernel([pts[:, 0].copy(), pts[:, 1].copy()])
        single = [m.make_kernel([pts[j:j + 1, 0].copy(), pts[j:j + 1, 1].copy()]) for j in range(len(pts))]
        if fresh:
            return full, single, pts
        _KCACHE[key] = (full, single, pts)
    return _KCACHE[key]


def _base(info, allmag):
    pars = {}
    ctl = controls(info)
    for p in info.parameters.call_parameters:
        if p.type == "magnetic" or p.name in ("scale", "background"):
            continue
        pars[p.name] = p.default
    for c, hi in ctl.items():
        pars[c] = float(hi) if allmag else float(min(NSHELL, hi))
    # a generic view so that orientation matters
    for nm, v in (("theta", 50.0), ("phi", 25.0), ("psi", 15.0)):
        if nm in pars:
            pars[nm] = v
    return pars


def _unit(theta_deg, phi_deg):
    t, p = math.radians(theta_deg), math.radians(phi_deg)
    return np.array([math.sin(t) * math.cos(p), math.sin(t) * math.sin(p), math.cos(t)])


def frame(up_theta, up_phi):
    """P from its polar angles and an orthonormal completion e1, e2 (checked numerically)"""
    P = _unit(up_theta, up_phi)
    p = math.radians(up_phi)
    e1 = np.array([-math.sin(p), math.cos(p), 0.0])
    e2 = np.cross(P, e1)
    G = np.array([P, e1, e2])
    if not np.allclose(G.dot(G.T), np.eye(3), atol=1e-14):
        raise HarnessError("polarisation frame is not orthonormal")
    return P, e1, e2


def weights(i, f):
    i = min(max(i, 0.0), 1.0)
    f = min(max(f, 0.0), 1.0)
    norm = max(f, 1.0 - f)
    return ((1 - i) * (1 - f) / norm, (1 - i) * f / norm, i * (1 - f) / norm, i * f / norm)   # dd, du, ud, uu


def run_case(case, ctx):
    from sasmodels.direct_model import call_kernel
    r = R()
    name, cfg = case["model"], case["cfg"]
    info = build.info(name)
    kind = case.get("kind", "dev")
    dtype = case.get("dtype", "double")
    cutoff = float(cfg.get("cutoff", 0.0))
    full, single, pts = _kernels(ctx, name, dtype)
    if dtype != "double" and str(full.dtype) == "float64":
        raise HarnessError("%s built with dtype=%s is still double" % (name, dtype))
    eps = EPS[dtype]
    allmag = bool(cfg.get("allmag"))
    base = _base(info, allmag)
    fk = {"model": name}
    br = []

    # dispersity (shared by implementation and oracle)
    disp = {}
    if cfg.get("size_pd") == "@multi":
        for nm, w in zip(_size_names(info)[:2], (0.15, 0.12)):
            disp.update({nm + "_pd": w, nm + "_pd_n": 8, nm + "_pd_type": "gaussian", nm + "_pd_nsigma": 3.0})
        br.append("size-dispersity")
        br.append("multi-parameter-dispersity")
    elif cfg.get("size_pd"):
        nm = cfg["size_pd"]
        disp.update({nm + "_pd": 0.1, nm + "_pd_n": 3, nm + "_pd_type": "gaussian", nm + "_pd_nsigma": 2.0})
        br.append("size-dispersity")
    if cfg.get("orient_pd"):
        disp.update({"theta_pd": 10.0, "theta_pd_n": 3, "theta_pd_type": "gaussian", "theta_pd_nsigma": 2.0,
                     "phi_pd": 15.0, "phi_pd_n": 2, "phi_pd_type": "rectangle", "phi_pd_nsigma": 1.7})
        br.append("orientation-dispersity")

    # magnetisation per SLD
    mvec = {}        # sld name -> (M0, mtheta, mphi)
    if allmag:
        for k, s in enumerate(all_sld_names(info)):
            mvec[s] = (0.5 + 0.3 * k, float((17 * k + 5) % 90), float((29 * k) % 360 - 180))
        br.append("all-slds-magnetic")
    for key, v in cfg.items():
        if key.startswith("M:") and v is not None:
            mvec[key[2:]] = tuple(v)
    up_i, up_f = cfg["up_frac_i"], cfg["up_frac_f"]
    up_theta, up_phi = cfg["up"]
    mag = {"up_frac_i": up_i, "up_frac_f": up_f, "up_theta": up_theta, "up_phi": up_phi}
    for s, (m0, mt, mp) in mvec.items():
        mag[s + "_M0"], mag[s + "_mtheta"], mag[s + "_mphi"] = m0, mt, mp
    any_mag = any(v[0] != 0.0 for v in mvec.values())
    nmag = sum(1 for v in mvec.values() if v[0] != 0.0)

    pars = dict(base, scale=SCALE, background=BACKGROUND)
    pars.update(disp)
    plain = dict(pars)
    pars.update(mag)
    desc = ("call_kernel(%s 2-D kernel [dtype=%s], magnetic pars=%s, dispersity=%s, scale=%g, background=%g, other "
            "parameters default%s, cutoff=%g)\n  q points (qx,qy)=%s"
            % (name, dtype, mag, disp, SCALE, BACKGROUND,
               " with view theta=50 phi=25 psi=15" if info.parameters.orientation_parameters else "", cutoff,
               [[float(v) for v in x] for x in pts.round(6)]))
    if kind == "after-refusal":
        return _after_refusal(r, ctx, case, name, info, pars, desc)

    try:
        impl = np.array(call_kernel(full, dict(pars), cutoff=cutoff), float)
    except NotImplementedError as exc:
        if any_mag and is_py(name):
            return r.fail("%s: call_kernel refused: %r" % (desc, exc),
                          {"model": name, "clause": "python-magnetism-refused"}, branches=["python-refused"])
        return r.fail("%s: call_kernel raised %r" % (desc, exc), dict(fk, clause="raises"))
    except Exception as exc:  # noqa
        return r.fail("%s: call_kernel raised %r" % (desc, exc), dict(fk, clause="raises"))

    nonmag = np.array(call_kernel(full, dict(plain), cutoff=cutoff), float)
    if not any_mag:
        # the flag must route to the ordinary kernel: bit-for-bit the non-magnetic intensity
        if impl.tobytes() != nonmag.tobytes():
            return r.fail("%s: all magnitudes zero but result differs from the non-magnetic intensity\n  impl=%s\n  nonmagnetic=%s"
                          % (desc, impl, nonmag), dict(fk, clause="zero-magnitude"), branches=br)
        return r.ok(nt=False, outcome="nonmagnetic", trans=2, branches=br + ["all-zero-bitwise"])

    # ---- oracle
    P, e1, e2 = frame(up_theta, up_phi)
    w_dd, w_du, w_ud, w_uu = weights(up_i, up_f)
    w_sf = w_du + w_ud
    slds = all_sld_names(info)
    M = {s: (mvec[s][0] * _unit(mvec[s][1], mvec[s][2]) if s in mvec else np.zeros(3)) for s in slds}
    nq = len(pts)
    ref = np.full(nq, np.nan)
    magn = np.zeros(nq)
    cut = np.zeros(nq)       # weighted intensity of channels the kernel is allowed to omit (weight <= 1e-8)
    cond = np.zeros(nq)      # first-order response of the channel sum to rounding of the effective SLDs (non-double builds)
    used = sld_names(info)
    ncalls = 0
    opars = dict(base, scale=1.0, background=0.0)
    opars.update(disp)
    for j in range(nq):
        qx, qy = pts[j]
        if qx == 0 and qy == 0:
            continue
        qhat = np.array([qx, qy, 0.0]) / math.hypot(qx, qy)
        perp = {s: M[s] - qhat * qhat.dot(M[s]) for s in slds}
        chans = (
            (w_dd, {s: base[s] - P.dot(perp[s]) for s in slds}),
            (w_uu, {s: base[s] + P.dot(perp[s]) for s in slds}),
            (w_sf, {s: e1.dot(perp[s]) for s in slds}),
            (w_sf, {s: e2.dot(perp[s]) for s in slds}),
        )
        tot = 0.0
        for w, sub in chans:
            if w == 0.0:
                continue
            p = dict(opars)
            p.update(sub)
            val = float(call_kernel(single[j], p, cutoff=cutoff)[0])
            ncalls += 1
            tot += w * val
            magn[j] += abs(w * val)
            if w <= 1e-8:
                cut[j] += SCALE * abs(w * val)
            if dtype == "single":
                # the kernel forms rho -+ P.Mperp in its own precision: each effective SLD carries a few eps of
                # (|rho| + |M|); propagate that through the model one SLD at a time (first order, both signs)
                for s_ in used:
                    d_ = 8 * eps * (abs(sub[s_]) + abs(base[s_]) + float(np.linalg.norm(M[s_])))
                    for sg in (1.0, -1.0):
                        v2 = float(call_kernel(single[j], dict(p, **{s_: sub[s_] + sg * d_}), cutoff=cutoff)[0])
                        ncalls += 1
                        if np.isfinite(v2):
                            cond[j] += SCALE * abs(w) * abs(v2 - val)
        ref[j] = SCALE * tot + BACKGROUND
        magn[j] = SCALE * magn[j] + BACKGROUND

    zero = [j for j in range(nq) if pts[j][0] == 0 and pts[j][1] == 0]
    for j in zero:
        if not np.isfinite(impl[j]):
            return r.fail("%s: result at q=0 is %r" % (desc, impl[j]), dict(fk, clause="q0-finite"), branches=br)
    keep = [j for j in range(nq) if j not in zero]
    a, b, mg, ct = impl[keep], ref[keep], magn[keep], cut[keep] + 2.0 * cond[keep]
    rtol = 1e-11 if dtype != "single" else 64 * eps
    if not (np.all(np.isfinite(b)) and np.all(np.isfinite(mg))):
        if np.array_equal(np.isnan(a), np.isnan(b)):
            return r.inconc("oracle-nonfinite", trans=ncalls + 2)
    err = np.abs(a - b)
    bad = ~(err <= rtol * mg + ct) & ~(np.isnan(a) & np.isnan(b))
    if kind != "dev":
        br.append("family:" + kind)
    if dtype != "double":
        br.append("precision:" + dtype)
    if cutoff > 0:
        nall = _mesh_size(info, pars)
        br.append("cutoff>0")
        wmin = min(w for w in (w_dd, w_du, w_ud, w_uu) if w > 0)
        if "multi-parameter-dispersity" in br and wmin < 0.05:
            br.append("cutoff>0:multi-dispersity:unequal-spin-weights")
        if nall and _mesh_qualifying(info, pars, cutoff) < nall:
            br.append("cutoff-excludes-mesh-points")
    if np.any(ct > 0):
        br.append("channel-below-kernel-cutoff")
    if up_i != min(max(up_i, 0.0), 1.0) or up_f != min(max(up_f, 0.0), 1.0):
        br.append("clipped-fraction")
    if (up_theta, up_phi) not in ((90.0, 0.0), (0.0, 0.0)):
        br.append("oblique-polarisation")
    if nmag >= 2:
        br.append("multi-magnetic-sld")
    vec = vector_sld_stems(info)
    if len(vec) >= 2:
        later = [s_ for s_, v in mvec.items() if v[0] != 0.0 and s_.rstrip("0123456789") in vec[1:]]
        if later:
            br.append("magnetic-element-of-later-vector-sld")
            if any(int(s_[len(s_.rstrip("0123456789")):]) == NSHELL for s_ in later) and not allmag:
                br.append("magnetic-last-element-of-later-vector-sld")
    if w_sf > 0:
        br.append("spin-flip-channel")
    if 0 < min(w for w in (w_dd, w_du, w_ud, w_uu) if w > 0) < 1e-6:
        br.append("weight-just-above-threshold")
    if zero:
        br.append("q0-finite")
    nt = bool(np.any(np.abs(a - nonmag[keep]) > 1e-6 * np.abs(nonmag[keep])))
    if bad.any():
        j = int(np.argmax(np.where(bad, err / np.maximum(mg, 1e-300), 0)))
        return r.fail("%s\n  impl=%s\n  ref =%s\n  worst: q=(%g,%g) impl=%.15g ref=%.15g (channel weights dd,du,ud,uu=%s)\n"
                      "  non-magnetic=%s"
                      % (desc, a, b, pts[keep[j]][0], pts[keep[j]][1], a[j], b[j], (w_dd, w_du, w_ud, w_uu),
                         nonmag[keep]),
                      dict(fk, clause="channel-sum", **({"dtype": dtype} if dtype != "double" else {})),
                      branches=br, nt=nt, trans=ncalls + 2)
    r.ok(nt=nt, outcome="m%d:sf%d:d%d:o%d" % (min(nmag, 3), int(w_sf > 0), int("size-dispersity" in br),
                                              int("orientation-dispersity" in br)),
         trans=ncalls + 2, branches=br)
    if nt and not r.samples:
        r.sample({"model": name, "magnetic": mag, "dispersity": disp, "q": [list(map(float, x)) for x in pts[:3]],
                  "impl": [float(v) for v in impl[:3]], "reference": [float(v) for v in ref[:3]],
                  "nonmagnetic": [float(v) for v in nonmag[:3]]})
    return r


def _mesh_weights(info, pars):
    from sasmodels.direct_model import get_mesh
    mesh = get_mesh(info, {k: v for k, v in pars.items()}, dim="2d")
    ws = [np.asarray(w, float) * (np.abs(np.cos(np.radians(np.asarray(d, float)))) if p.name == "theta" else 1.0)
          for p, (v, d, w) in zip(info.parameters.call_parameters, mesh) if len(w) > 1]
    return ws


def _mesh_size(info, pars):
    return int(np.prod([len(w) for w in _mesh_weights(info, pars)])) if _mesh_weights(info, pars) else 0


def _mesh_qualifying(info, pars, cutoff):
    ws = _mesh_weights(info, pars)
    tot = np.ones(1)
    for w in ws:
        tot = np.outer(tot, w).ravel()
    return int(np.sum(tot > cutoff))


def _after_refusal(r, ctx, case, name, info, pars, desc):
    """a refused call must leave no trace on the kernel object"""
    from sasmodels.direct_model import call_kernel
    full, _, _ = _kernels(ctx, name, fresh=True)
    fresh, _, _ = _kernels(ctx, name, fresh=True)
    reason = case["reason"]
    fk = {"model": name, "clause": "after-refusal", "reason": reason}
    if reason == "python-magnetism":
        bad_pars, good = dict(pars), {k: v for k, v in pars.items() if not k.endswith(("_M0", "_mtheta", "_mphi"))}
    else:
        good = dict(pars)
        bad_pars = dict(pars)
        for p in info.parameters.call_parameters:
            if p.name in info.parameters.pd_2d:
                bad_pars.update({p.name + "_pd": 0.1 if p.type != "orientation" else 5.0, p.name + "_pd_n": 2})
    try:
        call_kernel(full, dict(bad_pars))
    except (ValueError, NotImplementedError):
        pass
    else:
        return r.ok(outcome="not-refused", branches=["after-refusal:not-refused"])
    after = np.array(call_kernel(full, dict(good)), float)
    ref = np.array(call_kernel(fresh, dict(good)), float)
    if after.tobytes() != ref.tobytes():
        return r.fail("%s evaluated on a kernel whose previous call was refused (%s)\n  after refusal=%s\n  fresh kernel =%s"
                      % (desc, reason, after, ref), fk, branches=["after-refusal"])
    return r.ok(nt=True, outcome="after-refusal", trans=3, branches=["after-refusal", "after-refusal:" + reason])


def finish(ctx, report):
    report.require("family:cutoff", 200, "cut-off family")
    report.require("cutoff>0:multi-dispersity:unequal-spin-weights", 100,
                   "cut-off > 0 with multi-parameter dispersity and a spin weight < 0.05")
    report.require("cutoff-excludes-mesh-points", 50, "the cut-off removes mesh points")
    report.require("precision:single", 200, "single-precision builds")
    report.require("precision:quad", 50, "long-double builds")
    report.require("after-refusal", 5, "evaluation after a refused call")
    report.require("python-refused", 2, "pure-Python models with SLDs (explicit refusal recorded)")
    report.require("all-zero-bitwise", 20, "all magnitudes zero -> ordinary kernel, bit-for-bit")
    report.require("clipped-fraction", 50, "up fractions outside [0,1]")
    report.require("oblique-polarisation", 50, "polarisation axis off the default")
    report.require("multi-magnetic-sld", 50, ">= 2 magnetic SLDs with different vectors")
    report.require("spin-flip-channel", 50, "spin-flip channels contribute")
    report.require("weight-just-above-threshold", 10, "channel weight just above the kernel's 1e-8 cut")
    report.require("channel-below-kernel-cutoff", 5, "channel weight below the kernel's 1e-8 cut")
    report.require("size-dispersity", 20, "size dispersity")
    report.require("orientation-dispersity", 20, "orientation dispersity")
    report.require("all-slds-magnetic", 5, "every SLD magnetic (vector SLDs at full length)")
    report.require("q0-finite", 50, "q = 0 present")
    report.require("magnetic-element-of-later-vector-sld", 50,
                   "magnetic element of a vector SLD that follows another vector parameter (onion sld_out)")
    report.require("magnetic-last-element-of-later-vector-sld", 10, "... its last used element")

"""
C17 - the compiled-model cache always reflects the current sources (E2, histories).

Every history of edit / load events up to a depth is executed on the real implementation, with no
de-duplication (stateless enumeration), by a DFS that *forks the long-running process* at every node:
the in-process caches (module cache, template cache, loaded libraries) of the lineage are therefore
exactly those the history produced, and each transition costs one fork instead of a replay.

Runs on a scratch copy of <repo>/sasmodels (the kernel templates are edited) placed first on sys.path,
a private cache directory, and the memoising scripted compiler (mc/scripted_cc.py, no scheduler).
File modification times come from a counter the harness owns (os.utime): every edit advances it.

Events (9): toggle python constant | toggle parameter table (extra parameter) | toggle the DEFAULT of a
parameter that is never passed explicitly (Python-only edit, identical generated C) | toggle constant in the
included C file | toggle an edit of kernel_iq.c | toggle a macro in kernel_header.c | toggle requested
precision (cycle double -> single -> quad) | load+evaluate a second plug-in with the SAME file name in another
directory (never edited, newer than any edit) | load+evaluate through sasview_model.load_custom_model | load+evaluate in the long-running process | load+evaluate in a fresh process.
Toggling twice restores the earlier text with a newer mtime ("revert").

Oracle: the plug-in computes Iq = a*K_py*k_c()*VERIF_HDR*extra*(1+q), so the expected value is a closed
form of the CURRENT texts (x2 when the template edit is active); the parameter table reported by the
loaded model must be the current one; one cached library file name must never be used for two
different (texts, precision) combinations.
"""
import json
import os
import shutil
import socket
import sys
import time
import traceback

import numpy as np

from ..engine import R, Report, HarnessError, pool_map, case_id

ID = "C17"
TITLE = "The compiled-model cache always reflects the current sources"
LEVEL = "model_checking"
ENGINE = "E2"
TECHNIQUE = ("explicit enumeration of all edit/load histories up to a depth on the real implementation; "
             "the long-running process is forked at every node so in-process caches follow the history exactly")
RULE = ("all sequences over the 11-event alphabet up to the depth bound, in two clock regimes (edits stamped before / "
        "after the wall clock), no de-duplication; every load event is "
        "judged against the closed form of the current texts; non-trivial = history has an edit between two loads")
ASSUMPTIONS = [
    "every edit advances the file's modification time (harness-owned clock, os.utime)",
    "the C compiler is environment: real cc once per distinct source, memoised afterwards",
    "edits are drawn from the 6 toggles listed in the module docstring; POSIX; DLL driver only",
]
BOUNDS = {"quick": {"depth": {"past": 4, "future": 3}, "events": 11},
          "thorough": {"depth": {"past": 5, "future": 4}, "events": 11}}
CASE_TIMEOUT = 1800

EVENTS = ["py", "tab", "dflt", "c", "tpl", "hdr", "dtype", "loadL", "loadF", "loadO", "loadS", "loadB"]
Q = [0.1, 0.5]
A = 1.5
# The two texts of every toggled constant have the same length AND the same byte sum AND the same position-weighted
# byte sum ("131" -> "212": +1, -2, +1 on three consecutive bytes): an edit need not change the file size, and it
# must not be missed by a cache key weaker than the text itself (additive / Fletcher / Adler style checksums
# collide on exactly such edits; seeded change C17-f2 swapped crc32 for adler32).
K_PY = (2.131, 2.212)
K_C = (5.131, 5.212)
K_HDR = (1.131, 1.212)
B_DEFAULT = (1.0, 2.5)  # default of parameter b (never passed explicitly): a Python-only edit, same generated C
DTYPES = [("double", "float64", 1e-12), ("single", "float32", 2e-6), ("quad", "float128", 1e-12)]
CLOCKS = {"past": 1500000000, "future": 2200000000}   # edits stamped before / after the wall clock
EXTRA = 4.0          # default of the optional extra parameter
OTHER_PY, OTHER_C = 13.0, 17.0    # constants of the second, never edited plug-in with the SAME file name elsewhere
TPL_OLD = "            result[q_index] += weight * F2;"
TPL_NEW = "            result[q_index] += 2.0 * weight * F2;"

PLUGIN = '''
from numpy import inf
name = "pm"
title = "verif cache probe"
description = "Iq = a*b*K_py*k_c()*VERIF_HDR*extra*(1+q)"
category = "shape-independent"
parameters = [
    ["a", "", 1.0, [-inf, inf], "", ""],
    ["b", "", %(bdef)r, [-inf, inf], "", ""],
%(extra)s]
source = ["sphere.c"]
Iq = """
    return a*b*%(kpy)r*k_c()*VERIF_HDR%(extra_use)s*(1.0+q);
"""
'''
# The plug-in's own C file carries the NAME of a file of the model library (the builtin sphere model includes
# models/sphere.c): the plug-in's directory comes first on the search path, so its own file must be the one compiled,
# also after event loadB has loaded the builtin model in the same process (seeded change C17-g1 memoised the location
# of included files by their bare name).
LIBNAME = "sphere.c"
LIB = "double k_c(void);\ndouble k_c(void) { return %r; }\n"


class Tree(object):
    """the mutable files of one worker's private copy + the harness clock"""

    def __init__(self, root):
        self.root = root
        self.pkg = os.path.join(root, "sasmodels")
        self.plug = os.path.join(root, "plugins")
        self.cache = os.path.join(root, "cache")
        self.files = {
            "py": os.path.join(self.plug, "pm.py"),
            "c": os.path.join(self.plug, LIBNAME),
            "tpl": os.path.join(self.pkg, "kernel_iq.c"),
            "hdr": os.path.join(self.pkg, "kernel_header.c"),
        }
        self.regime = "past"
        self.clock = CLOCKS[self.regime]
        self.bits = {"py": 0, "tab": 0, "dflt": 0, "c": 0, "tpl": 0, "hdr": 0, "dtype": 0}
        self.base = {}

    def create(self, repo):
        shutil.copytree(os.path.join(repo, "sasmodels"), self.pkg,
                        ignore=shutil.ignore_patterns("__pycache__", "*.pyc", "*.so"))
        os.makedirs(self.plug)
        os.makedirs(self.cache)
        # a second plug-in with the same base name (pm.py + pm_lib.c) in another directory, never edited
        self.other = os.path.join(self.root, "elsewhere")
        os.makedirs(self.other)
        with open(os.path.join(self.other, "pm.py"), "w") as fh:
            fh.write(PLUGIN % {"extra": "", "kpy": OTHER_PY, "extra_use": "", "bdef": 1.0})
        with open(os.path.join(self.other, LIBNAME), "w") as fh:
            fh.write(LIB % OTHER_C)
        with open(self.files["tpl"]) as fh:
            self.base["tpl"] = fh.read()
        with open(self.files["hdr"]) as fh:
            self.base["hdr"] = fh.read()
        if self.base["tpl"].count(TPL_OLD) != 1:
            raise HarnessError("kernel_iq.c: accumulation line not found exactly once (template changed?)")
        self.reset()

    def text(self, which):
        b = self.bits
        if which == "py":
            extra = '    ["extra", "", %r, [-inf, inf], "", ""],\n' % EXTRA if b["tab"] else ""
            return PLUGIN % {"extra": extra, "kpy": K_PY[b["py"]], "extra_use": "*extra" if b["tab"] else "",
                             "bdef": B_DEFAULT[b["dflt"]]}
        if which == "c":
            return LIB % K_C[b["c"]]
        if which == "tpl":
            return self.base["tpl"].replace(TPL_OLD, TPL_NEW) if b["tpl"] else self.base["tpl"]
        if which == "hdr":
            return self.base["hdr"] + "\n#define VERIF_HDR %r\n" % K_HDR[b["hdr"]]
        raise KeyError(which)

    def write(self, which):
        self.clock += 0.25           # edits may follow each other within one second
        path = self.files[which]
        tmp = path + ".new"
        with open(tmp, "w") as fh:
            fh.write(self.text(which))
        os.replace(tmp, path)
        ns = int(round(self.clock * 4)) * 250000000
        os.utime(path, ns=(ns, ns))

    def reset(self, regime="past"):
        self.bits = {k: 0 for k in self.bits}
        self.regime = regime
        self.clock = CLOCKS[regime]
        for w in ("py", "c", "tpl", "hdr"):
            self.write(w)
        # the other plug-in is newer than any edit this history can make (but in the same clock regime)
        for f in ("pm.py", LIBNAME):
            ns = int(self.clock + 5000) * 1000000000
            os.utime(os.path.join(self.other, f), ns=(ns, ns))
        for f in os.listdir(self.cache):
            os.remove(os.path.join(self.cache, f))

    def snapshot(self):
        return (dict(self.bits), self.clock,
                {w: os.stat(p).st_mtime_ns for w, p in self.files.items()},
                sorted(os.listdir(self.cache)))

    def restore(self, snap):
        bits, clock, mtimes, listing = snap
        changed = [w for w in ("py", "c", "tpl", "hdr")
                   if any(self.bits[k] != bits[k] for k in (("py", "tab", "dflt") if w == "py" else (w,)))
                   or os.stat(self.files[w]).st_mtime_ns != mtimes[w]]
        self.bits = dict(bits)
        for w in changed:
            with open(self.files[w], "w") as fh:
                fh.write(self.text(w))
            os.utime(self.files[w], ns=(mtimes[w], mtimes[w]))
        self.clock = clock
        for f in os.listdir(self.cache):
            if f not in listing:
                os.remove(os.path.join(self.cache, f))

    def toggle(self, ev):
        if ev == "dtype":
            self.bits[ev] = (self.bits[ev] + 1) % 3      # double -> single -> quad -> double
            return
        self.bits[ev] ^= 1
        if ev in ("py", "tab", "dflt"):
            self.write("py")
        elif ev in ("c", "tpl", "hdr"):
            self.write(ev)
        # dtype: nothing on disk

    def expected_other(self):
        b = self.bits
        k = A * 1.0 * OTHER_PY * OTHER_C * K_HDR[b["hdr"]] * (2.0 if b["tpl"] else 1.0)
        return [k * (1.0 + q) for q in Q], ["a", "b"]

    def expected_builtin(self):
        # builtin sphere at its defaults (radius 50, sld 1, solvent 6), scale 1, background 0, written out here
        out = []
        for q in Q:
            x = q * 50.0
            f = 3.0 * (np.sin(x) - x * np.cos(x)) / x ** 3
            vol = 4.0 / 3.0 * np.pi * 50.0 ** 3
            # (the toggled template line is the accumulation of the plain-Iq kernel; sphere supplies Fq and runs
            # through the other variant in 1-D, so its value does not depend on that toggle)
            out.append(1e-4 * ((1.0 - 6.0) * vol * f) ** 2 / vol)
        return out, ["sld", "sld_solvent", "radius"]

    def expected(self):
        b = self.bits
        k = (A * B_DEFAULT[b["dflt"]] * K_PY[b["py"]] * K_C[b["c"]] * K_HDR[b["hdr"]] * (EXTRA if b["tab"] else 1.0)
             * (2.0 if b["tpl"] else 1.0))
        return [k * (1.0 + q) for q in Q], (["a", "b", "extra"] if b["tab"] else ["a", "b"])

    def key(self):
        b = self.bits
        return "py%d tab%d c%d tpl%d hdr%d" % (b["py"], b["tab"], b["c"], b["tpl"], b["hdr"])   # (dflt: same C)


def _evaluate(tree, other=False):
    """load + evaluate in THIS process (whatever caches it has)"""
    from sasmodels import core
    from sasmodels.direct_model import call_kernel
    dtype = DTYPES[tree.bits["dtype"]][0]
    path = os.path.join(tree.other, "pm.py") if other else tree.files["py"]
    model = core.load_model(path, dtype=dtype, platform="dll")
    kernel = model.make_kernel([np.array(Q)])
    vals = call_kernel(kernel, {"a": A, "scale": 1.0, "background": 0.0})
    return {"values": [float(v) for v in vals], "lib": os.path.basename(model.dllpath),
            "pars": [p.name for p in model.info.parameters.kernel_parameters], "dtype": str(model.dtype)}


def _evaluate_builtin(tree):
    """load + evaluate the BUILTIN sphere model in this process (its models/sphere.c is a library file)"""
    from sasmodels import core
    from sasmodels.direct_model import call_kernel
    dtype = DTYPES[tree.bits["dtype"]][0]
    model = core.load_model("sphere", dtype=dtype, platform="dll")
    kernel = model.make_kernel([np.array(Q)])
    vals = call_kernel(kernel, {"scale": 1.0, "background": 0.0})
    return {"values": [float(v) for v in vals], "lib": os.path.basename(model.dllpath),
            "pars": [p.name for p in model.info.parameters.kernel_parameters], "dtype": str(model.dtype)}


def _evaluate_sv(tree):
    """load + evaluate through the SasView-style plug-in loader in THIS process (always double precision)"""
    from sasmodels.sasview_model import load_custom_model
    Model = load_custom_model(tree.files["py"])
    m = Model()
    m.setParam("a", A)
    m.setParam("scale", 1.0)
    m.setParam("background", 0.0)
    vals = m.evalDistribution(np.array(Q))
    return {"values": [float(v) for v in vals], "lib": os.path.basename(Model._model.dllpath),
            "pars": [p.name for p in Model._model_info.parameters.kernel_parameters], "dtype": str(Model._model.dtype)}


def _stale_components(tree, values, tol, other):
    """which of the six texts would have to be at their OTHER version to explain the evaluated values"""
    import itertools
    if other:
        return ""
    names = ["py", "tab", "dflt", "c", "tpl", "hdr"]
    saved = dict(tree.bits)
    best = None
    try:
        for combo in itertools.product((0, 1), repeat=len(names)):
            for n, b in zip(names, combo):
                tree.bits[n] = b
            exp, _ = tree.expected()
            if len(exp) == len(values) and all(abs(a - b) <= 10 * tol * abs(b) for a, b in zip(values, exp)):
                diff = [n for n, b in zip(names, combo) if b != saved[n]]
                if best is None or len(diff) < len(best):
                    best = diff
    finally:
        tree.bits = saved
    return "+".join(best) if best else ""


def _judge(tree, got, how, hist, agg, other=False, force_double=False, builtin=False):
    exp, pars = tree.expected_builtin() if builtin else tree.expected_other() if other else tree.expected()
    dname, want_dtype, tol = DTYPES[0 if force_double else tree.bits["dtype"]]
    if builtin:
        tol = max(tol, 1e-9) * 50       # the formula above against the library's Bessel routine
    agg["loads"] += 1
    problems = []
    if "error" in got:
        problems.append(("load-raises", "load raised %s" % got["error"]))
    else:
        v = got["values"]
        if len(v) != len(exp) or any(not (abs(a - b) <= tol * abs(b)) for a, b in zip(v, exp)):
            problems.append(("stale-value", "evaluated %r, current sources give %r (stale: %s)"
                             % (v, exp, _stale_components(tree, v, tol, other) or "?")))
        if got["pars"] != pars:
            problems.append(("stale-table", "model reports parameters %r, current table is %r" % (got["pars"], pars)))
        if got["dtype"] != want_dtype:
            problems.append(("wrong-precision", "model precision %s, requested %s" % (got["dtype"], want_dtype)))
        me = (("builtin sphere hdr%d tpl%d" % (tree.bits["hdr"], tree.bits["tpl"])) if builtin
              else ("other plug-in hdr%d tpl%d" % (tree.bits["hdr"], tree.bits["tpl"])) if other else tree.key()) + " " + dname
        # (the SasView-style class keeps its compiled model: its library is not a fresh cache lookup)
        owner = me if force_double else agg["libs"].setdefault(got["lib"], me)
        if owner != me:
            problems.append(("shared-library", "cached library %s used for [%s] and for [%s]" % (got["lib"], owner, me)))
    for clause, msg in problems:
        stale = msg[msg.rindex("(stale: ") + 8:-1] if clause == "stale-value" else ""
        same = sum(1 for f in agg["fails"] if (f["clause"], f["how"], f.get("stale", "")) == (clause, how, stale))
        if same < 3:      # a few examples per distinct finding key, so that frequent ones cannot crowd out others
            agg["fails"].append({"clause": clause, "how": how, "history": list(hist), "stale": stale,
                                 "detail": "history %s: %s load: %s" % (" ".join(hist), how, msg)})
        agg["nfails"] += 1
    agg["outcomes"].add("%s:%s" % (how, ",".join(c for c, _ in problems) or "ok"))


def _fresh_eval(tree, zsock_path):
    """ask the pristine zygote for a brand-new process that loads + evaluates"""
    s = socket.socket(socket.AF_UNIX, socket.SOCK_STREAM)
    s.connect(zsock_path)
    s.sendall((json.dumps({"op": "fresh", "bits": tree.bits}) + "\n").encode())
    buf = b""
    while not buf.endswith(b"\n"):
        chunk = s.recv(65536)
        if not chunk:
            break
        buf += chunk
    s.close()
    if not buf:
        return {"error": "fresh process died without reporting"}
    return json.loads(buf.decode())


def _new_agg():
    return {"histories": 0, "loads": 0, "trans": 0, "nt": 0, "nfails": 0, "fails": [], "libs": {}, "outcomes": set()}


def _merge(a, b):
    for k in ("histories", "loads", "trans", "nt", "nfails"):
        a[k] += b[k]
    for f in b["fails"]:
        key = (f["clause"], f["how"], f.get("stale", ""))
        if sum(1 for g in a["fails"] if (g["clause"], g["how"], g.get("stale", "")) == key) < 3:
            a["fails"].append(f)
    a["outcomes"].update(b["outcomes"])
    # library ownership is per lineage (a sibling branch saw a different directory)


def _apply(tree, ev, hist, agg, zsock):
    agg["trans"] += 1
    if ev == "loadL":
        try:
            got = _evaluate(tree)
        except Exception as exc:  # noqa
            got = {"error": "%r\n%s" % (exc, traceback.format_exc()[-800:])}
        _judge(tree, got, "same-process", hist, agg)
    elif ev == "loadF":
        got = _fresh_eval(tree, zsock)
        _judge(tree, got, "fresh-process", hist, agg)
    elif ev == "loadS":
        try:
            got = _evaluate_sv(tree)
        except Exception as exc:  # noqa
            got = {"error": "%r\n%s" % (exc, traceback.format_exc()[-800:])}
        _judge(tree, got, "same-process-sasview-loader", hist, agg, force_double=True)
    elif ev == "loadB":
        try:
            got = _evaluate_builtin(tree)
        except Exception as exc:  # noqa
            got = {"error": "%r\n%s" % (exc, traceback.format_exc()[-800:])}
        _judge(tree, got, "same-process-builtin", hist, agg, other=True, builtin=True)
    elif ev == "loadO":
        try:
            got = _evaluate(tree, other=True)
        except Exception as exc:  # noqa
            got = {"error": "%r\n%s" % (exc, traceback.format_exc()[-800:])}
        _judge(tree, got, "same-process-other-file", hist, agg, other=True)
    else:
        tree.toggle(ev)


def _nontrivial(hist):
    loads = [i for i, e in enumerate(hist) if e.startswith("load")]
    return len(loads) >= 2 and any(not e.startswith("load") for e in hist[loads[0]:loads[-1]])


def _dfs(tree, hist, depth_left, agg, zsock):
    """explore every extension of `hist`; each child node runs in a fork of this process"""
    agg["histories"] += 1
    if _nontrivial(hist):
        agg["nt"] += 1
    if depth_left == 0:
        return
    for ev in EVENTS:
        snap = tree.snapshot()
        r, w = os.pipe()
        sys.stdout.flush()
        sys.stderr.flush()
        pid = os.fork()
        if pid == 0:
            os.close(r)
            code = 0
            try:
                sub = _new_agg()
                sub["libs"] = dict(agg["libs"])
                h2 = hist + [ev]
                _apply(tree, ev, h2, sub, zsock)
                _dfs(tree, h2, depth_left - 1, sub, zsock)
                sub["outcomes"] = sorted(sub["outcomes"])
                sub.pop("libs")
                with os.fdopen(w, "w") as fh:
                    json.dump(sub, fh)
            except BaseException:  # noqa
                code = 7
                try:
                    with os.fdopen(w, "w") as fh:
                        json.dump({"crash": traceback.format_exc()[-1500:]}, fh)
                except Exception:  # noqa
                    pass
            os._exit(code)
        os.close(w)
        with os.fdopen(r) as fh:
            data = fh.read()
        _, st = os.waitpid(pid, 0)
        tree.restore(snap)
        if not data:
            agg["nfails"] += 1
            agg["fails"].append({"clause": "process-died", "how": ev, "history": hist + [ev],
                                 "detail": "history %s: process ended with status %r and no report" % (" ".join(hist + [ev]), st)})
            continue
        sub = json.loads(data)
        if "crash" in sub:
            raise HarnessError("explorer node crashed: %s" % sub["crash"])
        sub["outcomes"] = set(sub["outcomes"])
        _merge(agg, sub)


def _zygote(tree, zsock_path, ready_w):
    """pristine process: sasmodels (the scratch copy) imported, nothing loaded; serves fork requests"""
    try:
        sys.path.insert(0, tree.root)
        os.environ["SAS_DLL_PATH"] = tree.cache
        import sasmodels
        from sasmodels import core, kerneldll, generate, direct_model  # noqa
        if not os.path.realpath(sasmodels.__file__).startswith(os.path.realpath(tree.root)):
            raise HarnessError("zygote imported %s, not the scratch copy" % sasmodels.__file__)
        if "scripted_cc" not in " ".join(kerneldll.compiler):
            raise HarnessError("scripted compiler not active: %r" % (kerneldll.compiler,))
        srv = socket.socket(socket.AF_UNIX, socket.SOCK_STREAM)
        srv.bind(zsock_path)
        srv.listen(8)
        os.write(ready_w, b"ok")
        os.close(ready_w)
        while True:
            conn, _ = srv.accept()
            buf = b""
            while not buf.endswith(b"\n"):
                chunk = conn.recv(65536)
                if not chunk:
                    break
                buf += chunk
            if not buf:
                conn.close()
                continue
            req = json.loads(buf.decode())
            if req["op"] == "quit":
                conn.close()
                break
            pid = os.fork()
            if pid == 0:
                srv.close()
                out = {}
                try:
                    if req["op"] == "fresh":
                        tree.bits = dict(req["bits"])
                        try:
                            out = _evaluate(tree)
                        except Exception as exc:  # noqa
                            out = {"error": "%r\n%s" % (exc, traceback.format_exc()[-800:])}
                    elif req["op"] == "dfs":
                        tree.bits = dict(req["bits"])
                        tree.clock = req["clock"]
                        agg = _new_agg()
                        hist = []
                        for ev in req["prefix"]:
                            hist.append(ev)
                            _apply(tree, ev, hist, agg, zsock_path)
                        agg["histories"] = 0   # prefix nodes are counted by the caller
                        agg["nt"] = 0
                        _dfs(tree, hist, req["depth"], agg, zsock_path)
                        agg["outcomes"] = sorted(agg["outcomes"])
                        agg.pop("libs")
                        out = agg
                except HarnessError as exc:
                    out = {"harness": str(exc)}
                except BaseException:  # noqa
                    out = {"harness": traceback.format_exc()[-1500:]}
                try:
                    conn.sendall((json.dumps(out) + "\n").encode())
                finally:
                    conn.close()
                    os._exit(0)
            conn.close()
            # dfs lineages issue nested "fresh" requests: do not wait here, reap opportunistically
            try:
                while os.waitpid(-1, os.WNOHANG)[0]:
                    pass
            except ChildProcessError:
                pass
    except BaseException:  # noqa
        try:
            os.write(ready_w, ("ERR " + traceback.format_exc()[-1500:]).encode())
        except OSError:
            pass
    finally:
        os._exit(0)


def _request(zsock_path, req, timeout=None):
    s = socket.socket(socket.AF_UNIX, socket.SOCK_STREAM)
    s.connect(zsock_path)
    s.sendall((json.dumps(req) + "\n").encode())
    buf = b""
    while not buf.endswith(b"\n"):
        chunk = s.recv(1 << 20)
        if not chunk:
            break
        buf += chunk
    s.close()
    if not buf:
        raise HarnessError("zygote closed the connection without an answer for %r" % (req,))
    return json.loads(buf.decode())


def run_prefixes(arg):
    """pool worker: private tree + zygote; explores the subtrees below the given prefixes"""
    widx, work, scratch, repo = arg      # work: [(regime, prefix, depth)]
    root = os.path.join(scratch, "w%d" % widx)
    tree = Tree(root)
    tree.create(repo)
    os.environ["CC"] = "%s -S -E /verif/mc/scripted_cc.py" % ("/usr/bin/python3" if os.path.exists("/usr/bin/python3") else sys.executable)
    os.environ["VERIF_CC_MEMO"] = os.path.join(scratch, "ccmemo")
    os.environ.setdefault("VERIF_REAL_CC", "cc")
    os.environ.pop("VERIF_SCHED_SOCK", None)
    zsock = os.path.join(root, "z.sock")
    r, w = os.pipe()
    zpid = os.fork()
    if zpid == 0:
        os.close(r)
        _zygote(tree, zsock, w)
    os.close(w)
    msg = os.read(r, 4096)
    os.close(r)
    if msg != b"ok":
        raise HarnessError("zygote failed to start: %s" % msg.decode("utf8", "replace"))
    total = _new_agg()
    try:
        for regime, prefix, depth in work:
            tree.reset(regime)
            out = _request(zsock, {"op": "dfs", "prefix": prefix, "depth": depth - len(prefix),
                                   "bits": tree.bits, "clock": tree.clock})
            if "harness" in out:
                raise HarnessError(out["harness"])
            out["outcomes"] = set(out["outcomes"])
            for f in out["fails"]:
                f["regime"] = regime
                f["detail"] = "[edits stamped in the %s] %s" % (regime, f["detail"])
            _merge(total, out)
    finally:
        try:
            _request_quit(zsock)
        except Exception:  # noqa
            pass
        try:
            os.kill(zpid, 9)
        except OSError:
            pass
        try:
            os.waitpid(zpid, 0)
        except OSError:
            pass
        shutil.rmtree(root, ignore_errors=True)
    total["outcomes"] = sorted(total["outcomes"])
    total.pop("libs")
    return total


def _request_quit(zsock):
    s = socket.socket(socket.AF_UNIX, socket.SOCK_STREAM)
    s.connect(zsock)
    s.sendall(b'{"op": "quit"}\n')
    s.close()


def explore(ctx):
    if "sasmodels" in sys.modules:
        raise HarnessError("sasmodels must not be imported in the C17 controller")
    depths = BOUNDS[ctx.tier]["depth"]
    os.makedirs(os.path.join(ctx.scratch, "ccmemo"), exist_ok=True)
    # the root and the depth-1 nodes are cheap; subtrees below every 2-event prefix go to the pool
    work = [(regime, [a, b], depths[regime]) for regime in ("past", "future") for a in EVENTS for b in EVENTS]
    k = ctx.seed % len(work)
    work = work[k:] + work[:k]
    jobs = min(ctx.jobs, len(work))
    chunks = [work[i::jobs] for i in range(jobs)]
    args = [(i, chunks[i], ctx.scratch, ctx.repo) for i in range(jobs)]
    res = pool_map(ctx, run_prefixes, args, timeout=CASE_TIMEOUT, jobs=jobs)
    report = Report()
    total = _new_agg()
    for a, (st, payload) in zip(args, res):
        if st == "harness":
            raise HarnessError(payload)
        if st != "done":
            raise HarnessError("explorer worker %s: %s" % (st, str(payload)[-1500:]))
        payload["outcomes"] = set(payload["outcomes"])
        _merge(total, payload)
    # histories shorter than the prefix length (root + 8 single events) are prefixes of explored ones:
    # their loads were executed and judged as part of every extension
    n_hist = total["histories"] + 2 * (1 + len(EVENTS))
    report.evals = n_hist
    report.states = n_hist
    report.trans = total["trans"]
    report.nt = total["nt"]
    report.outcomes = set(total["outcomes"])
    report.branches["loads-judged"] = total["loads"]
    report.branches["histories"] = n_hist
    report.coverage["depth"] = depths
    report.coverage["closed_form_histories"] = sum(len(EVENTS) ** d for r in depths for d in range(0, depths[r] + 1))
    died = sum(1 for f in total["fails"] if f["clause"] == "process-died")
    if died:
        # a node whose process died reports nothing about its subtree: the death is a violation of its own, the
        # count can only be checked on runs without one
        report.coverage["subtrees_lost_to_dead_processes"] = died
    if report.coverage["closed_form_histories"] != n_hist and not died:
        raise HarnessError("explored %d histories, closed form says %d" % (n_hist, report.coverage["closed_form_histories"]))
    report.samples = [{"history": ["loadL", "c", "loadL", "loadF"], "meaning": "load, edit included C file, load again in the same and in a fresh process"}]
    seen = set()
    for f in total["fails"]:
        case = {"history": f["history"], "regime": f.get("regime", "past")}
        report.fails.append({"detail": f["detail"],
                             "fkey": dict({"clause": f["clause"], "load": f["how"]}, **({"stale": f["stale"]} if f.get("stale") else {})),
                             "case": case, "cid": case_id(case), "sub": None})
    if total["nfails"] > len(total["fails"]):
        report.coverage["violating_loads_total"] = total["nfails"]
    report.generated = n_hist
    return report


def finish(ctx, report):
    report.require("loads-judged", 100, "load events judged")


def replay(case, ctx):
    """replay one history on a fresh private tree"""
    hist = case["history"]
    os.makedirs(os.path.join(ctx.scratch, "ccmemo"), exist_ok=True)
    out = run_prefixes((0, [(case.get("regime", "past"), hist, len(hist))], ctx.scratch, ctx.repo))
    r = R()
    for f in out["fails"]:
        r.fail(f["detail"], dict({"clause": f["clause"], "load": f["how"]}, **({"stale": f["stale"]} if f.get("stale") else {})))
    if not out["fails"]:
        r.ok(nt=True, outcome="ok", trans=len(hist))
    return r

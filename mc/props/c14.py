"""
C14 - amplitude outputs <F>, <F^2>, R_eff and volumes are mutually consistent for every form factor.

Space: the models with amplitude output (have_Fq)  x  parameter sets (defaults; each parameter moved to a
seed-rotated non-default value; thorough: every pair)  x  dispersity (off / on one parameter / on two
parameters)  x  every radius_effective_mode 1..n  x  q in {1e-5, 1e-3, 0.1, 1, 5, 20}/size with
size = V_form^(1/3).

Oracle (the inequalities and identities of the statement; no model code is re-implemented):

  (a) <F^2> >= 0, finite;  <F>^2 <= <F^2> (1 + 1e-9)                       every q, every configuration
  (b) <F>^2 == <F^2> to 1e-6 at q = 1e-5/size                              monodisperse
  (c) <F>^2 == <F^2> at every q                                            monodisperse, spherically symmetric list
  (d) call_kernel == scale <F^2>/V_shell + background                      with the volume reported by call_Fq
  (e) 4/3 pi R_eff^3 == V_form for modes named "equivalent (outer) volume sphere"   monodisperse; V_form is
      V_shell * (V_form/V_shell) from call_Fq
  (f) R_eff (every selectable mode), V_shell, V_form positive and finite
  (g) dispersed: <V_form>, <V_shell>, <R_eff> lie within [min, max] of the monodisperse values over the mesh
      points (a weighted mean cannot leave the range of its terms)

Every model also gets meshes that cross the 100-point chunk boundary of the DLL driver (one parameter with 101 and
120 points, two parameters 11x11 and 15x15), so the kernel is re-entered with pd_start > 0.

The spherically symmetric list is fixed here and cross-checked mechanically (no orientation parameter; 2-D
kernel identical at four azimuths).
"""
import itertools
import math
import re

import numpy as np

from .. import build, refmodel
from ..engine import R, HarnessError
from .c13 import rows, defaults, variables, moved, SLD_UNIT

ID = "C14"
TITLE = "Amplitude outputs <F>, <F^2>, effective radius and volumes are mutually consistent for every form factor"
LEVEL = "model_checking"
ENGINE = "E1"
TECHNIQUE = ("deviation-bounded exhaustive enumeration of (model, parameter set, dispersity configuration, R_eff mode, q) "
             "judged by the Cauchy-Schwarz bound, the q->0 and spherical-symmetry equalities and the volume identities")
RULE = ("every have_Fq model x every parameter set with <=D parameters off default x every dispersity configuration "
        "(off, each single dispersible parameter, pairs) x every mode; a configuration is non-trivial when <F^2> varies "
        "by more than 1% over the q list")
SPHERICAL = ["sphere", "core_shell_sphere", "core_multi_shell", "fuzzy_sphere", "onion", "spherical_sld", "vesicle",
             "multilayer_vesicle"]
QX = [1e-5, 1e-3, 0.1, 1.0, 5.0, 20.0]
QX_BIG = [1e-3, 5.0]     # chunk-crossing meshes: the mechanism does not depend on q, two points keep superball affordable
ASSUMPTIONS = [
    "call_Fq is the observation point: (<F>, <F^2>, R_eff, V_shell, V_form/V_shell); V_form = V_shell * ratio",
    "spherically symmetric models (fixed list, mechanically cross-checked): " + ", ".join(SPHERICAL),
    "a parameter set the model itself declares invalid (zero total weight) carries no claim",
    "DLL driver, double precision; dispersity = 5 points, relative width 0.15, 3 sigma (gaussian; thorough also schulz, rectangle)",
    "real-valued inputs are represented by the finite tables in coverage.bounds",
]
BOUNDS = {
    "quick": {"D": 1, "values_per_moved_parameter": 2, "q*size": QX, "modes": "all",
              "dispersity": "gaussian: off (all sets); each single dispersible parameter x (default + every parameter moved); "
                            "every pair of dispersible parameters (default set); meshes 101, 120, 11x11, 15x15 (default set)"},
    "thorough": {"D": 2, "values_per_moved_parameter": 2, "q*size": QX, "modes": "all",
                 "dispersity": "as quick + every pair x every parameter moved + schulz and rectangle for every single and pair; "
                               "meshes 101, 120, 11x11, 15x15 also with the first dispersible parameter moved"},
}
CASE_TIMEOUT = 600
SCALE, BACKGROUND = 1.7, 0.25
EQUIV = re.compile(r"^equivalent (outer )?volume sphere$")
PD = {"n": 5, "width": 0.15, "nsigma": 3.0}
PD_TYPES = ["gaussian", "schulz", "rectangle"]
BIG_1 = [101, 120]       # one dispersed parameter: 2 kernel invocations (100 + 1, 100 + 20)
BIG_2 = [11, 15]         # two dispersed parameters: 121 and 225 mesh points (2 and 3 invocations)


def models():
    return [m for m in build.compiled_models() if build.info(m).have_Fq]


def pd_names(info):
    """dispersible 1-D parameters: every scalar, elements 1 and 2 of vectors"""
    allowed = set(n for n, _ in variables(info))
    return [p.name for p in info.parameters.call_parameters if p.name in info.parameters.pd_1d and p.name in allowed]


def setup(ctx):
    bad = build.prebuild(ctx, models())
    if bad:
        raise HarnessError("models failed to build: %r" % bad)
    missing = [m for m in SPHERICAL if m not in models()]
    if missing:
        raise HarnessError("spherical list names models without amplitude output: %r" % missing)


def cases(ctx):
    out = []
    for m in models():
        info = build.info(m)
        names = [n for n, _ in variables(info)]
        pds = pd_names(info)
        pairs = [list(p) for p in itertools.combinations(pds, 2)]
        out.append({"model": m, "vary": [], "pd": []})
        for n in names:
            out.append({"model": m, "vary": [n], "pd": []})
        for p in pds:
            out.append({"model": m, "vary": [], "pd": [p]})
            for n in names:
                out.append({"model": m, "vary": [n], "pd": [p]})
        for pair in pairs:
            out.append({"model": m, "vary": [], "pd": pair})
        if not ctx.quick:
            for a, b in itertools.combinations(names, 2):
                out.append({"model": m, "vary": [a, b], "pd": []})
            for pair in pairs:
                for n in names:
                    out.append({"model": m, "vary": [n], "pd": pair})
            for t in PD_TYPES[1:]:
                for p in pds:
                    out.append({"model": m, "vary": [], "pd": [p], "pdtype": t})
                for pair in pairs:
                    out.append({"model": m, "vary": [], "pd": pair, "pdtype": t})
        # meshes that cross the 100-point chunk boundary of the DLL driver (kernel re-entered with pd_start > 0)
        for vary in ([[]] if ctx.quick else [[], [pds[0]]]) if pds else []:
            for n in BIG_1:
                out.append({"model": m, "vary": vary, "pd": [pds[0]], "npts": [n]})
            if pairs:
                for n in BIG_2:
                    out.append({"model": m, "vary": vary, "pd": pairs[0], "npts": [n, n]})
        if m in SPHERICAL:
            out.append({"model": m, "kind": "symmetry"})
    return out


def _fq(kernel, pars, mode):
    from sasmodels.direct_model import call_Fq
    with np.errstate(all="ignore"):
        F1, F2, reff, vshell, ratio = call_Fq(kernel, dict(pars, radius_effective_mode=mode))
    return (None if F1 is None else np.array(F1, float)), np.array(F2, float), float(reff), float(vshell), float(ratio)


def run_case(case, ctx):
    if case.get("kind") == "symmetry":
        return _run_symmetry(case, ctx)
    from sasmodels.direct_model import call_kernel
    r = R()
    m = build.model(case["model"])
    info = m.info
    fk = {"model": case["model"]}
    nmodes = len(info.radius_effective_modes or [])
    sets = []
    for combo in itertools.product(range(2), repeat=len(case["vary"])):
        pars = defaults(info)
        pars["scale"], pars["background"] = SCALE, BACKGROUND
        ok = True
        for n, which in zip(case["vary"], combo):
            v = moved(ctx, info, n, which)
            if v is None:
                ok = False
                break
            pars[n] = v
        if ok and pars not in sets:
            sets.append(pars)
    if not sets:
        return r.ok(outcome="no-admissible-value", branches=["no-admissible-value"])
    k1 = m.make_kernel([np.array([0.01])])
    ncalls = 0
    for base in sets:
        mono = not case["pd"]
        pars = dict(base)
        npts = case.get("npts") or [PD["n"]] * len(case["pd"])
        pdtype = case.get("pdtype", PD_TYPES[0])
        for p, n in zip(case["pd"], npts):
            pars[p + "_pd"], pars[p + "_pd_n"] = PD["width"], n
            pars[p + "_pd_type"], pars[p + "_pd_nsigma"] = pdtype, PD["nsigma"]
        desc = "%s pars=%s" % (case["model"], {k: v for k, v in sorted(pars.items())})
        # size from the monodisperse form volume
        try:
            _, _, _, vs_m, ratio_m = _fq(k1, base, 0)
        except Exception as exc:  # noqa
            r.fail("%s: call_Fq raised %r" % (desc, exc), dict(fk, clause="raises"))
            continue
        ncalls += 1
        vform_m = vs_m * ratio_m
        if vform_m == 0.0:
            r.ok(outcome="invalid-point", branches=["invalid-point"])
            continue
        if not (np.isfinite(vform_m) and vform_m > 0):
            r.fail("%s: call_Fq(mono) V_shell=%r V_form/V_shell=%r: form volume not positive and finite"
                   % (desc, vs_m, ratio_m), dict(fk, clause="positive", what="form_volume"))
            continue
        size = vform_m ** (1.0 / 3.0)
        qx = QX_BIG if "npts" in case else QX
        q = np.array(qx) / size
        kq = m.make_kernel([q])
        mode1 = 1 if nmodes else 0
        try:
            F1, F2, reff, vshell, ratio = _fq(kq, pars, mode1)
            Iq = None
            if "npts" not in case:      # chunk-crossing meshes: I(q) itself is C01's subject; skip the second mesh evaluation
                with np.errstate(all="ignore"):
                    Iq = np.array(call_kernel(kq, dict(pars)), float)
        except Exception as exc:  # noqa
            r.fail("%s: call_Fq/call_kernel raised %r" % (desc, exc), dict(fk, clause="raises"))
            continue
        ncalls += 2
        call = "call_Fq(%s, q=%s/%.6g)" % (desc, qx, size)
        if F1 is None:
            r.fail("%s: model declares have_Fq but <F> is None" % call, dict(fk, clause="no-F1"))
            continue
        br = ["mono" if mono else "pd%d" % len(case["pd"])]
        nt = bool(np.ptp(F2) > 0.01 * np.max(np.abs(F2)))
        bad = False
        # (a)
        if not (np.all(np.isfinite(F2)) and np.all(np.isfinite(F1))):
            r.inconc("non-finite amplitude")
            continue
        if np.any(F2 < 0):
            r.fail("%s: <F^2> negative: %s" % (call, F2), dict(fk, clause="F2-negative"), nt=nt)
            bad = True
        over = F1 ** 2 > F2 * (1 + 1e-9) + 1e-300
        if np.any(over):
            j = int(np.argmax(over))
            r.fail("%s: <F>^2 = %r exceeds <F^2> = %r at q*size=%g (ratio-1 = %.3g)\n  <F>=%s\n  <F^2>=%s"
                   % (call, float(F1[j] ** 2), float(F2[j]), qx[j], F1[j] ** 2 / F2[j] - 1, F1, F2),
                   dict(fk, clause="cauchy-schwarz", dispersity="mono" if mono else "pd"), nt=nt)
            bad = True
        # (b) forward limit
        if mono:
            if F2[0] <= 1e-8 * np.max(F2):
                r.inconc("vanishing forward scattering (contrast matched)")
            elif abs(F1[0] ** 2 - F2[0]) > 1e-6 * F2[0]:
                r.fail("%s: monodisperse q->0: <F>^2 = %r but <F^2> = %r (ratio-1 = %.3g)"
                       % (call, float(F1[0] ** 2), float(F2[0]), F1[0] ** 2 / F2[0] - 1), dict(fk, clause="forward-limit"), nt=nt)
                bad = True
            else:
                br.append("forward-limit-held")
        # (c) spherical symmetry
        if mono and case["model"] in SPHERICAL:
            tol = 1e-9 * F2 + 1e-24 * np.max(F2) + 1e-300
            d = np.abs(F1 ** 2 - F2)
            if np.any(d > tol):
                j = int(np.argmax(d / tol))
                r.fail("%s: spherically symmetric, monodisperse: <F>^2 = %r but <F^2> = %r at q*size=%g (ratio-1 = %.3g)"
                       % (call, float(F1[j] ** 2), float(F2[j]), qx[j], F1[j] ** 2 / F2[j] - 1), dict(fk, clause="spherical-equality"),
                       nt=nt)
                bad = True
            else:
                br.append("spherical-equality-held")
        # (d) intensity from the reported amplitude and volume
        want = pars["scale"] * F2 / vshell + pars["background"]
        ok = True
        if Iq is not None:
            ok, err = refmodel.close(Iq, want, np.abs(pars["scale"] * F2 / vshell) + abs(pars["background"]), rtol=1e-12)
        if not ok:
            r.fail("%s: call_kernel = %s but scale*<F^2>/V_shell + background = %s (V_shell=%r)"
                   % (call, Iq, want, vshell), dict(fk, clause="intensity"), nt=nt)
            bad = True
        # (e), (f): every selectable mode
        vform = vshell * ratio
        other_modes = {}
        big = "npts" in case        # chunk-crossing meshes: mode 1 only (every further mode costs a full mesh evaluation)
        for mode in range(1, nmodes + 1):
            if big and mode != mode1:
                continue
            name = info.radius_effective_modes[mode - 1]
            if mode == mode1:
                rm, vs, rt = reff, vshell, ratio
            else:
                try:
                    _, _, rm, vs, rt = _fq(k1, pars, mode)
                except Exception as exc:  # noqa
                    r.fail("%s mode %d: call_Fq raised %r" % (desc, mode, exc), dict(fk, clause="raises"))
                    bad = True
                    continue
                ncalls += 1
                other_modes[mode] = rm
            if not (np.isfinite(rm) and rm > 0):
                r.fail("call_Fq(%s, radius_effective_mode=%d %r): R_eff = %r is not positive and finite"
                       % (desc, mode, name, rm), dict(fk, clause="positive", what="radius_effective", mode=mode), nt=nt)
                bad = True
            else:
                r.branch("mode-positive")
            if not (np.isfinite(vs) and vs > 0 and np.isfinite(vs * rt) and vs * rt > 0):
                r.fail("call_Fq(%s, radius_effective_mode=%d): V_shell = %r, V_form = %r not positive and finite"
                       % (desc, mode, vs, vs * rt), dict(fk, clause="positive", what="volume"), nt=nt)
                bad = True
            if mono and EQUIV.match(name):
                vsph = 4.0 / 3.0 * math.pi * rm ** 3
                if abs(vsph - vs * rt) > 1e-12 * abs(vs * rt):
                    r.fail("call_Fq(%s, radius_effective_mode=%d %r): R_eff = %r gives 4/3 pi R^3 = %r but V_form = "
                           "V_shell*ratio = %r (ratio %.6g)" % (desc, mode, name, rm, vsph, vs * rt, vsph / (vs * rt)),
                           dict(fk, clause="equivalent-volume", mode=mode), nt=nt)
                    bad = True
                else:
                    r.branch("equivalent-volume-held")
        # (g) a weighted mean cannot leave the range of its terms
        if not mono:
            try:
                rng, npoints, nvalid = _mesh_range(info, k1, base, case["pd"], npts, pdtype, nmodes,
                                                    all_modes=not case["vary"])
            except Exception as exc:  # noqa
                r.fail("%s: monodisperse call_Fq over the mesh raised %r" % (desc, exc), dict(fk, clause="raises"))
                bad = True
                rng, npoints, nvalid = {}, 0, 0
            ncalls += npoints
            if npoints > 100:
                br.append("mesh>100")
            if nvalid:
                got = {("V_shell", 0): vshell, ("V_form", 0): vform}
                got[("R_eff", mode1)] = reff
                for mode, val in other_modes.items():
                    got[("R_eff", mode)] = val
                for key, val in sorted(got.items()):
                    if key not in rng or (key[0] == "R_eff" and key[1] == 0):
                        continue
                    lo, hi = rng[key]
                    if not (lo * (1 - 1e-12) <= val <= hi * (1 + 1e-12)):
                        what = key[0] + (" (mode %d %r)" % (key[1], info.radius_effective_modes[key[1] - 1])
                                         if key[0] == "R_eff" else "")
                        r.fail("call_Fq(%s): dispersity average <%s> = %r lies outside the range [%r, %r] of the "
                               "monodisperse values over the %d valid of %d mesh points (ratio to max %.6g)"
                               % (desc, what, val, lo, hi, nvalid, npoints, val / hi),
                               dict(fk, clause="mean-in-range", what=key[0]), nt=nt)
                        bad = True
                    else:
                        r.branch("mean-in-range-held")
        if nmodes == 0 and not (np.isfinite(vshell) and vshell > 0 and np.isfinite(vform) and vform > 0):
            r.fail("%s: V_shell = %r, V_form = %r not positive and finite" % (call, vshell, vform),
                   dict(fk, clause="positive", what="volume"), nt=nt)
            bad = True
        if not bad:
            r.ok(nt=nt, outcome="%s:%s" % (br[0], "nt" if nt else "flat"), branches=br + ["held"])
            if nt and not r.samples:
                r.sample({"call": call, "<F>": [float(v) for v in F1], "<F^2>": [float(v) for v in F2],
                          "R_eff": reff, "V_shell": vshell, "V_form": vform})
    r.trans = max(ncalls, 1)
    return r


def _mesh_range(info, k1, base, pd, npts, pdtype, nmodes, all_modes=True):
    """
    {(what, mode): (min, max)} of the MONODISPERSE outputs over the mesh points (points the model declares invalid
    are left out), the number of mesh points and the number of valid ones.  All modes for meshes of <= 25 points
    about the default parameter set, mode 1 only otherwise.
    """
    by_name = {p.name: p for p in info.parameters.call_parameters}
    grids = []
    for name, n in zip(pd, npts):
        x, w = refmodel.par_dist(by_name[name], pdtype, n, PD["width"], PD["nsigma"], base[name])
        grids.append([float(v) for v in x])
    npoints = int(np.prod([len(g) for g in grids]))
    modes = list(range(1, nmodes + 1)) if (npoints <= 25 and all_modes) else ([1] if nmodes else [])
    acc = {}

    def note(key, v):
        lo, hi = acc.get(key, (v, v))
        acc[key] = (min(lo, v), max(hi, v))
    nvalid = 0
    point = dict(base)
    for combo in itertools.product(*grids):
        for name, v in zip(pd, combo):
            point[name] = v
        first = True
        for mode in (modes or [0]):
            _, _, rm, vs, rt = _fq(k1, point, mode)
            if vs * rt == 0.0:
                break
            if first:
                nvalid += 1
                note(("V_shell", 0), vs)
                note(("V_form", 0), vs * rt)
                first = False
            if mode:
                note(("R_eff", mode), rm)
    return acc, npoints, nvalid


def _run_symmetry(case, ctx):
    """mechanical cross-check of the spherical list"""
    from sasmodels.direct_model import call_kernel
    r = R()
    m = build.model(case["model"])
    info = m.info
    fk = {"model": case["model"], "clause": "spherical-list"}
    if info.parameters.orientation_parameters:
        return r.fail("%s is listed as spherically symmetric but has orientation parameters %s"
                      % (case["model"], [p.name for p in info.parameters.orientation_parameters]), fk)
    pars = defaults(info)
    qmag = np.array([0.013, 0.11])
    vals = []
    for az in (0.0, 0.7, math.pi / 2, 2.5):
        k = m.make_kernel([qmag * math.cos(az), qmag * math.sin(az)])
        vals.append(np.array(call_kernel(k, dict(pars)), float))
    k1 = m.make_kernel([qmag])
    v1 = np.array(call_kernel(k1, dict(pars)), float)
    for v in vals:
        if not np.allclose(v, v1, rtol=1e-12, atol=0):
            return r.fail("%s: 2-D kernel at |q|=%s gives %s, %s, %s, %s at four azimuths, 1-D gives %s"
                          % (case["model"], qmag, vals[0], vals[1], vals[2], vals[3], v1), fk)
    return r.ok(nt=True, outcome="isotropic", trans=5, branches=["spherical-list-checked"])


def finish(ctx, report):
    report.require("held", 400, "configurations judged")
    report.require("mono", 200, "monodisperse configurations")
    report.require("pd1", 60, "one dispersed parameter")
    report.require("pd2", 20, "two dispersed parameters")
    report.require("forward-limit-held", 200, "q->0 equality")
    report.require("spherical-equality-held", 40, "spherical equality at all q")
    report.require("equivalent-volume-held", 100, "equivalent volume sphere modes")
    report.require("mode-positive", 1000, "effective radius modes")
    report.require("spherical-list-checked", len(SPHERICAL), "spherical list cross-check")
    report.require("mesh>100", 2 * len(models()), "dispersity meshes beyond the 100-point chunk of the DLL driver")
    report.require("mean-in-range-held", 1000, "dispersity averages inside the range of their terms")
    report.coverage["spherically_symmetric_models"] = SPHERICAL
    report.coverage["models"] = models()

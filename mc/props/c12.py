"""
C12 - the 1-D intensity of an oriented model is the orientational average of its 2-D intensity.

Space: every oriented model x shape parameter sets (defaults; every single shape ("volume") parameter
scaled by a small and by a large factor; in the thorough tier also by their squares, and every pair of
them scaled, 2 x 2 factor combinations) x q with q*size in {0.1, 0.5, 1, 2, 5, 10, 20}, size = cube root of the form volume.
Two base sets per model: the defaults, and the "activated" base in which every SLD-type parameter (solvent
included) gets a distinct value so that no contrast term cancels (core_shell_cylinder defaults have
sld_core = sld_shell), every non-SLD, non-orientation parameter whose default 0 switches an effect off gets a
non-zero value inside its limits (stacked_disks sigma_d, ..._belt_rough sigma) and every count-like parameter
with default 1 (n_stacking) is 3;
the moves are applied on top of both.  Moved are ALL shape parameters, i.e. every scalar parameter that is neither an
SLD nor an orientation - the volume parameters and the others (paracrystal dnn and d_factor, sigma_d, sigma).
Aspect inversion: for every pair of shape parameters with the same unit, sets in which their ORDER is inverted
relative to the base (quick: the two values swapped, on the activated base; thorough: swapped, exactly equal, and
inverted with ratio 2, on both bases; pairs equal by default get both orders), and every dimensionless ratio
inverted (v -> 1/v): visits every branch that depends on which of two sizes is larger (prolate/oblate ellipsoids,
length < radius, side orderings).
Extreme ratio: for every pair of same-unit shape parameters one is pushed to 1e-2 and 1e-3 of the other, in both
directions (thin walls, flat discs, long needles, thin shells), and every dimensionless volume parameter (itself a
ratio of sizes) to 1e-2, 1e-3 and the inverses; quick: on the activated base; thorough: on both bases.  These sets
use q*size in {0.1, 0.5, 2, 10} (the Guinier region included: everything converges there and a wrong Jacobian or
normalisation of a special-cased regime shows at full size) and q*L in {1, 10} for BOTH lengths of the pair.
q menu: q*size as above, plus q = {0.7, 1, 1.4, 2, 3} x 2 pi / L for every length L that is not a volume parameter
(the lattice spacing dnn of the paracrystals sets its own q scale).
One case = one (model, base, parameter set); the q values are looped inside.

Decidability is graded (why the paracrystals escaped before: at d_factor = 0.06 their 150- and 76-point tables
differ by 1e-2 ... 0.7 wherever the lattice factor differs from 1, so every such point was inconclusive and the
only decidable points sat where the lattice factor is 1 to rounding): table disagreement e <= 1e-6 is judged at
1e-5 + 40 e as before; 1e-6 < e <= 2e-3 is judged too ("decidable-coarse") at the same formula 1e-5 + 40 e (<= 8 %),
against a reference converged to 1 % of that tolerance.  Together with the d_factor moves this judges bcc/fcc/sc
around their first lattice peaks, and superball everywhere.  A per-model vacuity guard requires decidable
non-trivial points for EVERY oriented model (exit 2 otherwise).  A non-finite 1-D value where the average is finite
is a violation (clause "non-finite").

Oracle: composite Gauss-Legendre average over the FULL sphere (2 panels in cos(alpha) x 4 panels in
beta for triaxial shapes, 2 panels for shapes of revolution; no symmetry of the model is assumed) of
the model's own particle-frame intensity Iqac/Iqabc, evaluated through the shim (mc.shim; the summation
loop runs in C, directions and weights are supplied from here).  The order n per panel is doubled along
a ladder until two successive orders agree to 1e-7; if the ladder ends first, the point is inconclusive.
The model's own integration is judged by re-running the model's own Fq/Iq compiled with another
Gauss-Legendre table (150 points for the 76-point models, 76 points for the 150- and 20-point models): a point is decidable only if
the two agree to e <= 1e-6.  On decidable points the 1-D result must agree with the average to 1e-5 + 40 e
(everything normalised by the SHELL volume), and so must <F^2> returned by call_Fq.  (A fixed 1e-5 raised a
false alarm at seed 7: both tables of bcc_paracrystal agree to 8e-7 yet sit 2.5e-5 from the converged
average; a systematic defect moves both tables alike and is still caught.)
"""
import functools
import itertools

import numpy as np

from .. import build, shim
from ..engine import R, HarnessError

ID = "C12"
TITLE = "1-D intensity is the orientational average of the model's 2-D intensity"
LEVEL = "model_checking"
ENGINE = "E1"
TECHNIQUE = ("exhaustive enumeration of an aspect-ratio alphabet x q*size grid on every oriented model; the 1-D kernel is "
             "compared with a converged full-sphere Gauss-Legendre average of the model's own Iqac/Iqabc (compiled shim), "
             "restricted to points where the model's own quadrature is converged under a change of its Gauss table")
RULE = ("all (model, parameter set, q) with parameter sets = defaults, each shape parameter x {small, large} (thorough: "
        "also x {small^2, large^2} and every pair x {small, large}^2), every same-unit pair with inverted order, q*size in 7 steps "
        "+ q in units of 2pi/(non-volume length); non-trivial = decidable point whose I(q) differs from "
        "I(q->0) by > 1 %; points where either quadrature is not converged are counted as inconclusive, never judged")
ASSUMPTIONS = [
    "the model's own Iqac/Iqabc, reached through wrappers appended to the generated source, define the 2-D intensity "
    "(the shim contains no physics; directions/weights of the average come from numpy.polynomial.legendre.leggauss)",
    "reference converged = two successive ladder orders agree to 1e-7; model converged = native vs alternative "
    "Gauss table agree to e <= 1e-6; verdict tolerance 1e-5 + 40 e relative (<= 5e-5)",
    "DLL driver only; shape parameters and q are drawn from the finite alphabet in coverage.bounds",
]
QSIZE = [0.1, 0.5, 1.0, 2.0, 5.0, 10.0, 20.0]
FACTORS = [(0.25, 4.0), (0.3, 3.3), (0.2, 5.0), (0.35, 2.8), (0.27, 3.7), (0.22, 4.5), (0.32, 3.1), (0.24, 4.2)]
QTWEAK = [1.0, 1.07, 0.93, 1.13, 0.88, 1.03, 0.97, 1.1]
LADDER = {"quick": [12, 24, 48, 96, 192], "thorough": [12, 24, 48, 96, 192, 384]}
BOUNDS = {
    "quick": {"models": "all 21 oriented models", "parameter_sets": "bases {defaults, activated: all SLDs distinct, zero-default parameters non-zero, counts = 3} x "
                                "(unchanged + each shape parameter, volume or not, x {1/4, 4}, seed-rotated) + on the activated "
                                "base every same-unit pair swapped and every dimensionless ratio inverted",
              "q_lattice": "q = {0.7,1,1.4,2,3} x 2pi/L for every non-volume length L", "model_tol_coarse": 2e-3,
              "q*size": QSIZE, "ladder": LADDER["quick"], "ref_tol": 1e-7, "model_tol": 1e-6, "verdict_tol": "1e-5 + 40 * table disagreement"},
    "thorough": {"models": "all 21 oriented models",
                 "parameter_sets": "bases {defaults, activated} x (unchanged + each shape parameter x {1/16, 1/4, 4, 16} + every pair "
                                   "x {1/4, 4}^2 + every same-unit pair {swapped, equal, inverted ratio 2} + ratios inverted)",
                 "q_lattice": "q = {0.7,1,1.4,2,3} x 2pi/L for every non-volume length L", "model_tol_coarse": 2e-3,
                 "q*size": QSIZE, "ladder": LADDER["thorough"], "ref_tol": 1e-7, "model_tol": 1e-6, "verdict_tol": "1e-5 + 40 * table disagreement"},
}
CASE_TIMEOUT = 900
REF_TOL, MODEL_TOL, TOL = 1e-7, 1e-6, 1e-5
# Graded decidability: a point whose two Gauss tables disagree by 1e-6 < e <= MODEL_TOL_COARSE is still judged, with the
# verdict tolerance TOL + TABLE_GAIN * e that grows with e (<= 8 %) and a reference converged to 1 % of that tolerance.
# Without it the paracrystal models are only ever judged where their lattice factor is 1 to rounding (q far above the
# last visible peak), i.e. never on what distinguishes them; gross 1-D/2-D inconsistencies (a different lattice, a
# swapped axis) are factors, not per cent.
MODEL_TOL_COARSE = 2e-3
QLATTICE = [0.7, 1.0, 1.4, 2.0, 3.0]     # q in units of 2 pi / L for every length L that is not a volume parameter (dnn)
NT_PER_MODEL = {"quick": 6, "thorough": 12}
TABLE_GAIN = 40.0      # verdict tolerance = TOL + TABLE_GAIN * (relative disagreement of the model's two Gauss tables)


def oriented_models():
    return [n for n in build.compiled_models() if build.info(n).parameters.orientation_parameters]


def alt_gauss(info):
    g = shim.gauss_size(info)
    if g is None:
        return None
    # 150 points for the 76-point models; 76 for those that use 150 already, and for the 20-point model
    # (superball: a triple integral, 150^3 evaluations per q are out of reach)
    return 150 if g == 76 else 76


def volume_pars(info):
    return [p for p in info.parameters.kernel_parameters if p.type == "volume" and p.length == 1]


def shape_pars(info):
    """every scalar parameter that is neither an SLD nor an orientation: volume parameters AND the others (dnn, d_factor,
    sigma_d, sigma, ...) - all of them are moved"""
    return [p for p in info.parameters.kernel_parameters
            if p.type not in ("sld", "orientation", "magnetic") and p.length == 1]


def unit_of(p):
    u = (p.units or "").strip()
    return "" if u in ("", "None") else u


def inversions(info, vals, quick):
    """
    aspect inversion: for every pair of shape parameters with the same unit, parameter sets in which their ORDER is
    inverted relative to the base values (swap; thorough: also exactly equal, and inverted with ratio 2 about the same
    geometric mean), so that every branch depending on which of two sizes is the larger is visited (prolate/oblate,
    length < radius, side orderings ...); and every dimensionless ratio-like parameter inverted (v -> 1/v).
    Returns a list of {name: value}.
    """
    out = []
    pars = [p for p in shape_pars(info) if not is_count(p) and vals[p.name] > 0]
    inside = lambda p, v: p.limits[0] <= v <= p.limits[1]
    for p1, p2 in itertools.combinations(pars, 2):
        if unit_of(p1) != unit_of(p2):
            continue
        a, b = float(vals[p1.name]), float(vals[p2.name])
        menu = []
        if a != b:
            menu.append((b, a))
            if not quick:
                g = (a * b) ** 0.5
                menu.append((g, g))
                menu.append((g * 2 ** 0.5, g / 2 ** 0.5) if a < b else (g / 2 ** 0.5, g * 2 ** 0.5))
        elif not quick:
            menu += [(2.0 * a, b), (a, 2.0 * b)]       # equal by default (b2a_ratio = c2a_ratio = 1): both orders
        for v1, v2 in menu:
            if inside(p1, v1) and inside(p2, v2):
                out.append({p1.name: v1, p2.name: v2})
    for p in pars:
        v = float(vals[p.name])
        if unit_of(p) == "" and v != 1.0 and inside(p, 1.0 / v):
            out.append({p.name: 1.0 / v})
    return out


EXTREME = (1e-2, 1e-3)
QPAIR = [1.0, 10.0]               # q*L for BOTH lengths of an extreme pair
# q*size menu on the extreme sets: includes the Guinier region (0.1, 0.5), where both quadratures converge trivially
# and a wrong normalisation / Jacobian of a special-cased regime (needle, thin wall) shows at full size
QSIZE_EXTREME = [0.1, 0.5, 2.0, 10.0]


def extremes(info, vals, ctx):
    """
    extreme ratio: for every pair of shape parameters with the same unit, one of the two pushed to 1e-2 and 1e-3 of the
    other (which keeps its base value), in both directions - thin walls, flat discs, long needles, thin shells; and every
    dimensionless volume parameter (itself a ratio of sizes: x_core, axis_ratio, b2a_ratio ...) set to 1e-2, 1e-3 and
    their inverses.  Both ratios and both directions in both tiers (quick: on the activated base only; a ratio of
    exactly 1e-2 can sit ON a regime threshold such as length > 100*radius, so 1e-3 is needed as well).  Returns a list of ({name: value}, [names whose lengths tie the q menu]).
    """
    out = []
    pars = [p for p in shape_pars(info) if not is_count(p) and vals[p.name] > 0]
    inside = lambda p, v: p.limits[0] <= v <= p.limits[1]
    k = 0
    for p1, p2 in itertools.combinations(pars, 2):
        if unit_of(p1) != unit_of(p2):
            continue
        k += 1
        for r in EXTREME:
            for small, large in ((p1, p2), (p2, p1)):
                v = r * float(vals[large.name])
                if inside(small, v):
                    out.append(({small.name: v}, [small.name, large.name] if unit_of(p1) else []))
    for p in pars:
        if unit_of(p) == "" and p.type == "volume":
            k += 1
            for r in EXTREME:
                for v in (r, 1.0 / r):
                    if inside(p, v):
                        out.append(({p.name: v}, []))
    return out


def setup(ctx):
    om = oriented_models()
    if len(om) < 21:
        raise HarnessError("expected >= 21 oriented models, found %d" % len(om))
    bad = build.prebuild(ctx, om)
    if bad:
        raise HarnessError("models failed to build: %r" % bad)
    items = [(n, None) for n in om]
    items += [(n, alt_gauss(build.info(n))) for n in om if alt_gauss(build.info(n)) is not None]
    paths = shim.build_all(ctx, items)
    ctx.notes["shim"] = {"%s|%s" % (n, g): p for (n, g), p in paths.items()}


ACT_LENGTH = (5.0, 3.0, 8.0, 4.0, 6.5, 2.5, 7.0, 3.5)          # Ang: zero-default lengths (roughness, ...)
ACT_PLAIN = (0.3, 0.2, 0.4, 0.25, 0.35, 0.15, 0.45, 0.28)       # dimensionless zero-default parameters
ACT_COUNT = 3.0
# distinct, unevenly spaced SLDs (1e-6/Ang^2): no contrast term (sld_a - sld_b) vanishes and no two contrasts are equal
ACT_SLD = (1.0, 2.7, 5.3, 6.1, 8.9, 9.6, 12.2, 13.1, 15.8, 16.4)


def is_count(p):
    """documented as a number of repeats (n_stacking, n_shells, ...) with default 1"""
    d = (p.description or "").strip().lower()
    return p.default == 1 and p.length == 1 and (p.name.startswith("n_") or d.startswith("number of")
                                                 or d.startswith("number "))


def activated(info, ctx):
    """
    the "activated" base: every non-SLD, non-orientation parameter whose default 0 switches an effect off gets a
    representative non-zero value inside its limits (seed-rotated), every count-like parameter with default 1 is
    raised to 3, and every SLD-type parameter (solvent included) gets a DISTINCT value (seed-rotated), so that no
    contrast term cancels the way it may at the defaults (core_shell_cylinder: sld_core = sld_shell = 4).
    Returns {name: value}.
    """
    out = {}
    slds = [p for p in info.parameters.kernel_parameters if p.type == "sld" and p.length == 1]
    if len(slds) > len(ACT_SLD):
        raise HarnessError("%s: more SLD parameters than prepared distinct values" % info.id)
    for k, p in enumerate(slds):
        v = ACT_SLD[(k + ctx.seed) % len(ACT_SLD)]
        if not p.limits[0] <= v <= p.limits[1]:
            raise HarnessError("%s: SLD value %g outside the limits of %s" % (info.id, v, p.name))
        out[p.name] = float(v)
    for k, p in enumerate(info.parameters.kernel_parameters):
        if p.type in ("sld", "orientation", "magnetic") or p.length != 1:
            continue
        lo, hi = p.limits
        v = None
        if is_count(p):
            v = ACT_COUNT
        elif p.default == 0:
            v = ctx.rot(ACT_LENGTH if "Ang" in (p.units or "") else ACT_PLAIN, k)
            if not lo <= v <= hi:
                v = -v if lo <= -v <= hi else (0.5 * (lo + hi) if np.isfinite(lo) and np.isfinite(hi) else None)
        if v is not None and lo <= v <= hi and v != p.default:
            out[p.name] = float(v)
    return out


def base_values(info, ctx, base):
    vals = {p.name: p.default for p in info.parameters.call_parameters}
    if base == "activated":
        vals.update(activated(info, ctx))
    return vals


def cases(ctx):
    out = []
    lo, hi = ctx.rot(FACTORS)
    for m in oriented_models():
        info = build.info(m)
        vol = shape_pars(info)
        bases = ["default"] + (["activated"] if activated(info, ctx) else [])
        for base in bases:
            vals = base_values(info, ctx, base)
            tag = {} if base == "default" else {"base": base}
            ok = lambda p, f: vals[p.name] != 0 and p.limits[0] <= vals[p.name] * f <= p.limits[1]
            out.append(dict({"model": m, "scaled": {}}, **tag))
            # quick: inversions on the activated base (every effect switched on); thorough: on both bases
            if base == "activated" or not ctx.quick:
                for sets in inversions(info, vals, ctx.quick):
                    out.append(dict({"model": m, "scaled": {}, "set": sets}, **tag))
                for sets, tied in extremes(info, vals, ctx):
                    out.append(dict({"model": m, "scaled": {}, "set": sets, "extreme": tied}, **tag))
            singles = (lo, hi) if ctx.quick else (lo, hi, lo * lo, hi * hi)
            for p in vol:
                for f in singles:
                    if ok(p, f):
                        out.append(dict({"model": m, "scaled": {p.name: f}}, **tag))
            if not ctx.quick:
                for p1, p2 in itertools.combinations(vol, 2):
                    for f1 in (lo, hi):
                        for f2 in (lo, hi):
                            if ok(p1, f1) and ok(p2, f2):
                                out.append(dict({"model": m, "scaled": {p1.name: f1, p2.name: f2}}, **tag))
    return out


# ------------------------------------------------------------------------------------------------
# directions on the sphere

@functools.lru_cache(maxsize=4)
def sphere_rule(n, revolution):
    """
    composite Gauss-Legendre rule of order n per panel on the full sphere: u = cos(alpha) in [-1,0],[0,1];
    beta in four quadrants (a single meridian for shapes of revolution).  Returns (dirs[N,3], w[N]), sum(w)=1.
    """
    z, wz = np.polynomial.legendre.leggauss(n)
    u = np.concatenate([0.5 * z - 0.5, 0.5 * z + 0.5])
    wu = np.concatenate([wz, wz]) / 4.0
    s = np.sqrt(1.0 - u * u)
    if revolution:
        dirs = np.stack([s, np.zeros_like(u), u], axis=1)
        return np.ascontiguousarray(dirs), wu.copy()
    beta = np.concatenate([(0.25 * np.pi) * (z + 1.0) + k * 0.5 * np.pi for k in range(4)])
    wb = np.concatenate([wz] * 4) / 8.0
    cb, sb = np.cos(beta), np.sin(beta)
    dirs = np.empty((len(u), len(beta), 3))
    dirs[:, :, 0] = s[:, None] * cb[None, :]
    dirs[:, :, 1] = s[:, None] * sb[None, :]
    dirs[:, :, 2] = u[:, None]
    w = wu[:, None] * wb[None, :]
    return np.ascontiguousarray(dirs.reshape(-1, 3)), np.ascontiguousarray(w.reshape(-1))


def sphere_average(sh, q, p, ladder, rtol=None):
    """
    Returns (avg[nq], converged[nq] bool, order[nq]) : ladder of composite rules.  A q is converged when successive
    orders agree to rtol[k] (default REF_TOL; the finest value is returned): ONE agreement (two rungs) for the strict
    tolerance 1e-7, TWO agreements in a row (three rungs) for any looser tolerance, because two under-resolved orders
    of a rapidly oscillating integrand can agree to 1e-3 by accident (triaxial_ellipsoid radii (20, 0.1, 10) at
    q = 29.1: orders 24 and 48 agree to 2.8e-4 and are both 13 % off; a false alarm at seed 6 before this rule).
    """
    q = np.asarray(q, float)
    rtol = np.full(len(q), REF_TOL) if rtol is None else np.asarray(rtol, float)
    need = np.where(rtol <= REF_TOL, 1, 2)
    revolution = sh.mode == 2
    avg = np.full(len(q), np.nan)
    conv = np.zeros(len(q), bool)
    order = np.zeros(len(q), int)
    streak = np.zeros(len(q), int)
    todo = np.arange(len(q))
    prev = None
    for n in ladder:
        dirs, w = sphere_rule(n, revolution)
        val, _ = sh.avg(q[todo], p, dirs, w)
        avg[todo] = val
        order[todo] = n
        if prev is not None:
            with np.errstate(all="ignore"):
                agree = (np.abs(val - prev) <= rtol[todo] * np.abs(val)) & np.isfinite(val)
            streak[todo] = np.where(agree, streak[todo] + 1, 0)
            done = streak[todo] >= need[todo]
            conv[todo[done]] = True
            todo, val = todo[~done], val[~done]
        prev = val
        if len(todo) == 0:
            break
    return avg, conv, order


# ------------------------------------------------------------------------------------------------

def run_case(case, ctx):
    from sasmodels.direct_model import call_kernel, call_Fq
    r = R()
    name = case["model"]
    m = build.model(name)
    info = m.info
    sh = shim.load(ctx.notes["shim"]["%s|None" % name], name)
    galt = alt_gauss(info)
    sh_alt = shim.load(ctx.notes["shim"]["%s|%s" % (name, galt)], name) if galt else None
    if sh.mode not in (2, 3):
        raise HarnessError("%s: shim found no Iqac/Iqabc" % name)
    base = case.get("base", "default")
    pars = base_values(info, ctx, base)
    for k, f in case["scaled"].items():
        pars[k] = pars[k] * f
    for k, v in (case.get("set") or {}).items():
        pars[k] = float(v)
    pars["scale"], pars["background"] = 1.0, 0.0
    p = sh.pvec(pars)
    fk = {"model": name, "clause": "Iq-vs-average"}
    moved = list(case["scaled"]) + list(case.get("set") or {})
    shown = dict(activated(info, ctx) if base == "activated" else {}, **{k: pars[k] for k in moved}) or "defaults"
    if not sh.valid(p):
        return r.inconc("parameter-set-invalid")
    form, shell = sh.volumes(p)
    if not (np.isfinite(form) and form > 0 and np.isfinite(shell) and shell > 0):
        return r.inconc("volume-not-positive")
    size = form ** (1.0 / 3.0)
    tweak = ctx.rot(QTWEAK)
    extreme = case.get("extreme")
    qsize = QSIZE if extreme is None else QSIZE_EXTREME
    qlist = [1e-3 / size] + [x * tweak / size for x in qsize]
    qlabel = [None] + [{"q*size": x * tweak} for x in qsize]
    for nm in (extreme or []):
        # extreme pair of lengths: q tied to BOTH of them, q*L_small and q*L_large of order 1..10
        for x in QPAIR:
            qlist.append(x * tweak / pars[nm])
            qlabel.append({"q*%s" % nm: x * tweak})
    for pp in shape_pars(info):
        # a length that does not enter the volume (dnn) sets its own q scale: q in units of 2 pi / L
        if pp.type != "volume" and "Ang" in unit_of(pp) and pars[pp.name] > 0:
            for x in QLATTICE:
                qlist.append(x * tweak * 2.0 * np.pi / pars[pp.name])
                qlabel.append({"q*%s/2pi" % pp.name: x * tweak})
    q = np.array(qlist)
    kernel = m.make_kernel([q.copy()])
    try:
        with np.errstate(all="ignore"):
            I1 = np.array(call_kernel(kernel, pars, cutoff=0.0), float)
            F2 = None
            if info.have_Fq:
                F2 = np.array(call_Fq(kernel, dict(pars))[1], float)
    except Exception as exc:  # noqa
        return r.fail("%s %s: 1-D evaluation at q=%s raised %r" % (name, shown, q, exc), dict(fk, clause="raises"))
    with np.errstate(all="ignore"):
        Ialt = sh_alt.Fq(q, p)[1] / shell if sh_alt is not None else I1
        e_model = np.abs(I1 - Ialt) / np.abs(I1)
        model_ok = e_model <= MODEL_TOL_COARSE
        strict = e_model <= MODEL_TOL
        tol_q = TOL + TABLE_GAIN * np.where(np.isfinite(e_model), e_model, 0.0)
        # the reference is only needed where the model's own integration is converged (strictly or coarsely) - and
        # where the model returns something non-finite, which is a violation if the average itself is finite
        ref, ref_ok, order = np.full(len(q), np.nan), np.zeros(len(q), bool), np.zeros(len(q), int)
        use = np.flatnonzero((model_ok & (I1 > 0)) | ~np.isfinite(I1))
        if len(use):
            rtol = np.where(strict[use], REF_TOL, 0.01 * tol_q[use])
            ref[use], ref_ok[use], order[use] = sphere_average(sh, q[use], p, LADDER[ctx.tier], rtol)
    ref_I = ref / shell
    for k in range(1, len(q)):
        sub = dict({"q": float(q[k])}, **qlabel[k])
        br = ["hollow"] if shell != form else []
        if base == "activated":
            br.append("activated-base")
            sv = [pars[pp.name] for pp in info.parameters.kernel_parameters if pp.type == "sld"]
            if len(sv) >= 2 and len(set(sv)) == len(sv):
                br.append("all-SLDs-distinct")
        if not np.isfinite(I1[k]):
            if ref_ok[k] and np.isfinite(ref_I[k]):
                r.fail("%s, %s, q=%.10g: call_kernel 1-D returns %r where the full-sphere average of the 2-D intensity / "
                       "V_shell is %.12g" % (name, shown, q[k], float(I1[k]), ref_I[k]), dict(fk, clause="non-finite"),
                       sub, trans=2, branches=br)
            else:
                r.inconc("model-and-reference-not-finite")
            continue
        if I1[k] <= 0:
            r.inconc("model-not-positive")
            continue
        if not model_ok[k]:
            r.inconc("model-integration-not-converged", trans=2)
            continue
        if not ref_ok[k]:
            r.inconc("reference-not-converged", trans=2)
            continue
        nt = bool(abs(I1[k] - I1[0]) > 0.01 * abs(I1[0]))
        br.append("decidable" if strict[k] else "decidable-coarse")
        if nt:
            br.append("nt:" + name)
        if any(key.endswith("/2pi") for key in qlabel[k]):
            br.append("lattice-q")
        if extreme is not None:
            br.append("extreme-ratio")
        elif case.get("set"):
            br.append("inverted")
        if any(pp.type != "volume" and pp.name in moved for pp in shape_pars(info)):
            br.append("non-volume-moved")
        if galt:
            br.append("gauss-switch:%s" % galt)
        if order[k] > 48:
            br.append("ladder-refined")
        detail = ("%s, %s, q=%.10g (q*size=%.3g): call_kernel 1-D (scale=1, background=0) = %.12g; full-sphere average of "
                  "%s / V_shell = %.12g (order %d per panel, converged to %.0e); relative difference %+.4g; "
                  "model with gauss%s table = %.12g (tables differ by %.1e, tolerance %.1e)"
                  % (name, shown, q[k], q[k] * size, I1[k], "Iqac" if sh.mode == 2 else "Iqabc", ref_I[k], order[k],
                     REF_TOL if strict[k] else 0.01 * tol_q[k], (I1[k] - ref_I[k]) / ref_I[k], galt, Ialt[k],
                     e_model[k], tol_q[k]))
        # Agreement of the two Gauss tables to e does not bound the quadrature error by e for peaked integrands
        # (bcc_paracrystal radius=9.6, q*size=5.5: tables agree to 8e-7, both are 2.5e-5 from the converged
        # average), so the verdict tolerance grows with the observed table disagreement: 1e-5 + 40 e <= 5e-5.
        tol_k = tol_q[k]
        if not abs(I1[k] - ref_I[k]) <= tol_k * abs(ref_I[k]):
            r.fail(detail, fk, sub, nt=nt, trans=2, branches=br)
            continue
        if F2 is not None and not abs(F2[k] - ref[k]) <= tol_k * abs(ref[k]):
            r.fail("%s, %s, q=%.10g: call_Fq <F^2> = %.12g; full-sphere average of the 2-D intensity = %.12g "
                   "(relative difference %+.4g) although I(q) agrees" % (name, shown, q[k], F2[k], ref[k],
                                                                           (F2[k] - ref[k]) / ref[k]),
                   dict(fk, clause="F2-vs-average"), sub, nt=nt, trans=3, branches=br)
            continue
        if F2 is not None:
            br.append("F2-checked")
        r.ok(nt=nt, outcome="agree:%s" % ("nt" if nt else "guinier"), trans=3, branches=br + (["nontrivial"] if nt else []))
        if nt and len(r.samples) < 1:
            r.sample({"model": name, "pars": shown, "q": float(q[k]), "I1d": float(I1[k]), "average": float(ref_I[k]),
                      "order": int(order[k])})
    kernel.release()
    return r


def finish(ctx, report):
    report.require("decidable", 300, "points where both quadratures converged")
    report.require("nontrivial", 150, "decidable points away from the Guinier plateau")
    report.require("hollow", 20, "hollow shapes (shell volume != form volume)")
    report.require("F2-checked", 150, "<F^2> from call_Fq compared")
    report.require("ladder-refined", 20, "reference needed more than the first two ladder orders")
    report.require("activated-base", 300, "decidable points on the base with zero-default / count-like parameters activated")
    report.require("all-SLDs-distinct", 300, "decidable points with every SLD (solvent included) different from every other")
    report.require("gauss-switch:150", 100, "model re-integrated with the 150-point table")
    report.require("gauss-switch:76", 1, "model with a native 150-point table re-integrated with 76 points")
    report.require("extreme-ratio", 150, "decidable points on parameter sets with a size ratio pushed to 1e-2 / 1e-3")
    report.require("inverted", 200, "decidable points on parameter sets with the order of two sizes inverted")
    report.require("non-volume-moved", 30, "decidable points with a non-volume shape parameter (dnn, d_factor, sigma...) moved")
    report.require("lattice-q", 10, "decidable points on the q menu in units of 2 pi / (non-volume length)")
    report.require("decidable-coarse", 30, "points judged with the graded tolerance")
    # every oriented model must really be judged: decidable points away from the Guinier plateau, per model
    for m in oriented_models():
        report.require("nt:" + m, NT_PER_MODEL[ctx.tier], "decidable non-trivial points of " + m)

"""
C16 - a reparameterised model equals its base model at the translated parameters.

Program space (enumerated exhaustively from the grammar below; one case = one derived model = one C
program, compiled by exactly one worker; base models are pre-built serially in setup):

  base      ::= sphere | ellipsoid | cylinder [valid] | barbell [two-parameter valid] | hollow_cylinder [shell]
              | core_shell_sphere | parallelepiped [psi] | vesicle [own volfraction] | lamellar
              | triaxial_ellipsoid
              | @gen   (generated C plug-in: one-letter volume parameter `a`, validity predicate a <= bb, shell
                        volume, two R_eff modes, complete C functions incl. Fq in c_code)
              | @gen2  (the same model with the parameter named `aa` and form_volume / shell_volume / Iq given
                        as C function BODIES, the style of lamellar)
  replaced  ::= one replaceable base parameter (every volume parameter, plus listed scalar ones)
              | an (ordered, table-order) pair of volume parameters
  template  ::= size 1: affine | affine-neg (mesh reaches negative base values) | power | ratio (uses a
                        retained base parameter) | cond (C conditional) | interm1 | interm2 (second
                        intermediate uses the first) | prefix (identifiers r, r2, r2_x) | offset (sld)
              | size 2: affine2 | volecc (documented volume/eccentricity example) | chain2 | prefix2 | shared
              | size 3 (all three volume parameters of barbell, hollow_cylinder, parallelepiped, triaxial_ellipsoid):
                        affine3 | scale3 (one new parameter, one intermediate)
  same-name ::= the new parameter is NAMED like the base parameter it replaces (same-affine | same-power; size 2:
              same2-first | same2-second | same2-both)
  signed    ::= affine-signed: the new volume-typed parameter has limits [-inf, inf] and takes negative (default), zero
              and positive values, with dispersity on it (relative width about a negative centre)
  validity  ::= for every base with a `valid` clause (cylinder, barbell, capped_cylinder, mass_surface_fractal, @gen
              a <= bb, @gen2 1.5*aa <= 2.0*bb) and EVERY parameter of the clause: translations whose top-level
              operator is ?: | + | - | * (vop-cond | vop-sum | vop-diff | vop-prod), with mono inputs on both
              sides of the boundary, two meshes straddling it and one mesh entirely outside; plus
              meshes of 99 / 101 / 151 / 301 points on the new parameter (and 101 x 2 with a retained parameter,
              and 101 points in 2-D) with the boundary in the first 100-point chunk, exactly at the chunk edge
              and in a later chunk
  new type  ::= "volume" | ""   type of the new parameters that replace volume parameters.  "" is built for every
              template when the replaced set is ALL volume parameters of the base (the derived table then has no
              volume-typed parameter left, but volumes, R_eff and the volume normalisation must still be the base
              model's), and for every template (thorough) / one template (quick) of the other replaced sets
  insert_after ::= None | {"": all new} | {K: all new} for every base parameter K (retained or removed)
              | split {"": first, last base parameter: second}
  Every (base, replaced, template) that type-checks is built with insert_after=None; every insert_after
  alternative is built for one template per replaced-set (thorough) / per base (quick).

  sequence  ::= (E2-style histories) for every base and for the first volume parameter / the first pair of volume
              parameters: ALL ordered sequences of length 2 (thorough: also 3) of distinct translations that share
              base, default name (name=None, filename=None), new-parameter table and insert_after and differ ONLY
              in the equations (size 1: affine | power | shift | cond | interm; size 2: affine2 | chain2 | mix),
              built one after the other in ONE fresh process (forked from a zygote that has only imported
              sasmodels); after all are built EVERY member is evaluated (mono 1-D, dispersed 1-D, mono 2-D).

Per program, inputs are enumerated deviation-bounded (<= 2 dimensions off default): off-nominal values,
dispersity alternatives on each of <= 2 NEW parameters and on one retained base volume parameter, cutoff,
1-D / 2-D, effective-radius mode (1, 2, 0).

Oracle: the translation is evaluated in Python (written independently per template); the reference value at
one point of the mesh *in the new parameters* is a single-point evaluation of the separately built BASE
model at the translated parameters, including the base model's own validity verdict; points are combined
by the C01 reference mean (plugin_gen.mean_from_points).  Compared: I(q) in 1-D and 2-D, <F>, <F^2>, R_eff,
shell volume, volume ratio.  Table: the derived table must be the documented arrangement of the new
parameters with every untouched base parameter unchanged (name, units, default, limits, type, order),
and no replaced parameter left.
"""
import math
import warnings

import numpy as np

from .. import build, refmodel
from .. import plugin_gen as G
from ..engine import R, HarnessError, case_id
from ..space import deviations

ID = "C16"
TITLE = "A reparameterised model equals its base model at the translated parameters"
LEVEL = "model_checking"
ENGINE = "E1"
TECHNIQUE = ("exhaustive enumeration of generated reparameterisations (base x replaced set x translation template x "
             "insert_after) from a stated grammar, each compiled and compared over deviation-bounded inputs with "
             "single-point evaluations of the separately built base model at independently translated parameters")
RULE = ("one case = one derived model with all its inputs (<=2 input dimensions off default); an evaluation is "
        "non-trivial when the translated base parameters differ from the base defaults and (if dispersed) the mesh "
        "has >= 2 qualifying points; distinct = distinct (program, input) pairs")
ASSUMPTIONS = [
    "the base model's own single-point values and volumes (monodisperse call of the base library) are the reference; "
    "the validity verdict is the base definition's `valid` clause evaluated in Python, not the kernel's weight",
    "the reference mesh of every dispersed parameter is built by the check itself (documented gaussian / uniform grid "
    "and density, relative width, cut by the limits), not by weights.get_weights",
    "the Python rendering of each translation template is the meaning of its C text",
    "DLL driver only; non-magnetic calls only; no orientation jitter",
    "parameter values are drawn from the finite alphabet in coverage.bounds",
]
QUICK_BASES = ["sphere", "cylinder", "barbell", "hollow_cylinder", "parallelepiped", "vesicle", "@gen", "@gen2"]
ALL_BASES = ["sphere", "ellipsoid", "cylinder", "barbell", "hollow_cylinder", "core_shell_sphere",
             "parallelepiped", "vesicle", "lamellar", "triaxial_ellipsoid", "@gen", "@gen2"]
BOUNDS = {
    "quick": {"bases": QUICK_BASES, "templates": "all; pairs = first pair of volume parameters only",
              "insert_after": "all alternatives for one (replaced, template) per base",
              "inputs": "D<=2 over off-nominal, 3 pd alternatives on <=2 new + 1 retained parameter, cutoff, 2-D, mode"},
    "thorough": {"bases": ALL_BASES, "templates": "all; every pair of volume parameters",
                 "insert_after": "all alternatives for one template per replaced set",
                 "inputs": "as quick"},
}
CASE_TIMEOUT = 600

INF = float("inf")
SCALE, BACKGROUND = 1.7, 0.25
Q1 = [0.011, 0.07, 0.31]
Q2 = [[0.05, 0.02], [-0.1, 0.13], [0.013, -0.3]]
PD_ALTS = [["gaussian", 3, 0.2], ["uniform", 2, 0.45], ["gaussian", 5, 0.1]]
# extra replaceable (non-volume) parameters
EXTRA = {"vesicle": ["volfraction"], "sphere": ["sld"], "core_shell_sphere": ["sld_shell"], "@gen": ["c0"], "@gen2": ["c0"]}

GEN_BASE = '''
r"""verification harness: generated base model (first volume parameter named %(A)s)"""
from numpy import inf
name = "%(name)s"
title = "generated base"
description = "generated base"
category = "shape-independent"
parameters = [
    ["%(A)s", "Ang", 30.0, [0, inf], "volume", "first volume parameter"],
    ["bb", "Ang", 40.0, [0, inf], "volume", "second volume parameter"],
    ["c0", "", 1.5, [-inf, inf], "", "plain parameter"],
]
valid = "%(valid)s"
radius_effective_modes = ["mode 1", "mode 2"]
%(functions)s
'''
# @gen: complete C functions in c_code, <F> and <F^2> through Fq
GEN_FUNCTIONS_CCODE = '''have_Fq = True
c_code = """
static double form_volume(double a, double bb) { return a*bb*bb; }
static double shell_volume(double a, double bb) { return a*bb*bb - 0.5*a*a*a; }
static double radius_effective(int mode, double a, double bb) { return mode == 1 ? a + 2.0*bb : bb - 0.5*a; }
static void Fq(double q, double *F1, double *F2, double a, double bb, double c0)
{
    const double f = c0*a*bb/(1.0 + q*q*a*a) + bb/(1.0 + q*q*bb*bb);
    *F1 = f;
    *F2 = f*f + 0.25*c0;
}
"""
'''
# @gen2: function BODIES given as strings (the wrapper generator writes the argument lists), like lamellar
GEN_FUNCTIONS_INLINE = '''form_volume = """
    return aa*bb*bb;
"""
shell_volume = """
    return aa*bb*bb - 0.5*aa*aa*aa;
"""
Iq = """
    const double f = c0*aa*bb/(1.0 + q*q*aa*aa) + bb/(1.0 + q*q*bb*bb);
    return f*f + 0.25*c0;
"""
c_code = """
static double radius_effective(int mode, double a, double bb) { return mode == 1 ? a + 2.0*bb : bb - 0.5*a; }
"""
'''
GEN_NAMES = {"@gen": ("verif_c16base", "a", GEN_FUNCTIONS_CCODE, "a <= bb"),
             "@gen2": ("verif_c16base2", "aa", GEN_FUNCTIONS_INLINE, "1.5*aa <= 2.0*bb")}


# ------------------------------------------------------------------------------------------------
# translation templates: (new parameter rows, translation text, python translation)

def _row(name, default, ptype, lo=0.0):
    return [name, "", float(default), [lo, INF], ptype, "new parameter"]


def template(tname, rep, info, ptype="volume"):
    """
    ptype: type given to the new parameters that replace volume parameters: "volume" (dispersible) or ""
    (plain; if ALL volume parameters of the base are replaced this way, the derived table has no volume-typed
    parameter at all, while the base functions still need their volume arguments).
    """
    tpl = _template(tname, rep, info)
    if tpl is not None and ptype != "volume":
        for row in tpl["rows"]:
            if row[4] == "volume":
                row[4] = ptype
    return tpl


def _template(tname, rep, info):
    """
    rep: list of replaced base parameter ids; info: base ModelInfo.
    Returns dict(rows=[...], text=str, fn=callable(new+retained values) -> {replaced id: value}) or None if the
    template does not type-check for this replaced set.
    """
    P = {p.id: p for p in info.parameters.kernel_parameters}
    d = [float(P[r].default) for r in rep]
    t = [P[r].type for r in rep]
    lo = [(-INF if P[r].limits[0] < 0 else 0.0) for r in rep]
    new_t = [("volume" if x == "volume" else "") for x in t]   # sld-typed replacements become plain parameters
    names = set(P)

    def fresh(n):
        if n in names:
            raise HarnessError("new parameter name %s clashes with base %s" % (n, info.id))
        return n

    if tname.startswith("vop-"):
        return _vop_template(tname, rep, info, P)
    if tname.startswith("same"):
        # the new parameter keeps the NAME of the base parameter it replaces (e.g. a length given in other units)
        if any(x != "volume" for x in t):
            return None
        if len(rep) == 1:
            p, d0 = rep[0], d[0]
            if tname == "same-affine":
                b = 0.25 * d0
                return dict(rows=[[p, "nm", 0.4 * d0, [0.0, INF], "volume", "same name, other units"]],
                            text="%s = 2.0*%s + %r" % (p, p, b), fn=lambda v: {p: 2.0 * v[p] + b})
            if tname == "same-power":
                return dict(rows=[[p, "nm", math.sqrt(d0 / 1.5) * 1.05, [0.0, INF], "volume", "same name, other units"]],
                            text="%s = 1.5*pow(%s, 2.0)" % (p, p), fn=lambda v: {p: 1.5 * v[p] ** 2.0})
            return None
        if len(rep) == 2:
            p1, p2 = rep
            d1, d2 = d
            if tname == "same2-first":
                y = fresh("ya")
                return dict(rows=[[p1, "nm", 0.4 * d1, [0.0, INF], "volume", "same name"], _row(y, 0.6 * d2, "volume")],
                            text="%s = 2.0*%s + %r\n%s = 1.5*%s + %r" % (p1, p1, 0.25 * d1, p2, y, 0.125 * d2),
                            fn=lambda v: {p1: 2.0 * v[p1] + 0.25 * d1, p2: 1.5 * v[y] + 0.125 * d2})
            if tname == "same2-second":
                x = fresh("xa")
                c = 1.2 / d2
                return dict(rows=[_row(x, 0.4 * d1, "volume"), [p2, "nm", 0.9 * d2, [0.0, INF], "volume", "same name"]],
                            text="%s = 2.0*%s + %r\n%s = %r*pow(%s, 2.0)" % (p1, x, 0.25 * d1, p2, c, p2),
                            fn=lambda v: {p1: 2.0 * v[x] + 0.25 * d1, p2: c * v[p2] ** 2.0})
            if tname == "same2-both":
                return dict(rows=[[p1, "nm", 0.4 * d1, [0.0, INF], "volume", "same name"],
                                  [p2, "nm", 0.6 * d2, [0.0, INF], "volume", "same name"]],
                            text="%s = 2.0*%s + %r\n%s = 1.5*%s + %r" % (p1, p1, 0.25 * d1, p2, p2, 0.125 * d2),
                            fn=lambda v: {p1: 2.0 * v[p1] + 0.25 * d1, p2: 1.5 * v[p2] + 0.125 * d2})
        return None
    if len(rep) == 1:
        p, d0 = rep[0], d[0]
        if tname == "affine":
            x = fresh("xa")
            b = 0.25 * d0
            return dict(rows=[_row(x, 0.4 * d0, new_t[0], lo[0])],
                        text="%s = 2.0*%s + %r" % (p, x, b),
                        fn=lambda v: {p: 2.0 * v[x] + b})
        if tname == "affine-signed":
            # a volume-typed (dispersible, relative width) new parameter that takes NEGATIVE, zero and positive values
            if t[0] != "volume":
                return None
            x = fresh("shift")
            return dict(rows=[[x, "", -0.25 * d0, [-INF, INF], "volume", "signed new parameter"]],
                        text="%s = 2.0*%s + %r" % (p, x, 1.6 * d0),
                        fn=lambda v: {p: 2.0 * v[x] + 1.6 * d0},
                        x_alts={x: [0.0, 0.2 * d0]}, signed=x)
        if tname == "affine-neg":
            if t[0] != "volume":
                return None
            x = fresh("xn")
            return dict(rows=[_row(x, 1.1 * d0, "volume")],
                        text="\n    %s  =  2.0 * %s-%r   # the mesh reaches negative values\n" % (p, x, d0),
                        fn=lambda v: {p: 2.0 * v[x] - d0})
        if tname == "power":
            if d0 <= 0:
                return None
            x = fresh("xp")
            return dict(rows=[_row(x, math.sqrt(d0 / 1.5) * 1.05, new_t[0])],
                        text="%s = 1.5*pow(%s, 2.0)" % (p, x),
                        fn=lambda v: {p: 1.5 * v[x] ** 2.0})
        if tname == "ratio":
            others = [q.id for q in info.parameters.kernel_parameters
                      if q.id != p and q.type == t[0] and q.default != 0 and q.length == 1]
            if not others or t[0] != "volume":
                return None
            o = others[0]
            x = fresh("ratio")
            return dict(rows=[_row(x, 1.1 * d0 / float(P[o].default), "volume")],
                        text="%s = %s*%s  // uses a retained base parameter" % (p, x, o),
                        fn=lambda v: {p: v[x] * v[o]})
        if tname == "cond":
            if d0 <= 0:
                return None
            x = fresh("xc")
            c0 = 0.9 * d0
            return dict(rows=[_row(x, 1.05 * d0, new_t[0])],
                        text="%s = (%s > %r ? %s : %r + 0.5*(%r - %s))" % (p, x, c0, x, c0, c0, x),
                        fn=lambda v: {p: (v[x] if v[x] > c0 else c0 + 0.5 * (c0 - v[x]))})
        if tname == "interm1":
            x = fresh("xi")
            return dict(rows=[_row(x, 0.7 * d0, new_t[0], lo[0])],
                        text="h = 0.5*%s\n%s = h*3.0" % (x, p),
                        fn=lambda v: {p: (0.5 * v[x]) * 3.0})
        if tname == "interm2":
            x = fresh("xj")
            return dict(rows=[_row(x, 0.7 * d0, new_t[0], lo[0])],
                        text="  u = 0.5*%s\n\n  w = u + 0.25*%s   # second intermediate uses the first\n  %s = w*2.0\n" % (x, x, p),
                        fn=lambda v: {p: (0.5 * v[x] + 0.25 * v[x]) * 2.0})
        if tname == "prefix":
            x = fresh("r")
            return dict(rows=[_row(x, 1.1 * d0, new_t[0], lo[0])],
                        text="r2 = 2.0*r\nr2_x = r2 + r\n%s = 0.5*r2_x - 0.5*r" % p,
                        fn=lambda v: {p: 0.5 * (2.0 * v["r"] + v["r"]) - 0.5 * v["r"]})
        if tname == "offset":
            if t[0] != "sld":
                return None
            others = [q.id for q in info.parameters.kernel_parameters if q.id != p and q.type == "sld"]
            if not others:
                return None
            o = others[-1]
            x = fresh("contrast")
            return dict(rows=[_row(x, 1.1 * (d0 - float(P[o].default)), "", -INF)],
                        text="%s = %s + %s" % (p, o, x),
                        fn=lambda v: {p: v[o] + v[x]})
        return None
    if len(rep) == 2:
        if t != ["volume", "volume"]:
            return None
        p1, p2 = rep
        d1, d2 = d
        if tname == "affine2":
            x, y = fresh("xa"), fresh("ya")
            return dict(rows=[_row(x, 0.4 * d1, "volume"), _row(y, 0.6 * d2, "volume")],
                        text="%s = 2.0*%s + %r\n%s = 1.5*%s + %r" % (p1, x, 0.25 * d1, p2, y, 0.125 * d2),
                        fn=lambda v: {p1: 2.0 * v[x] + 0.25 * d1, p2: 1.5 * v[y] + 0.125 * d2})
        if tname == "volecc":
            x, y = fresh("vol"), fresh("ecc")
            vol = 4.0 * math.pi / 3.0 * d1 * d2 * d2 * 1.2
            return dict(rows=[_row(x, vol, "volume"), _row(y, d1 / d2, "volume")],
                        text="\n    Re = cbrt(vol/ecc/M_4PI_3)\n    %s = ecc*Re\n    %s = Re  # python style comments allowed\n" % (p1, p2),
                        fn=lambda v: {p1: v["ecc"] * np.cbrt(v["vol"] / v["ecc"] / (4.0 * math.pi / 3.0)),
                                      p2: np.cbrt(v["vol"] / v["ecc"] / (4.0 * math.pi / 3.0))})
        if tname == "chain2":
            x, y = fresh("xs"), fresh("ys")
            return dict(rows=[_row(x, 1.1 * d1, "volume"), _row(y, 0.9 * d2, "volume")],
                        text="s = %s + %s\nd = s - 2.0*%s // uses s\n%s = 0.5*(s + d)\n%s = 0.5*(s - d)" % (x, y, y, p1, p2),
                        fn=lambda v: {p1: 0.5 * ((v[x] + v[y]) + ((v[x] + v[y]) - 2.0 * v[y])),
                                      p2: 0.5 * ((v[x] + v[y]) - ((v[x] + v[y]) - 2.0 * v[y]))})
        if tname == "prefix2":
            x, y = fresh("r"), fresh("r2")
            return dict(rows=[_row(x, 1.1 * d1, "volume"), _row(y, 0.9 * d2, "volume")],
                        text="r_ = r\n%s = r_\n%s = r2" % (p1, p2),
                        fn=lambda v: {p1: v["r"], p2: v["r2"]})
        if tname == "shared":
            x = fresh("size")
            k = d2 / d1
            return dict(rows=[_row(x, 1.1 * d1, "volume")],
                        text="%s = %s\n%s = %r*%s" % (p1, x, p2, k, x),
                        fn=lambda v: {p1: v[x], p2: k * v[x]})
        return None
    if len(rep) == 3:
        if t != ["volume"] * 3:
            return None
        p1, p2, p3 = rep
        d1, d2, d3 = d
        if tname == "affine3":
            x, y, z = fresh("xa"), fresh("ya"), fresh("za")
            return dict(rows=[_row(x, 0.4 * d1, "volume"), _row(y, 0.6 * d2, "volume"), _row(z, 0.9 * d3, "volume")],
                        text="%s = 2.0*%s + %r\n%s = 1.5*%s + %r\n%s = 1.25*%s" % (p1, x, 0.25 * d1, p2, y, 0.125 * d2, p3, z),
                        fn=lambda v: {p1: 2.0 * v[x] + 0.25 * d1, p2: 1.5 * v[y] + 0.125 * d2, p3: 1.25 * v[z]})
        if tname == "scale3":
            x = fresh("size")
            k2, k3 = d2 / d1, d3 / d1
            return dict(rows=[_row(x, 1.1 * d1, "volume")],
                        text="s2 = %r*%s\n%s = %s\n%s = s2\n%s = s2*%r" % (k2, x, p1, x, p2, p3, k3 / k2),
                        fn=lambda v: {p1: v[x], p2: k2 * v[x], p3: (k2 * v[x]) * (k3 / k2)})
        return None
    return None


T1 = ["affine", "affine-signed", "affine-neg", "power", "ratio", "cond", "interm1", "interm2", "prefix", "offset",
      "same-affine", "same-power"]
T2 = ["affine2", "volecc", "chain2", "prefix2", "shared", "same2-first", "same2-second", "same2-both"]
T3 = ["affine3", "scale3"]

# ---- validity family: every parameter of every `valid` clause replaced by translations whose TOP-LEVEL operator
# is ?: / + / - / * .  (parameter, side of the boundary that is valid, boundary value at the other defaults)
VOP = {
    "cylinder": [("radius", ">=", 0.0), ("length", ">=", 0.0)],
    "barbell": [("radius_bell", ">=", 20.0), ("radius", "<=", 40.0)],
    "capped_cylinder": [("radius_cap", ">=", 20.0), ("radius", "<=", 20.0)],
    "mass_surface_fractal": [("fractal_dim_mass", "<=", 3.7), ("fractal_dim_surf", "<=", 4.2)],
    "@gen": [("a", "<=", 40.0), ("bb", ">=", 30.0)],
    "@gen2": [("aa", "<=", 160.0 / 3.0), ("bb", ">=", 22.5)],
}
VOP_IDS = {"verif_c16base": "@gen", "verif_c16base2": "@gen2"}
TV = ["vop-cond", "vop-sum", "vop-diff", "vop-prod"]
VOP_X, VOP_PD = 40.0, [["uniform", 4, 0.45], ["gaussian", 5, 0.15], ["gaussian", 3, 0.05]]


def _vop_template(tname, rep, info, P):
    """
    New parameter w (default 40).  The translated value crosses the validity boundary B at w = Xb (30 if large
    values are valid, 50 if small values are valid), so w = 40 is valid, the uniform +-45% and gaussian +-45% meshes
    about 40 straddle the boundary, and w = 20 resp. 62 (+-15%) lies entirely outside.
    """
    base = VOP_IDS.get(info.id, info.id)
    if len(rep) != 1 or base not in VOP or rep[0] not in [x[0] for x in VOP[base]]:
        return None
    p = rep[0]
    _, side, B = [x for x in VOP[base] if x[0] == p][0]
    Xb = 30.0 if side == ">=" else 50.0
    u = float(P[p].default) / 40.0
    rows = [["w", "", VOP_X, [0.0, INF], "volume", "new parameter"]]
    # meshes on both sides of the DLL driver's 100-point chunk; the validity boundary falls in the first chunk
    # (large values valid) or in a later chunk (small values valid) for the +-45% meshes, and exactly at the chunk
    # edge (between mesh points 99 and 100) for the last one
    big = [["uniform", 99, 0.45], ["uniform", 101, 0.45], ["uniform", 151, 0.45], ["gaussian", 151, 0.15],
           (["uniform", 301, 0.745] if side == ">=" else ["uniform", 151, 0.765])]
    extra = dict(x_alts={"w": [20.0 if side == ">=" else 62.0]}, pd_alts=VOP_PD, vop=True, big=big)
    if tname == "vop-sum":
        c = B - u * Xb
        return dict(rows=rows, text="%s = %r*w + %r" % (p, u, c), fn=lambda v: {p: u * v["w"] + c}, **extra)
    if tname == "vop-diff":
        c = u * Xb - B
        return dict(rows=rows, text="%s = %r*w - %r" % (p, u, c), fn=lambda v: {p: u * v["w"] - c}, **extra)
    if tname == "vop-prod":
        if B == 0.0:
            return dict(rows=rows, text="%s = %r*w" % (p, u), fn=lambda v: {p: u * v["w"]}, **dict(extra, vop="never-invalid"))
        k = B / Xb
        return dict(rows=rows, text="%s = %r*w" % (p, k), fn=lambda v: {p: k * v["w"]}, **extra)
    if tname == "vop-cond":
        u1, c1, u2, c2 = 0.5 * u, B - 0.5 * u * Xb, 2.0 * u, B - 2.0 * u * Xb
        return dict(rows=rows, text="%s = w > %r ? %r*w + %r : %r*w + %r" % (p, Xb, u1, c1, u2, c2),
                    fn=lambda v: {p: (u1 * v["w"] + c1) if v["w"] > Xb else (u2 * v["w"] + c2)}, **extra)
    return None


def base_info(ctx, base):
    if base.startswith("@"):
        from sasmodels import core
        return core.load_model_info(ctx.notes[base])
    return build.info(base)


def base_model(ctx, base):
    return build.model(ctx.notes[base] if base.startswith("@") else base)


def _preload():
    """zygote: import the library, evaluate and build nothing"""
    import sasmodels.core, sasmodels.direct_model, sasmodels.kerneldll, sasmodels.generate  # noqa
    import sasmodels.weights, sasmodels.details  # noqa


def setup(ctx):
    import os
    from .. import zygote
    # pristine process for the sequence cases, forked before this process has loaded or generated anything
    zygote.start(ctx, "c16", _preload)
    from sasmodels import core
    names = [b for b in (QUICK_BASES if ctx.quick else ALL_BASES) + list(VOP) if not b.startswith("@")]
    bad = build.prebuild(ctx, names)
    if bad:
        raise HarnessError("base models failed to build: %r" % bad)
    for key, (name, first, functions, valid) in GEN_NAMES.items():
        path = os.path.join(ctx.scratch, name + ".py")
        with open(path, "w") as fh:
            fh.write(GEN_BASE % {"name": name, "A": first, "functions": functions, "valid": valid})
        ctx.notes[key] = path
        core.load_model(path, dtype="double", platform="dll")      # compiled once, serially


def insert_alternatives(info, rep, new_ids):
    ids = [p.id for p in info.parameters.kernel_parameters]
    allnew = ",".join(new_ids)
    alts = [{"": allnew}] + [{k: allnew} for k in ids]
    if len(new_ids) == 2:
        alts.append({"": new_ids[0], ids[-1]: new_ids[1]})
        retained = [k for k in ids if k not in rep]
        if retained:
            alts.append({retained[0]: new_ids[1] + "," + new_ids[0]})
    return alts


def cases(ctx):
    out = []
    bases = QUICK_BASES if ctx.quick else ALL_BASES
    for base in bases:
        info = base_info(ctx, base)
        vols = [p.id for p in info.parameters.kernel_parameters if p.type == "volume" and p.length == 1]
        singles = [[v] for v in vols] + [[e] for e in EXTRA.get(base, [])]
        pairs = [[a, b] for i, a in enumerate(vols) for b in vols[i + 1:]]
        if ctx.quick:
            pairs = pairs[:1]
        first_insert = True
        triples = [vols] if len(vols) == 3 else []
        if len(vols) == 2 and vols not in pairs:
            pairs.append(vols)
        for rep in singles + pairs + triples:
            tnames = {1: T1, 2: T2, 3: T3}[len(rep)]
            usable = [tn for tn in tnames if template(tn, rep, info) is not None]
            for tn in usable:
                out.append({"kind": "prog", "base": base, "rep": rep, "template": tn, "insert": None})
            # dimension "type of the new parameters": "" instead of "volume".  Every template when the replaced set is
            # ALL volume parameters of the base (no volume-typed parameter left in the derived table); otherwise
            # every template (thorough) / one template rotated by the seed (quick)
            if all(info.parameters[x].type == "volume" for x in rep) and usable:
                full = set(rep) == set(vols)
                plain = usable if (full or not ctx.quick) else [usable[ctx.seed % len(usable)]]
                for tn in plain:
                    out.append({"kind": "prog", "base": base, "rep": rep, "template": tn, "insert": None, "ptype": ""})
            if not usable or len(rep) == 3:
                continue
            # insert_after alternatives on one template per replaced set (rotated by the seed)
            if ctx.quick and not (first_insert or len(rep) == 2):
                continue
            first_insert = False
            tn = usable[ctx.seed % len(usable)]
            chosen = [tn]
            if len(template(tn, rep, info)["rows"]) < 2:
                # the "split" placements need at least two new parameters: whatever the rotation picked, the
                # first template with two or more new parameters is explored as well
                chosen += [t for t in usable if len(template(t, rep, info)["rows"]) >= 2][:1]
            for tn in chosen:
                new_ids = [r[0] for r in template(tn, rep, info)["rows"]]
                for alt in insert_alternatives(info, rep, new_ids):
                    out.append({"kind": "prog", "base": base, "rep": rep, "template": tn, "insert": alt})
    out.append({"kind": "python-base"})
    # validity family (all bases with a `valid` clause, both tiers)
    for base in VOP:
        for pname, _, _ in VOP[base]:
            for tn in TV:
                out.append({"kind": "prog", "base": base, "rep": [pname], "template": tn, "insert": None})
    # sequences of reparameterisations that differ only in the equations, built in one process
    for base in bases:
        info = base_info(ctx, base)
        vols = [p.id for p in info.parameters.kernel_parameters if p.type == "volume" and p.length == 1]
        out.append({"kind": "sequence", "base": base, "rep": vols[:1], "depth": 2 if ctx.quick else 3})
        if len(vols) >= 2:
            out.append({"kind": "sequence", "base": base, "rep": vols[:2], "depth": 2 if ctx.quick else 3})
    return out


# ------------------------------------------------------------------------------------------------

def expected_order(base_ids, removed, new_ids, insert):
    """the documented arrangement of the derived table"""
    if insert is None:
        out, placed = [], False
        for b in base_ids:
            if b in removed:
                if not placed:
                    out += new_ids
                    placed = True
            else:
                out.append(b)
        return out
    out = [n for n in insert.get("", "").split(",") if n]
    for b in base_ids:
        if b not in removed:
            out.append(b)
        out += [n for n in insert.get(b, "").split(",") if n]
    return out


def _psig(p):
    return (p.name, p.units, p.default, tuple(p.limits), p.type, p.length, p.polydisperse, p.relative_pd)


def run_case(case, ctx):
    import tempfile
    tempfile.tempdir = ctx.scratch      # C sources of failed compilations stay in the private scratch dir
    if case["kind"] == "prog":
        return _run_prog(case, ctx)
    if case["kind"] == "python-base":
        return _run_python_base(case, ctx)
    if case["kind"] == "sequence":
        return _run_sequence(case, ctx)
    raise HarnessError("unknown case kind %r" % case["kind"])


def own_dist(par, dtype, npts, width, nsigmas, center):
    """
    The dispersity mesh of a size (relative-width) parameter built by the check itself from the documented grid and
    density - gaussian: npts points centre +- nsigmas*sigma, weight exp(-(x-c)^2/(2 sigma^2)); uniform: npts points
    centre +- sigma, equal weights; sigma = width*centre - cut by the parameter limits and normalised.  Both
    densities are symmetric about the centre, so a negative centre (sigma < 0) gives the same set of points.
    """
    lo, hi = par.limits
    sigma = abs(width * center)
    if npts < 2 or sigma == 0.0:
        x = np.array([center], float)
        x = x[(x >= lo) & (x <= hi)]
        return x, np.ones_like(x)
    if dtype == "gaussian":
        x = center + np.linspace(-nsigmas * sigma, nsigmas * sigma, npts)
    elif dtype == "uniform":
        x = np.linspace(center - sigma, center + sigma, npts)
    else:
        raise HarnessError("own_dist: unsupported distribution %r" % dtype)
    x = x[(x >= lo) & (x <= hi)]
    w = np.exp(-0.5 * ((x - center) / sigma) ** 2) if dtype == "gaussian" else np.ones_like(x)
    return x, (w / w.sum() if len(w) else w)


def _base_point(kernel, binfo, bp, mode):
    """
    Single-point evaluation of the base model at base parameters bp, or None if the point is outside the base
    model's validity region.  The verdict is the base definition's `valid` clause evaluated in PYTHON
    (refmodel.py_valid): it must not be read off the kernel's own weight accumulator, which is code under test
    (a kernel that counts infeasible points in its normalisation would otherwise bless itself).
    """
    verdict = refmodel.py_valid(binfo, bp)
    if verdict is False:
        return None
    p = refmodel.raw_point(kernel, dict(bp, scale=1.0, background=0.0), mode)
    if verdict is None and p["w"] == 0.0:
        return None
    if p["w"] != 0.0 and p["w"] != 1.0:
        # un-normalised accumulators of ONE valid point: weight must be exactly 1
        raise AssertionError("base model %s: a single valid point has total weight %r" % (binfo.id, p["w"]))
    return p


def _close(a, b, mag=None):
    """1e-10 relative to max(|ref|, Sum|terms|, 1e-3*max|ref| over the q vector): the translation is evaluated by
    libm in one build and by numpy in the reference, so parameter values may differ in the last bit"""
    b = np.asarray(b, float)
    floor = 1e-3 * np.max(np.abs(b)) if b.size else 0.0
    m = np.maximum(np.abs(b), floor)
    if mag is not None:
        m = np.maximum(m, np.abs(mag))
    return refmodel.close(a, b, m, rtol=1e-10)


def _run_prog(case, ctx):
    from sasmodels import core
    from sasmodels.direct_model import call_kernel, call_Fq
    r = R()
    base = case["base"]
    binfo = base_info(ctx, base)
    rep = case["rep"]
    ptype = case.get("ptype", "volume")
    tpl = template(case["template"], rep, binfo, ptype)
    new_ids = [row[0] for row in tpl["rows"]]
    name = "vr%s" % case_id(case)
    ins = case["insert"]
    fk0 = {"base": base, "template": case["template"],
           "insert": ("none" if ins is None else "start" if list(ins) == [""] else "split" if len(ins) > 1
                      else "after-removed" if list(ins)[0] in rep else "after-retained")}
    call = ("reparameterize(%r, %r, %r, name=%r, insert_after=%r)" % (base, tpl["rows"], tpl["text"], name, ins))
    where = ""
    if base.startswith("@"):
        where = "\n  where %s is the generated plug-in model:\n%s" % (base, open(ctx.notes[base]).read())
    r.branch("template:" + case["template"])
    r.branch("insert:" + fk0["insert"])
    r.branch("base:" + base)
    fk0["rep"] = "+".join(rep)
    if ptype != "volume":
        fk0["new_type"] = "plain"
    r.branch("new-type:" + (ptype or "plain"))
    # new parameters placed between theta and phi (or phi and psi) give an ill-formed table: refusal expected
    orient = [p.id for p in binfo.parameters.kernel_parameters if p.type == "orientation"]
    splits = ins is not None and any(k in orient[:-1] for k in ins)
    try:
        with warnings.catch_warnings():
            warnings.simplefilter("ignore")
            dinfo = core.reparameterize(binfo, [list(x) for x in tpl["rows"]], tpl["text"], name=name, insert_after=ins)
    except TypeError as exc:
        if splits:
            return r.ok(nt=True, outcome="refused-orientation-split", branches=["refused-orientation-split"])
        r.fail(("%s raised %r" % (call, exc)) + where, dict(fk0, clause="build"))
        return r
    except Exception as exc:  # noqa
        r.fail(("%s raised %r" % (call, exc)) + where, dict(fk0, clause="build"))
        return r
    if splits:
        r.fail(("%s: new parameters separate the orientation angles, yet the table was accepted: %s"
               % (call, [p.id for p in dinfo.parameters.kernel_parameters])) + where, dict(fk0, clause="orientation-split-accepted"))
        return r
    # ---- table
    bpars = binfo.parameters.kernel_parameters
    dpars = dinfo.parameters.kernel_parameters
    got_order = [p.id for p in dpars]
    want_order = expected_order([p.id for p in bpars], set(rep), new_ids, ins)
    if got_order != want_order:
        left = [x for x in rep if x in got_order]
        fk = dict(fk0, clause="table-replaced-left" if left else "table-order")
        if any(len(x) == 1 for x in left):
            # one finding, whatever the template / placement
            fk = {"clause": "table-replaced-left", "base": base, "one_letter_parameter": True}
        r.fail(("%s\n  derived table order %s, documented arrangement %s%s"
               % (call, got_order, want_order, ("; replaced parameter(s) %s still present" % left) if left else "")) + where, fk)
        return r
    bsig = {p.id: _psig(p) for p in bpars}
    for p in dpars:
        if p.id in bsig and p.id not in new_ids and _psig(p) != bsig[p.id]:
            r.fail(("%s\n  untouched parameter changed: %s -> %s" % (call, bsig[p.id], _psig(p))) + where,
                   dict(fk0, clause="table-untouched"))
            return r
    for row in tpl["rows"]:
        p = [q for q in dpars if q.id == row[0]][0]
        if (p.default, tuple(p.limits), p.type) != (row[2], tuple(row[3]), row[4]):
            r.fail(("%s\n  new parameter %s has %s" % (call, row, _psig(p))) + where, dict(fk0, clause="table-new"))
            return r
    r.ok(nt=True, outcome="table-ok", branches=["table-checked"])
    # every volume parameter of the base replaced by plain-typed new parameters: the call table has no volume-typed
    # parameter, the base functions still take their (translated) volume arguments
    no_volume_left = bool(binfo.parameters.form_volume_parameters) and not dinfo.parameters.form_volume_parameters
    if no_volume_left:
        r.branch("program:no-volume-typed-parameter-left")
    try:
        with warnings.catch_warnings():
            warnings.simplefilter("ignore")
            model = core.build_model(dinfo, dtype="double", platform="dll")
    except Exception as exc:  # noqa
        fk = dict(fk0, clause="build")
        if isinstance(binfo.Iq, str):
            # base model whose functions are given as C bodies in the definition: one finding per base model
            fk = {"clause": "build", "base": base, "inline_c_functions": True}
        r.fail(("%s could not be built: %r" % (call, exc)) + where, fk, branches=["build-failed"])
        return r

    # ---- values
    bmodel = base_model(ctx, base)
    kern = {}
    for dim in ("1d", "2d"):
        qv = [np.array(Q1)] if dim == "1d" else [np.array(Q2)[:, 0].copy(), np.array(Q2)[:, 1].copy()]
        kern["d", dim] = model.make_kernel(qv)
        kern["b", dim] = bmodel.make_kernel(qv)
    cpars = {p.name: p for p in dinfo.parameters.call_parameters}
    bdefaults = {p.id: float(p.default) for p in bpars}
    retained_vol = [p.id for p in bpars if p.type == "volume" and p.id not in rep and p.length == 1]
    new_vol = [row[0] for row in tpl["rows"] if row[4] == "volume"]
    vop = tpl.get("vop")
    dims = [("nominal", False, [] if vop else [True])]       # the validity family keeps its geometry about the boundary
    for nm, alts in tpl.get("x_alts", {}).items():
        dims.append(("x:" + nm, None, alts))
    for nm in new_vol[:2]:
        dims.append(("pd:" + nm, None, tpl.get("pd_alts", PD_ALTS)))
    if any(p.id in new_ids and p.id in bsig for p in dpars):
        r.branch("program:new-parameter-named-like-replaced")
    geo = {"valid-mono": 0, "invalid-mono": 0, "straddled": 0, "mesh-all-invalid": 0}
    for nm in retained_vol[:1]:
        dims.append(("pd:" + nm, None, PD_ALTS[:2]))
    dims.append(("cutoff", 0.0, [0.05]))
    dims.append(("q", "1d", ["2d"]))
    have_modes = bool(binfo.radius_effective_modes)
    if have_modes:
        dims.append(("mode", 1, [min(2, len(binfo.radius_effective_modes)), 0]))
    configs = list(deviations(dims, 2))
    if tpl.get("big"):
        # explicit extra inputs (beyond the deviation bound): each big mesh alone in 1-D, the 101-point mesh in 2-D,
        # and 101 points x 2 points of a retained parameter
        default = {d[0]: d[1] for d in dims}
        for alt in tpl["big"]:
            configs.append((1, dict(default, **{"pd:w": alt, "bigmesh": True})))
        configs.append((2, dict(default, **{"pd:w": tpl["big"][1], "q": "2d", "bigmesh": True})))
        for nm in retained_vol[:1]:
            configs.append((2, dict(default, **{"pd:w": tpl["big"][1], "pd:" + nm: ["uniform", 2, 0.1], "bigmesh": True})))
    for ndev, cfg in configs:
        dim = cfg["q"]
        mode = cfg.get("mode", 0)
        # nominal values of the derived table
        vals = {}
        for k, p in enumerate(dpars):
            v = float(p.default)
            if cfg["nominal"] and (p.type == "volume" or (ptype != "volume" and p.id in new_ids)):
                v *= ctx.factor(k)
            vals[p.id] = v
        for key, alt in cfg.items():
            if key.startswith("x:") and alt is not None:
                vals[key[2:]] = float(alt)
        pars = dict(vals, scale=SCALE, background=BACKGROUND)
        disp = {}
        for key, alt in cfg.items():
            if key.startswith("pd:") and alt is not None:
                nm = key[3:]
                t, n, w = alt
                pars[nm + "_pd"], pars[nm + "_pd_n"], pars[nm + "_pd_type"] = w, n, t
                disp[nm] = own_dist(cpars[nm], t, n, w, 3.0, vals[nm])
        cutoff = cfg["cutoff"]
        nq = len(Q1)
        moved = [False]

        def point_fn(pt, _dim=dim, _mode=mode):
            tr = tpl["fn"](pt)
            bp = {k: v for k, v in pt.items() if k in bdefaults}
            for k, v in tr.items():
                bp[k] = float(v)
            if any(not np.isfinite(v) for v in bp.values()):
                return None
            if any(abs(bp[k] - bdefaults[k]) > 1e-9 * max(1.0, abs(bdefaults[k])) for k in rep):
                moved[0] = True
            out = _base_point(kern["b", _dim], binfo, bp, _mode)
            seq.append(out is not None)
            return out
        seq = []
        ref = G.mean_from_points(point_fn, nq, dict(vals, scale=SCALE, background=BACKGROUND), disp, cutoff)
        br = ["dim:" + dim]
        if cfg.get("bigmesh"):
            br.append("vop-bigmesh")
            if len(seq) > 100:
                br.append("vop-bigmesh:more-than-100-points")
            if len(disp) == 1:
                # where along the mesh (in kernel order) does the validity verdict change?
                for i in range(1, len(seq)):
                    if seq[i] != seq[i - 1]:
                        br.append("vop-bigmesh:boundary-" + ("at-chunk-edge" if i % 100 == 0 else
                                                              "in-first-chunk" if i < 100 else "in-later-chunk"))
            elif len(disp) == 2 and ref["ninvalid"] and ref["nqual"]:
                br.append("vop-bigmesh:two-parameters-straddling")
        sg = tpl.get("signed")
        if sg and sg in disp:
            br.append("signed-dispersed:" + ("negative" if vals[sg] < 0 else "zero" if vals[sg] == 0 else "positive"))
            if vals[sg] < 0 and len(disp[sg][0]) >= 2:
                br.append("signed-dispersed:negative-centre-mesh")
        if vop:
            kind = (("straddled" if ref["nqual"] and ref["ninvalid"] else "mesh-all-invalid" if not ref["nqual"] else None)
                    if disp else ("valid-mono" if ref["nqual"] else "invalid-mono"))
            if kind:
                geo[kind] += 1
                br.append("vop:" + kind)
        if any(k in bsig and k in new_ids for k in disp):
            br.append("dispersed-same-named-new-parameter")
        if no_volume_left:
            br.append("no-volume-typed-parameter-left")
        if disp:
            br.append("dispersed")
            if any(k in new_ids for k in disp):
                br.append("dispersed-new")
            if len([k for k in disp if k in new_ids]) == 2:
                br.append("dispersed-two-new")
            if any(k not in new_ids for k in disp) and any(k in new_ids for k in disp):
                br.append("dispersed-new-and-retained")
        if ref["ninvalid"] and ref["nqual"]:
            br.append("validity-straddled")
        if ref["ninvalid"] and not ref["nqual"]:
            br.append("no-valid-point")
        if ref["ncut"]:
            br.append("cutoff-excluded")
        if mode:
            br.append("reff-mode")
        desc = ("%s\n  call: %s pars=%s cutoff=%r radius_effective_mode=%d" % (call, dim, pars, cutoff, mode))
        fk = dict(fk0, clause="value", input=("dispersed" if disp else "mono"))
        try:
            with np.errstate(all="ignore"):
                I = call_kernel(kern["d", dim], dict(pars), cutoff=cutoff)
                F1, F2, reff, vshell, vratio = call_Fq(kern["d", dim], dict(pars, radius_effective_mode=mode), cutoff=cutoff)
        except Exception as exc:  # noqa
            r.fail(("%s raised %r" % (desc, exc)) + where, dict(fk, clause="raises"), sub={"cfg": cfg}, branches=br)
            continue
        checks = [("I", I, ref["I"], ref["mag"]), ("F2", F2, ref["F2"], ref.get("magF2")),
                  ("vshell", vshell, ref["vshell"], None),
                  ("vratio", vratio, ref["vratio"] if ref["vratio"] is not None else 0.0, None)]
        if have_modes:
            checks.append(("reff", reff, ref["reff"], None))
        if dim == "1d" and F1 is not None and ref["F1"] is not None:
            checks.append(("F1", F1, ref["F1"], np.sqrt(np.abs(ref["F2"])) if ref["nqual"] else None))
        msgs = []
        for nm, a, b, mag in checks:
            ok, err = _close(a, b, mag)
            if not ok:
                msgs.append("%s: derived model %s, base at translated parameters %s" % (nm, np.asarray(a), np.asarray(b)))
        nt = bool(moved[0] and (ref["nqual"] >= 2 or not disp))
        if msgs:
            r.fail((desc + "\n  " + "\n  ".join(msgs) + "\n  mesh %d points, %d qualifying, %d cut, %d invalid in the base model"
                   % (ref["npoints"], ref["nqual"], ref["ncut"], ref["ninvalid"])) + where, fk, sub={"cfg": cfg}, nt=nt,
                   trans=2 + ref["npoints"], branches=br)
            continue
        r.ok(nt=nt, outcome="%s:%s:q%d:c%d:i%d" % ("pd" if disp else "mono", dim, min(ref["nqual"], 3),
                                                    min(ref["ncut"], 1), min(ref["ninvalid"], 1)),
             trans=2 + ref["npoints"], branches=br)
        if nt and disp and not r.samples:
            r.sample({"program": call, "call": "%s pars=%s cutoff=%r" % (dim, pars, cutoff),
                      "derived": [float(v) for v in I], "base_at_translated": [float(v) for v in ref["I"]],
                      "mesh_points": ref["npoints"], "qualifying": ref["nqual"]})
    r.extra["programs"] += 1
    if vop is True and min(geo.values()) == 0:
        raise HarnessError("validity family %s: inputs do not reach both sides of the boundary: %r" % (call, geo))
    if vop:
        r.branch("program:vop")
    return r


def _run_python_base(case, ctx):
    """
    A pure-Python base model has no C translation unit: reparameterising it must either be refused or still
    return the base model's values (it must not silently pass the new table to the old Iq).
    """
    from sasmodels import core
    from sasmodels.direct_model import call_kernel
    r = R()
    fk = {"clause": "python-base", "base": "guinier_porod"}
    rows = [["rg2", "Ang", 40.0, [0, INF], "", "new"]]
    text = "rg = 1.5*rg2"
    call = "reparameterize('guinier_porod', %r, %r)" % (rows, text)
    try:
        with warnings.catch_warnings():
            warnings.simplefilter("ignore")
            dinfo = core.reparameterize("guinier_porod", rows, text, name="vr_pybase")
            model = core.build_model(dinfo, dtype="double", platform="dll")
            k = model.make_kernel([np.array(Q1)])
            got = call_kernel(k, {"rg2": 40.0, "scale": SCALE, "background": BACKGROUND})
    except Exception as exc:  # noqa
        return r.ok(nt=True, outcome="python-base-refused:%s" % type(exc).__name__, branches=["python-base-judged"])
    bk = build.model("guinier_porod").make_kernel([np.array(Q1)])
    want = call_kernel(bk, {"rg": 60.0, "scale": SCALE, "background": BACKGROUND})
    ok, err = _close(got, want)
    if ok:
        return r.ok(nt=True, outcome="python-base-equal", branches=["python-base-judged"])
    return r.fail("%s was accepted and built; rg2=40 returns %s, guinier_porod at rg=60 returns %s "
                  "(the translation is not applied to a pure-Python base model)" % (call, got, want), fk,
                  branches=["python-base-judged"])


# ------------------------------------------------------------------------------------------------
# sequences: same base, same default name, same new table and placement - different equations

S1 = ["affine", "power", "shift", "cond", "interm"]
S2 = ["affine2", "chain2", "mix"]


def seq_template(tname, rep, info):
    """like template(), but every member of a group has the SAME new-parameter rows"""
    P = {p.id: p for p in info.parameters.kernel_parameters}
    d = [float(P[r].default) for r in rep]
    if len(rep) == 1:
        p, d0 = rep[0], d[0]
        rows = [_row("x", 1.1 * d0, "volume")]
        if tname == "affine":
            b = 0.25 * d0
            return dict(rows=rows, text="%s = 2.0*x + %r" % (p, b), fn=lambda v: {p: 2.0 * v["x"] + b})
        if tname == "power":
            c = 1.5 / d0
            return dict(rows=rows, text="%s = %r*pow(x, 2.0)" % (p, c), fn=lambda v: {p: c * v["x"] ** 2.0})
        if tname == "shift":
            b = 0.5 * d0
            return dict(rows=rows, text="%s = x + %r" % (p, b), fn=lambda v: {p: v["x"] + b})
        if tname == "cond":
            c0 = 0.9 * d0
            return dict(rows=rows, text="%s = (x > %r ? x : %r + 0.5*(%r - x))" % (p, c0, c0, c0),
                        fn=lambda v: {p: (v["x"] if v["x"] > c0 else c0 + 0.5 * (c0 - v["x"]))})
        if tname == "interm":
            return dict(rows=rows, text="h = 0.5*x\n%s = h*3.0" % p, fn=lambda v: {p: (0.5 * v["x"]) * 3.0})
    else:
        p1, p2 = rep
        d1, d2 = d
        rows = [_row("x", 1.1 * d1, "volume"), _row("y", 0.9 * d2, "volume")]
        if tname == "affine2":
            return dict(rows=rows, text="%s = 2.0*x + %r\n%s = 1.5*y + %r" % (p1, 0.25 * d1, p2, 0.125 * d2),
                        fn=lambda v: {p1: 2.0 * v["x"] + 0.25 * d1, p2: 1.5 * v["y"] + 0.125 * d2})
        if tname == "chain2":
            return dict(rows=rows, text="s = x + y\nd = s - 2.0*y\n%s = 0.5*(s + d)\n%s = 0.5*(s - d)" % (p1, p2),
                        fn=lambda v: {p1: 0.5 * ((v["x"] + v["y"]) + ((v["x"] + v["y"]) - 2.0 * v["y"])),
                                      p2: 0.5 * ((v["x"] + v["y"]) - ((v["x"] + v["y"]) - 2.0 * v["y"]))})
        if tname == "mix":
            k = 0.25 * d1 / d2
            return dict(rows=rows, text="%s = 0.5*x + %r*y\n%s = 1.25*y" % (p1, k, p2),
                        fn=lambda v: {p1: 0.5 * v["x"] + k * v["y"], p2: 1.25 * v["y"]})
    raise HarnessError("unknown sequence template %r" % tname)


def _seq_one(arg):
    """
    (fresh process) reparameterize + build the members of `seq` in order, then evaluate every one of them.
    Returns one entry per member: [] if it equals the base model at the translated parameters, else messages.
    """
    import tempfile
    from sasmodels import core
    from sasmodels.direct_model import call_kernel
    tempfile.tempdir = arg["scratch"]
    base, rep, seq = arg["base"], arg["rep"], arg["seq"]
    binfo = core.load_model_info(base)
    built = []
    with warnings.catch_warnings():
        warnings.simplefilter("ignore")
        for tn in seq:
            tpl = seq_template(tn, rep, binfo)
            dinfo = core.reparameterize(binfo, [list(x) for x in tpl["rows"]], tpl["text"])
            built.append((tpl, dinfo, core.build_model(dinfo, dtype="double", platform="dll")))
        bmodel = core.build_model(binfo, dtype="double", platform="dll")
    bdefaults = {p.id: float(p.default) for p in binfo.parameters.kernel_parameters}
    out = []
    for tpl, dinfo, model in built:
        msgs = []
        cpars = {p.name: p for p in dinfo.parameters.call_parameters}
        vals = {p.id: float(p.default) for p in dinfo.parameters.kernel_parameters}
        for dim, pd in (("1d", False), ("1d", True), ("2d", False)):
            qv = [np.array(Q1)] if dim == "1d" else [np.array(Q2)[:, 0].copy(), np.array(Q2)[:, 1].copy()]
            kd, kb = model.make_kernel(qv), bmodel.make_kernel(qv)
            pars = dict(vals, scale=SCALE, background=BACKGROUND)
            disp = {}
            if pd:
                pars["x_pd"], pars["x_pd_n"], pars["x_pd_type"] = 0.2, 3, "gaussian"
                disp["x"] = own_dist(cpars["x"], "gaussian", 3, 0.2, 3.0, vals["x"])

            def point_fn(pt, _kb=kb):
                bp = {k: v for k, v in pt.items() if k in bdefaults}
                for k, v in tpl["fn"](pt).items():
                    bp[k] = float(v)
                return _base_point(_kb, binfo, bp, 0)
            ref = G.mean_from_points(point_fn, len(Q1), dict(vals, scale=SCALE, background=BACKGROUND), disp, 0.0)
            with np.errstate(all="ignore"):
                got = call_kernel(kd, dict(pars), cutoff=0.0)
            ok, err = _close(got, ref["I"], ref["mag"])
            if not ok:
                msgs.append("%s%s pars=%s: derived model %s, base at translated parameters %s"
                            % (dim, " dispersed" if pd else "", pars, np.asarray(got), ref["I"]))
        out.append(msgs)
    return out


def _run_sequence(case, ctx):
    import itertools
    from .. import zygote
    r = R()
    base, rep = case["base"], case["rep"]
    binfo = base_info(ctx, base)
    names = S1 if len(rep) == 1 else S2
    target = ctx.notes[base] if base.startswith("@") else base
    where = ""
    if base.startswith("@"):
        where = "\n  where %s is the generated plug-in model:\n%s" % (base, open(ctx.notes[base]).read())
    fk0 = {"clause": "sequence", "base": base, "size": len(rep)}

    def show(seq):
        return "\n".join("  %d. reparameterize(%r, %r, %r)   # name=None, filename=None, insert_after=None"
                         % (i + 1, base, seq_template(tn, rep, binfo)["rows"], seq_template(tn, rep, binfo)["text"])
                         for i, tn in enumerate(seq))
    seqs = [[tn] for tn in names]      # each alone first: compiles each program once, and is the depth-1 history
    for depth in range(2, case["depth"] + 1):
        seqs += [list(t) for t in itertools.permutations(names, depth)]
    for seq in seqs:
        out = zygote.call(ctx, "c16", "mc.props.c16:_seq_one",
                          {"base": target, "rep": rep, "seq": seq, "scratch": ctx.scratch})
        br = ["sequence:%d" % len(seq)]
        if "value" not in out:
            r.fail("building in one fresh process, in this order:\n%s\nfailed: %s%s" % (show(seq), out, where),
                   dict(fk0, what="raises"), trans=len(seq), branches=br)
            continue
        bad = [(i, m) for i, m in enumerate(out["value"]) if m]
        if bad:
            i, m = bad[0]
            r.fail("built in one fresh process, in this order:\n%s\nthen every model evaluated: number %d (%s) is wrong "
                   "(%d of %d wrong)\n  %s%s" % (show(seq), i + 1, seq[i], len(bad), len(seq), "\n  ".join(m[:3]), where),
                   dict(fk0, what="first-wrong" if i == 0 else "later-wrong"), trans=len(seq), branches=br)
            continue
        r.ok(nt=len(seq) > 1, outcome="sequence:%d:ok" % len(seq), trans=len(seq), branches=br)
    return r


def finish(ctx, report):
    report.coverage = {"programs": int(report.extra.get("programs", 0))}
    for t in T1 + T2:
        report.require("template:" + t, 1, "programs with template " + t)
    for i in ("none", "start", "split", "after-removed", "after-retained"):
        report.require("insert:" + i, 2, "insert_after placement " + i)
    for b in (QUICK_BASES if ctx.quick else ALL_BASES):
        report.require("base:" + b, 3, "programs on base " + b)
    report.require("table-checked", 50, "derived tables judged")
    report.require("dispersed-new", 500, "dispersity on a new parameter")
    report.require("dispersed-two-new", 50, "dispersity on two new parameters")
    report.require("dispersed-new-and-retained", 50, "dispersity on a new and a retained parameter")
    report.require("validity-straddled", 20, "mesh straddling the base validity region")
    report.require("no-valid-point", 1, "point / mesh entirely outside the base validity region")
    report.require("cutoff-excluded", 50, "cutoff excluded >= 1 mesh point")
    report.require("dim:2d", 100, "2-D q")
    report.require("reff-mode", 100, "effective-radius modes")
    report.require("python-base-judged", 1, "pure-Python base model")
    report.require("refused-orientation-split", 1, "insert_after between the orientation angles")
    report.require("new-type:plain", 20, "programs whose new parameters are typed '' instead of 'volume'")
    report.require("program:no-volume-typed-parameter-left", len(QUICK_BASES if ctx.quick else ALL_BASES),
                   "programs replacing ALL volume parameters by plain-typed new parameters")
    report.require("no-volume-typed-parameter-left", 200, "evaluations of a derived table without volume-typed parameter")
    report.require("vop-bigmesh", 200, "validity family: meshes around the 100-point chunk")
    report.require("vop-bigmesh:more-than-100-points", 150, "validity family: mesh of more than 100 points")
    for k in ("in-first-chunk", "at-chunk-edge", "in-later-chunk"):
        report.require("vop-bigmesh:boundary-" + k, 15, "validity boundary " + k)
    report.require("vop-bigmesh:two-parameters-straddling", 10, "101 x 2 mesh straddling the validity boundary")
    report.require("signed-dispersed:negative-centre-mesh", 50, "dispersity about a NEGATIVE value of a new volume parameter")
    report.require("signed-dispersed:zero", 10, "dispersity requested at value zero")
    report.require("signed-dispersed:positive", 10, "dispersity about a positive value of the signed parameter")
    for t in TV:
        report.require("template:" + t, 2 * len(VOP), "validity-family programs with template " + t)
    report.require("program:vop", 8 * len(VOP), "validity-family programs evaluated")
    for k in ("valid-mono", "invalid-mono", "straddled", "mesh-all-invalid"):
        report.require("vop:" + k, 5 * len(VOP), "validity family: " + k)
    report.require("program:new-parameter-named-like-replaced", 15, "new parameter named like the replaced one")
    report.require("dispersed-same-named-new-parameter", 200, "dispersity on a same-named new parameter")
    for t in T3:
        report.require("template:" + t, 1, "programs with template " + t)
    nb = len(QUICK_BASES if ctx.quick else ALL_BASES)
    report.require("sequence:1", 5 * nb, "single builds in a fresh process")
    report.require("sequence:2", 20 * nb, "ordered pairs of reparameterisations differing only in the equations")
    if not ctx.quick:
        report.require("sequence:3", 60 * nb, "ordered triples of reparameterisations differing only in the equations")

"""
C10 - every calling interface yields the same theory; masks / q limits / NaN data select exactly the points
for which theory is returned; parameter names the model does not define are refused by every interface.

Three kinds of cases (all enumerated completely, nothing sampled):

eq   deviation-bounded enumeration per model over (dispersity of the first two size parameters and of one
     orientation parameter, cutoff, 1-D/2-D, nominal values, magnetism, multiplicity value and how it is given,
     how the SasView object receives the dispersity: setParam('p.width') / set_dispersion(Dispersion) /
     set_dispersion(ArrayDispersion), storage order of the q points: ascending / descending / two banks / rotated).  The same settings are expressed for
        call_kernel | DirectModel | direct_model.Iq/Iqxy | SasviewModel | bumps_model.Experiment.theory()
     in their own naming scheme (p_pd_n vs p.npts) and the five results must be bit-identical (same kernel, same
     weights, same arithmetic).  The one exception, stated in DESIGN.md: 1-D data with orientation dispersity set in
     the SasView object, which carries the angle mesh through the 1-D kernel (compared at cutoff 0 within 1e-11).
sel  data objects (1-D plain, dx=0, dx, dx>0 on removed points only, slit dxl/dxw, 2-D, 2-D with resolution) x ALL 2^4 keep-patterns on four
     points x the mechanism that removes a point (mask / NaN datum / q limit / mixed / q=0 in 2-D) and
     first/last/alternating/all on fifty points, through DirectModel and bumps Experiment.  Oracle: the index
     recomputed from the raw arrays (mask==0 & qmin<=q<=qmax & ~isnan(y)); expected theory = the kernel evaluated on
     a resolution object built by the harness from the selected raw points only (order preserved); without
     resolution additionally the unmasked evaluation indexed by it.
reuse ONE object per interface taken from setting A to setting B (all ordered pairs of settings differing in one of: a
     value, pd width / npts / nsigmas / type, cutoff, a magnetic value, the multiplicity) and, for the SasView object,
     clone() followed by a change of the original or of the clone: every object must equal a fresh one with its own
     setting.  Each sequence runs in a pristine process (mc/zygote.py).
unk  for every parameter p of a model and every interface: p+'x', p.upper(), a parameter of another model,
     dispersity suffixes (_pd, _pd_n, _pd_nsigma, _pd_type / .width, .npts / set_dispersion) on non-dispersible p,
     unknown dispersity attributes on dispersible p: must raise TypeError or ValueError.
"""
import itertools
import os
import sys
import warnings

import numpy as np

from .. import build
from ..engine import R, HarnessError
from ..space import deviations

ID = "C10"
TITLE = "Every calling interface yields the same theory; unknown parameters are refused"
LEVEL = "model_checking"
ENGINE = "E1"
TECHNIQUE = ("deviation-bounded exhaustive enumeration of parameter/dispersity/multiplicity/data settings expressed in each "
             "interface's own naming scheme with pairwise bit-comparison of the five interfaces; complete enumeration of "
             "mask/q-limit/NaN patterns against an index recomputed from the raw arrays; complete enumeration of "
             "misspelt names per parameter and interface")
RULE = ("eq: every combination of <=D dimensions off default per model, non-trivial when dispersity, magnetism or a "
        "non-default multiplicity is active; sel: every keep-pattern x mechanism, non-trivial when the pattern removes a "
        "point; unk: every (parameter, misspelling, interface) triple; distinct = distinct canonical case dictionaries")
ASSUMPTIONS = [
    "bumps.parameter is a stub (/verif/mc/stubs): Parameter.default/.value/.limits and Reference only",
    "DLL and pure-python drivers only (no OpenCL/CUDA in the image)",
    "central values lie inside the hard limits (the SasView object applies limits to a zero-width distribution, the direct "
    "interfaces do not; the property text does not say which is right)",
    "the number of dispersity points is always stated explicitly: the defaults differ (0 in call_kernel/DirectModel/Iq, 35 in "
    "the SasView object and bumps) and 'the same dispersity settings' is read as 'the same stated settings'",
    "smearing itself (resolution.py / resolution2d.py) is trusted here (C03/C04): the harness builds the same resolution "
    "class from the independently selected raw points",
    "parameter values come from the finite alphabet in coverage.bounds",
]
QUICK_MODELS = ["sphere", "cylinder", "core_shell_sphere", "ellipsoid", "parallelepiped", "lamellar", "dab", "teubner_strey",
                "rpa", "onion", "core_multi_shell", "spherical_sld", "hardsphere", "hayter_msa", "squarewell",
                "stickyhardsphere"]
D3_MODELS_QUICK = ["cylinder", "core_multi_shell", "hardsphere"]
SEL_MODELS_QUICK = ["sphere", "cylinder"]
SEL_MODELS_THOROUGH = ["sphere", "cylinder", "core_multi_shell", "hardsphere", "teubner_strey", "ellipsoid"]
BOUNDS = {
    "quick": {"eq": {"models": QUICK_MODELS, "D": "2; 3 on " + ", ".join(D3_MODELS_QUICK)}, "sel": {"models": SEL_MODELS_QUICK, "patterns": "all 16 on 4 points x mechanisms; 4 on 50 points"},
              "unk": {"models": QUICK_MODELS}},
    "thorough": {"eq": {"models": "all 78", "D": 3},
                 "sel": {"models": SEL_MODELS_THOROUGH, "patterns": "all 16 on 4 points x mechanisms; 4 on 50 points"},
                 "unk": {"models": "all 78"}},
}
CASE_TIMEOUT = 600

SCALE, BACKGROUND = 1.7, 0.25
Q1 = [0.011, 0.07, 0.31, 0.5]
Q2 = [[0.05, 0.02], [-0.1, 0.13], [0.013, -0.3], [0.21, 0.2]]

# [type | None (omitted: default gaussian), npts, width, nsigmas | None (omitted: default 3)]
PD_A = [[None, 3, 0.1, None], ["gaussian", 5, 0.2, 2.0], ["schulz", 4, 0.15, 3.0], ["rectangle", 3, 0.1, None],
        ["lognormal", 3, 0.1, 2.5], ["cut1"]]
PD_B = [[None, 3, 0.1, None], ["schulz", 2, 0.2, 2.0], ["cut1"]]
PD_O = [[None, 3, 10.0, None], ["uniform", 2, 5.0, 3.0]]
CUTOFFS = [0.0, 0.05]           # default 1e-5 is the only value direct_model.Iq can use
INTERFACES = ["call_kernel", "DirectModel", "Iq", "sasview", "bumps"]
SV_ENTRIES = ["sasview.calculate_Iq", "sasview.runXY", "sasview.run"]      # besides evalDistribution ("sasview")

_STUBS = os.path.normpath(os.path.join(os.path.dirname(os.path.abspath(__file__)), "..", "stubs"))


def _imports():
    """sasmodels modules, with the bumps.parameter stub in front of sys.path before bumps_model is imported"""
    if sys.path[0] != _STUBS:
        if _STUBS in sys.path:
            sys.path.remove(_STUBS)
        sys.path.insert(0, _STUBS)
    from sasmodels import bumps_model, direct_model, sasview_model, weights, data, resolution, resolution2d
    if not hasattr(bumps_model.BumpsParameter, "default"):
        raise HarnessError("sasmodels.bumps_model was imported without the bumps.parameter stub")
    return bumps_model, direct_model, sasview_model, weights, data, resolution, resolution2d


# ------------------------------------------------------------------------------------------------
# model description

class Plan(object):
    def __init__(self, name):
        self.name = name
        self.info = info = build.info(name)
        P = info.parameters
        self.call = list(P.call_parameters)
        self.by_name = {p.name: p for p in self.call}
        # dispersible size parameters, stated from the parameter table itself (type 'volume', dispersible) and NOT from
        # ParameterTable.pd_1d/pd_2d, which is part of the mechanism under test
        sizes = [p.name for p in self.call if p.type == "volume" and p.polydisperse]
        vec_ids = [p.id for p in P.kernel_parameters if p.length > 1 and p.type == "volume" and p.polydisperse]
        first_vec = next((n for n in sizes if any(n == v + "1" for v in vec_ids)), None)
        self.size = sizes[:2]
        if first_vec is not None and first_vec not in self.size:
            self.size = sizes[:1] + [first_vec]       # multiplicity models: one dispersed parameter is a vector element
        self.vector_sizes = [(p.id, p.length) for p in P.kernel_parameters
                             if p.length > 1 and p.type == "volume" and p.polydisperse]
        self.orient = next((p.name for p in self.call if p.type == "orientation"), None)
        self.python = callable(info.Iq)
        self.magnetic = P.nmagnetic > 0 and not self.python
        self.sld = next((p.name for p in self.call if p.type == "sld"), None)
        ctl = [p for p in P.kernel_parameters if p.is_control]
        self.control = ctl[0] if ctl else None
        self.structure = bool(info.structure_factor)
        # vector parameters whose length is the multiplicity (id, declared length); those typed 'sld' carry magnetism
        self.vectors = [(p.id, p.length) for p in P.kernel_parameters if p.length > 1]
        self.vector_slds = [(p.id, p.length) for p in P.kernel_parameters if p.length > 1 and p.type == "sld"]

    def control_values(self):
        """multiplicities used: the lower limit (0 where allowed), the default, default+1, default+3, the upper limit"""
        p = self.control
        if p is None:
            return []
        lo, hi = int(p.limits[0]), int(p.limits[1])
        d = int(p.default)
        return sorted(set(v for v in (lo, d, d + 1, d + 3, hi) if lo <= v <= hi))

    def control_limits(self):
        return int(self.control.limits[0]), int(self.control.limits[1])

    def in_use(self, mult):
        """multiplicity in effect for a cfg 'mult' entry"""
        return int(mult[1]) if mult else int(self.control.default)

    def expected_hidden(self, n):
        """
        Names a multiplicity-n object has no use for, stated independently of ModelInfo.get_hidden_parameters:
        the control itself (given to the constructor), elements k > n of every vector parameter and the magnetic
        companions of those elements.  A model that declares its own hidden() rule (rpa) is taken at its word.
        """
        if self.control is None:
            return set()
        out = {self.control.name}
        if self.info.hidden is not None:
            return out | set(self.info.hidden(n))
        slds = dict(self.vector_slds)
        for vid, length in self.vectors:
            for k in range(n + 1, length + 1):
                out.add(vid + str(k))
                if vid in slds:
                    out.update(vid + str(k) + tag for tag in ("_M0", "_mtheta", "_mphi"))
        return out


_PLANS = {}


def plan(name):
    if name not in _PLANS:
        _PLANS[name] = Plan(name)
    return _PLANS[name]


def eq_models(ctx):
    return QUICK_MODELS if ctx.quick else build.all_models()


def setup(ctx):
    _imports()
    names = (set(eq_models(ctx)) | set(SEL_MODELS_QUICK if ctx.quick else SEL_MODELS_THOROUGH)
             | set(m for m, _ in (REUSE_QUICK if ctx.quick else REUSE_THOROUGH)))
    compiled = set(build.compiled_models())
    bad = build.prebuild(ctx, [n for n in names if n in compiled])
    if bad:
        raise HarnessError("models failed to build: %r" % bad)
    from .. import zygote
    zygote.start(ctx, "c10", _preload)       # pristine processes for the reuse sequences


def _dims(pl, ctx):
    dims = []
    if len(pl.size) > 0:
        dims.append(("pd0", None, PD_A))
    if len(pl.size) > 1:
        dims.append(("pd1", None, PD_B))
    if pl.orient:
        dims.append(("pdo", None, PD_O))
    dims.append(("cutoff", 1e-5, CUTOFFS))
    dims.append(("q", "1d", ["2d"]))
    dims.append(("nominal", 1.0, [ctx.factor(0)]))
    if not pl.structure:
        dims.append(("common", "given", ["omitted"]))
    if pl.magnetic:
        # True: the first SLD; "last": the last element in use of every vector SLD (multiplicity models)
        dims.append(("magnetic", False, [True] + (["last"] if pl.vector_slds else [])))
    if pl.control is not None:
        vals = pl.control_values()
        lo, hi = pl.control_limits()
        dims.append(("mult", None, [["ctor", v] for v in vals]
                     + [["param", v] for v in sorted(set([lo, vals[len(vals) // 2], hi]))]))
    dims.append(("svmode", "setParam", ["set_dispersion", "array"]))
    # storage order of the q points handed to every interface (the values are the same set)
    dims.append(("order", "ascending", ["descending", "banks", "rotated"]))
    return dims


def cases(ctx):
    out = []
    for m in eq_models(ctx):
        pl = plan(m)
        dims = _dims(pl, ctx)
        bounds = [2, 3] if (not ctx.quick or m in D3_MODELS_QUICK) else [2]
        for D in bounds:
            for k, cfg in deviations(dims, D):
                if k < D and D == 3:
                    continue
                if not any(cfg.get(x) for x in ("pd0", "pd1", "pdo")):
                    cfg["svmode"] = "setParam"        # no dispersity: the three ways of passing it coincide
                if cfg.get("magnetic"):
                    cfg["q"] = "2d"                   # magnetism exists for 2-D data only
                out.append({"kind": "eq", "model": m, "cfg": cfg})
        # magnetic family: every element in use of every vector SLD, for every multiplicity used, both ways of
        # giving the multiplicity, all interfaces, 2-D
        if pl.magnetic and pl.control is not None and pl.vector_slds:
            base = {d[0]: d[1] for d in dims}
            for n in pl.control_values():
                for vid, length in pl.vector_slds:
                    for k in range(1, min(n, length) + 1):
                        for how in ("ctor", "param"):
                            out.append({"kind": "eq", "model": m,
                                        "cfg": dict(base, q="2d", mult=[how, n], magnetic=["elem", vid + str(k)])})
        # dispersity family: every element in use of every dispersible vector size parameter (thicknessK, interfaceK),
        # for every multiplicity used, both ways of giving the multiplicity, all interfaces, 1-D
        if pl.control is not None and pl.vector_sizes:
            base = {d[0]: d[1] for d in dims}
            for n in pl.control_values():
                for vid, length in pl.vector_sizes:
                    for k in range(1, min(n, length) + 1):
                        for how in ("ctor", "param"):
                            out.append({"kind": "eq", "model": m,
                                        "cfg": dict(base, mult=[how, n], pdx=[vid + str(k), ["schulz", 4, 0.3, 3.0]])})
        out.extend(_zero_family(m, pl, dims))
    for m in (SEL_MODELS_QUICK if ctx.quick else SEL_MODELS_THOROUGH):
        for dk in ("plain", "dx0", "dx", "dxmix", "slit", "2d", "2dres"):
            for n in (4, 50):
                for pd in (False, True):
                    # every representation on the four-point patterns without dispersity (the mask does not care about
                    # the model settings); the other blocks rotate through the representations
                    reps = MASK_REPS if (n == 4 and not pd) else [MASK_REPS[(len(out) + 1) % len(MASK_REPS)]]
                    for mr in reps:
                        if mr == "none" and dk.startswith("2d"):
                            continue       # 2-D data must carry a mask array (Data2D always builds one)
                        out.append({"kind": "sel", "model": m, "data": dk, "n": n, "pd": pd, "maskrep": mr})
    for m in eq_models(ctx):
        out.append({"kind": "unk", "model": m})
    for m, qk in (REUSE_QUICK if ctx.quick else REUSE_THOROUGH):
        for first in _reuse_variants(plan(m), qk):
            out.append({"kind": "reuse", "model": m, "q": qk, "first": first})
    return out


# how the mask is stored in the data object.  "none": the attribute is None whenever the pattern needs no mask
# (1-D data only; the unchanged tree reads `mask == 0`, so every array dtype is legal).
MASK_REPS = ["bool", "int8", "int64", "float", "none"]
_MASK_DTYPE = {"bool": bool, "int8": "b", "int64": np.int64, "float": float}

# explicit zeros: [type, npts, width, nsigmas] with one or more members given as 0 / 0.0 (int and float spellings),
# alone and next to a non-zero partner
ZERO_PD = [["gaussian", 0, 0.25, 3.0],      # the usual way of switching dispersity off: npts = 0 beside a width
           [None, 0, 0.25, None],
           ["gaussian", 5, 0.0, 3.0],       # width 0.0 beside npts > 1
           ["schulz", 4, 0, 2.0],           # width 0 (int)
           ["gaussian", 5, 0.2, 0.0],       # nsigmas 0.0 beside npts > 1 and a width
           ["lognormal", 4, 0.15, 0],       # nsigmas 0 (int)
           ["gaussian", 0, 0.0, 0.0],       # everything zero
           ["rectangle", 0.0, 0.25, None]]  # npts 0.0 (float)


def _zero_family(m, pl, dims):
    """every setting given EXPLICITLY as zero, alone and combined with a non-zero partner, through every interface"""
    out = []
    base = {d[0]: d[1] for d in dims}

    def add(**kw):
        out.append({"kind": "eq", "model": m, "cfg": dict(base, **kw)})

    targets = [(n, "1d") for n in pl.size] + ([(pl.orient, "2d")] if pl.orient else [])
    for name, q in targets:
        for alt in ZERO_PD:
            if pl.by_name[name].type == "orientation":
                alt = [alt[0], alt[1], alt[2] * 40.0, alt[3]]         # absolute width in degrees
            for sv in ("setParam", "set_dispersion", "array"):
                add(q=q, pdx=[name, alt], svmode=sv)
            if name == pl.size[0] and len(pl.size) > 1:
                add(q=q, pdx=[name, alt], pd1=PD_B[0])                # next to a genuinely dispersed second parameter
                add(q="2d", pdx=[name, alt], cutoff=0.0)
    # plain values: every parameter whose limits contain 0 and whose default is not 0 already
    k = 0
    for p in pl.call:
        if pl.control is not None and p.name == pl.control.name:
            continue
        lo, hi = p.limits
        if not (lo <= 0 <= hi) or p.default == 0 or p.name in ("scale", "background"):
            continue
        if pl.structure and p.name in ("scale", "background"):
            continue
        k += 1
        zero = 0 if k % 2 else 0.0
        add(q="2d" if p.type in ("orientation", "magnetic") else "1d", set={p.name: zero})
        if p.name in pl.size[:1]:
            add(set={p.name: zero}, pd0=PD_A[1])                      # a zero size next to its own width
    if not pl.structure:
        for s_ in ({"scale": 0.0}, {"background": 0.0}, {"scale": 0, "background": 0}, {"scale": 0.0, "background": BACKGROUND},
                   {"scale": SCALE, "background": 0}):
            add(set=s_)
            if pl.size:
                add(set=s_, pd0=PD_A[2], q="2d")
    if pl.magnetic:
        sld = pl.sld
        for s_ in ({sld + "_M0": 0.0, sld + "_mtheta": 30.0, "up_frac_i": 0.3},             # amplitude 0 beside angles
                   {sld + "_M0": 3.0, sld + "_mtheta": 0.0, sld + "_mphi": 0, "up_frac_i": 0.3},
                   {sld + "_M0": 3.0, sld + "_mtheta": 30.0, "up_frac_i": 0.0, "up_frac_f": 0, "up_theta": 0.0, "up_phi": 0}):
            add(q="2d", set=s_)
            if pl.size:
                add(q="2d", set=s_, pdx=[pl.size[0], ZERO_PD[0]])
    return out


# ------------------------------------------------------------------------------------------------
# settings -> each interface's vocabulary

def _nominal(pl, factor, common="given"):
    vals = {}
    for p in pl.call:
        if p.name in ("scale", "background"):
            continue
        v = p.default
        if p.type == "volume" and factor != 1.0 and np.isfinite(v) and not p.choices \
                and p.name != (pl.control.name if pl.control is not None else None):
            w = v * factor
            lo, hi = p.limits
            if lo <= w <= hi:
                v = w
        if p.type == "orientation" and factor != 1.0:
            v = v + 13.0 * factor          # off-default viewing angles (inside [-360, 360])
        vals[p.name] = v
    if not pl.structure and common == "given":
        vals["scale"], vals["background"] = SCALE, BACKGROUND
    return vals


def _cut1(par, v):
    """uniform distribution that the hard limits cut down to the single point above the nominal value"""
    lo, hi = par.limits
    if np.isfinite(lo) and v > lo and not np.isfinite(hi):
        return ["uniform", 2, 3.0 * (v - lo) / v, None]
    return None


def settings_for(pl, cfg):
    """interface-neutral description of one evaluation"""
    values = _nominal(pl, cfg.get("nominal", 1.0), cfg.get("common", "given"))
    pd = {}
    cut1 = False
    for key, names in (("pd0", pl.size[:1]), ("pd1", pl.size[1:2]), ("pdo", [pl.orient] if pl.orient else [])):
        alt = cfg.get(key)
        if not alt or not names:
            continue
        name = names[0]
        if alt[0] == "cut1":
            alt = _cut1(pl.by_name[name], values[name])
            if alt is None:
                continue
            cut1 = True
        pd[name] = tuple(alt)
    if cfg.get("pdx"):
        name, alt = cfg["pdx"]
        if name not in pl.by_name:
            raise HarnessError("%s: no parameter %r" % (pl.name, name))
        pd[name] = tuple(alt)
    for name, v in (cfg.get("set") or {}).items():
        if name not in pl.by_name:
            raise HarnessError("%s: no parameter %r" % (pl.name, name))
        values[name] = v
    mult = cfg.get("mult")
    if mult:
        values[pl.control.name] = mult[1]
        for name in [n for n in pd if n in pl.expected_hidden(mult[1])]:
            del pd[name]          # no dispersity on an element beyond the multiplicity (in any interface)
    magnetised = []
    mag = cfg.get("magnetic")
    if mag and pl.magnetic and cfg.get("q") == "2d":
        if mag == "last" and pl.vector_slds:
            n = pl.in_use(mult)
            magnetised = [vid + str(min(n, length)) for vid, length in pl.vector_slds if n >= 1]
        elif isinstance(mag, (list, tuple)) and mag[0] == "elem":
            magnetised = [mag[1]]
        if not magnetised:
            magnetised = [pl.sld]
        for j, name in enumerate(magnetised):
            if name not in pl.by_name:
                raise HarnessError("%s: no SLD parameter %r" % (pl.name, name))
            values[name + "_M0"] = 3.0 + j
            values[name + "_mtheta"] = 30.0 + 5 * j
            values[name + "_mphi"] = 20.0 - 5 * j
        values["up_frac_i"], values["up_frac_f"], values["up_theta"], values["up_phi"] = 0.3, 0.6, 70.0, 25.0
    return {"values": values, "pd": pd, "cutoff": cfg.get("cutoff", 1e-5), "mult": mult, "q": cfg.get("q", "1d"),
            "svmode": cfg.get("svmode", "setParam"), "cut1": cut1, "magnetised": magnetised,
            "order": cfg.get("order", "ascending"), "set": dict(cfg.get("set") or {})}


def underscore_pars(st):
    pars = dict(st["values"])
    for name, (t, n, w, ns) in st["pd"].items():
        pars[name + "_pd"] = w
        pars[name + "_pd_n"] = n
        if t is not None:
            pars[name + "_pd_type"] = t
        if ns is not None:
            pars[name + "_pd_nsigma"] = ns
    return pars


_SV_CLASSES = {}


def sasview_class(name, sasview_model):
    if name not in _SV_CLASSES:
        _SV_CLASSES[name] = sasview_model._make_standard_model(name)
    return _SV_CLASSES[name]


def sasview_object(pl, st, mods):
    """the SasView-style object configured with the same settings through its own vocabulary"""
    bumps_model, direct_model, sasview_model, weights, sdata, resolution, resolution2d = mods
    cls = sasview_class(pl.name, sasview_model)
    mult = st["mult"]
    obj = cls(mult[1]) if (mult and mult[0] == "ctor") else cls()
    hidden = set(pl.expected_hidden(mult[1])) if (mult and mult[0] == "ctor") else set()
    for name, v in st["values"].items():
        if name in hidden:
            continue      # an element beyond the multiplicity / the control given to the constructor
        obj.setParam(name, v)       # a name the other interfaces take and this one refuses raises here
    for name, (t, n, w, ns) in st["pd"].items():
        if st["svmode"] == "setParam":
            obj.setParam(name + ".width", w)
            obj.setParam(name + ".npts", n)
            if t is not None:
                obj.setParam(name + ".type", t)
            if ns is not None:
                obj.setParam(name + ".nsigmas", ns)
        elif st["svmode"] == "set_dispersion":
            # a Dispersion object carries its own class default for nsigmas (sqrt(3) for 'rectangle', None for
            # 'uniform'), so "left to the default" can only be expressed by stating the keyword default 3
            cls_d = weights.DISTRIBUTIONS[t or "gaussian"]
            obj.set_dispersion(name, cls_d(n, w, 3.0 if ns is None else ns))
        elif st["svmode"] == "array":
            par = pl.by_name[name]
            x, wt = weights.get_weights(t or "gaussian", n, w, 3.0 if ns is None else ns, st["values"][name],
                                        par.limits, par.relative_pd)
            d = weights.ArrayDispersion()
            d.set_weights(np.array(x, "d"), np.array(wt, "d"))
            obj.set_dispersion(name, d)
        else:
            raise HarnessError("svmode %r" % st["svmode"])
    obj.cutoff = st["cutoff"]
    return obj


def _perm(n, order):
    """storage orders of n points: as measured on one bank, reversed, two interleaved banks appended, rotated"""
    idx = list(range(n))
    if order == "ascending":
        return idx
    if order == "descending":
        return idx[::-1]
    if order == "banks":
        return idx[0::2] + idx[1::2]
    if order == "rotated":
        return idx[n // 2:] + idx[:n // 2]
    raise HarnessError("order %r" % order)


def _qvec(kind):
    if kind == "2d":
        q = np.array(Q2, float)
        return [q[:, 0].copy(), q[:, 1].copy()]
    return [np.array(Q1, float)]


def _same(a, b):
    a, b = np.asarray(a, float), np.asarray(b, float)
    return a.shape == b.shape and a.tobytes() == b.tobytes()


def _near(a, b, rtol=1e-11):
    a, b = np.asarray(a, float), np.asarray(b, float)
    if a.shape != b.shape:
        return False
    both_nan = np.isnan(a) & np.isnan(b)
    with np.errstate(invalid="ignore"):
        ok = np.abs(a - b) <= rtol * np.maximum(np.abs(a), np.abs(b)) + 1e-300
    return bool(np.all(ok | both_nan))


# ------------------------------------------------------------------------------------------------
# eq

def run_case(case, ctx):
    with warnings.catch_warnings():
        warnings.simplefilter("ignore")
        with np.errstate(all="ignore"):
            if case["kind"] == "eq":
                return _run_eq(case, ctx)
            if case["kind"] == "sel":
                return _run_sel(case, ctx)
            if case["kind"] == "unk":
                return _run_unk(case, ctx)
            if case["kind"] == "reuse":
                return _run_reuse(case, ctx)
    raise HarnessError("unknown case kind %r" % case["kind"])


def _evaluate(pl, st, mods, interfaces=INTERFACES):
    """{interface: array | Exception} for one settings object on plain (resolution-free) q"""
    bumps_model, direct_model, sasview_model, weights, sdata, resolution, resolution2d = mods
    from sasmodels.direct_model import call_kernel, DirectModel
    model = build.model(pl.name)
    pars = underscore_pars(st)
    cutoff = st["cutoff"]
    q0 = _qvec(st["q"])
    perm = _perm(len(q0[0]), st.get("order", "ascending"))
    q = [v[perm].copy() for v in q0]
    out = {}
    if perm != sorted(perm):
        # one value per given q, in the given order: the evaluation in measurement order, re-indexed
        try:
            out["reference"] = np.array(call_kernel(model.make_kernel([v.copy() for v in q0]), dict(pars), cutoff=cutoff),
                                        float)[perm]
        except Exception:  # noqa - then the interfaces are compared with call_kernel on the permuted vector
            pass

    def attempt(key, fn):
        try:
            out[key] = np.array(fn(), float)
        except Exception as exc:  # noqa
            out[key] = exc

    def mk_data():
        if st["q"] == "2d":
            return sdata.Data2D(x=q[0].copy(), y=q[1].copy())
        return sdata.Data1D(x=q[0].copy())

    if "call_kernel" in interfaces:
        attempt("call_kernel", lambda: call_kernel(model.make_kernel([v.copy() for v in q]), dict(pars), cutoff=cutoff))
    if "DirectModel" in interfaces:
        attempt("DirectModel", lambda: DirectModel(mk_data(), model, cutoff=cutoff)(**pars))
    if "Iq" in interfaces and cutoff == 1e-5:
        if st["q"] == "2d":
            attempt("Iq", lambda: direct_model.Iqxy(pl.name, q[0].copy(), q[1].copy(), **pars))
        else:
            attempt("Iq", lambda: direct_model.Iq(pl.name, q[0].copy(), **pars))
    if "bumps" in interfaces:
        attempt("bumps", lambda: bumps_model.Experiment(mk_data(), bumps_model.Model(model, **pars), cutoff=cutoff).theory())
    if "sasview" in interfaces:
        def sv():
            obj = sasview_object(pl, st, mods)
            if st["q"] == "2d":
                return obj.evalDistribution([q[0].copy(), q[1].copy()])
            return obj.evalDistribution(q[0].copy())
        attempt("sasview", sv)
        # the other public evaluation entry points, on one further object configured the same way
        import math
        two = st["q"] == "2d"

        shared = {}

        def the_obj():
            if "obj" not in shared:
                shared["obj"] = sasview_object(pl, st, mods)
            return shared["obj"]

        def calc_iq():
            obj = the_obj()
            res, _ = obj.calculate_Iq(q[0].copy(), q[1].copy()) if two else obj.calculate_Iq(q[0].copy())
            return res

        def run_xy():
            obj = the_obj()
            if two:
                return [obj.runXY([float(a), float(b)]) for a, b in zip(q[0], q[1])]
            return [obj.runXY(float(a)) for a in q[0]]

        def run_():
            obj = the_obj()
            if two:
                return [obj.run([math.hypot(a, b), math.atan2(b, a)]) for a, b in zip(q[0], q[1])]
            return [obj.run(float(a)) for a in q[0]]
        attempt("sasview.calculate_Iq", calc_iq)
        attempt("sasview.runXY", run_xy)
        attempt("sasview.run", run_)
        if two:
            # run([q, phi]) is documented as the point (q cos phi, q sin phi): the direct calculator at exactly those
            try:
                rr = [math.hypot(a, b) for a, b in zip(q[0], q[1])]
                ph = [math.atan2(b, a) for a, b in zip(q[0], q[1])]
                px = np.array([r_ * math.cos(p_) for r_, p_ in zip(rr, ph)])
                py = np.array([r_ * math.sin(p_) for r_, p_ in zip(rr, ph)])
                out["reference:sasview.run"] = np.array(call_kernel(model.make_kernel([px, py]), dict(pars), cutoff=cutoff),
                                                        float)
            except Exception:  # noqa
                pass
    return out


def _describe(pl, st):
    pars = underscore_pars(st)
    shown = {k: v for k, v in pars.items() if "_pd" in k or k in st["pd"] or k.endswith(("_M0", "_mtheta", "_mphi"))
             or k.startswith("up_") or (pl.control is not None and k == pl.control.name) or k in st.get("set", {})}
    return ("%s %s cutoff=%r pars(non-default)=%s multiplicity=%s sasview-dispersity-via=%s nominal=%s"
            % (pl.name, st["q"], st["cutoff"], shown, st["mult"], st["svmode"],
               {k: st["values"][k] for k in list(st["pd"])}))


def _run_eq(case, ctx):
    mods = _imports()
    r = R()
    pl = plan(case["model"])
    cfg = case["cfg"]
    st = settings_for(pl, cfg)
    res = _evaluate(pl, st, mods)
    desc = _describe(pl, st)
    br = []
    active = bool(st["pd"])
    if active:
        br.append("dispersity-active")
        br.append("sasview-" + st["svmode"])
    if any(t is None or ns is None for (t, n, w, ns) in st["pd"].values()):
        br.append("defaults-type-nsigma")
    if st["cut1"]:
        br.append("single-point-truncation")
    for (t, n, w, ns) in st["pd"].values():
        if n == 0 and w != 0:
            br.append("explicit-zero:npts-beside-width")
        if w == 0 and n != 0:
            br.append("explicit-zero:width-beside-npts")
        if ns is not None and ns == 0 and n and w:
            br.append("explicit-zero:nsigmas-beside-npts")
        if n == 0 and w == 0:
            br.append("explicit-zero:npts-and-width")
    for name, v in st["set"].items():
        if v == 0:
            kind = ("scale/background" if name in ("scale", "background") else
                    "magnetic" if pl.by_name[name].type == "magnetic" else "value")
            br.append("explicit-zero:" + kind)
    if st["mult"]:
        br.append("multiplicity-" + st["mult"][0])
        lo, hi = pl.control_limits()
        if st["mult"][1] == lo:
            br.append("multiplicity-lower-limit:" + st["mult"][0] + (":zero" if lo == 0 else ""))
        if st["mult"][1] == hi:
            br.append("multiplicity-upper-limit:" + st["mult"][0])
    if any(name == vid + str(k) for name in st["pd"] for vid, length in pl.vector_sizes for k in range(1, length + 1)):
        br.append("dispersed-vector-element")
        if st["mult"] and any(name == vid + str(st["mult"][1]) for name in st["pd"] for vid, _ in pl.vector_sizes):
            br.append("dispersed-last-vector-element-in-use")
    if cfg.get("common") == "omitted":
        br.append("scale-background-defaulted")
    if pl.structure:
        br.append("structure-factor")
    if st["magnetised"]:
        br.append("magnetic")
        if pl.vector_slds and st["mult"] and any(
                name == vid + str(pl.in_use(st["mult"])) for name in st["magnetised"] for vid, _ in pl.vector_slds):
            br.append("magnetic-last-element-in-use:" + st["mult"][0])
    if st["q"] == "2d":
        br.append("2d")
    if "Iq" in res:
        br.append("Iq-compared")
    orient_1d = bool(pl.orient and pl.orient in st["pd"] and st["q"] == "1d")
    if orient_1d:
        br.append("orientation-pd-in-1d")
    nt = bool(active or st["mult"] or "magnetic" in br or st["set"])
    fk = {"model": pl.name, "q": st["q"]}
    reference = res.pop("reference", None)
    ref_run = res.pop("reference:sasview.run", None)
    ref = res.get("call_kernel")
    br.append("q-order-" + st["order"])
    errors = {k: v for k, v in res.items() if isinstance(v, Exception)}
    if errors:
        if len(errors) == len(res) and len(set(type(e) for e in errors.values())) == 1:
            # refused alike by every interface (e.g. magnetism on a pure-python model): nothing to compare
            return r.ok(nt=False, outcome="refused-by-all:" + type(ref).__name__, trans=len(res), branches=br + ["refused-by-all"])
        k = sorted(errors)[0]
        return r.fail("%s\n  %s raised %r while %s returned values" % (desc, k, errors[k], sorted(set(res) - set(errors))),
                      dict(fk, clause="raises", interface=k, exception=type(errors[k]).__name__), branches=br, nt=nt,
                      trans=len(res))
    if not np.all(np.isfinite(ref)):
        br.append("non-finite-reference")
    if reference is not None:
        ref = reference
    for k in (INTERFACES if reference is not None else INTERFACES[1:]) + SV_ENTRIES:
        if k not in res:
            continue
        if k.startswith("sasview."):
            br.append("entry-" + k + (":polar" if (k == "sasview.run" and st["q"] == "2d") else ":" + st["q"]))
        if k == "sasview.run" and ref_run is not None:
            ref_k = ref_run
        else:
            ref_k = ref
        if k.startswith("sasview") and orient_1d:
            # stated exception: the SasView object carries the angle mesh through the 1-D kernel
            if st["cutoff"] != 0.0:
                br.append("exception-skipped(cutoff>0)")
                continue
            ok = _near(res[k], ref_k)
            br.append("exception-tolerance")
        else:
            ok = _same(res[k], ref_k)
        if not ok:
            ref = ref_k
            return r.fail("%s\n  q stored %s: %s\n  expected (call_kernel%s)=%s\n  %-11s=%s\n  (all: %s)"
                          % (desc, st["order"], [list(v[_perm(len(v), st["order"])]) for v in _qvec(st["q"])],
                             "" if reference is None else " on the ascending vector, re-indexed", ref, k, res[k],
                             {i: list(v) for i, v in res.items()}),
                          dict(fk, clause="mismatch", interface=k), branches=br, nt=nt, trans=len(res))
    r.ok(nt=nt, outcome="%s:%d-interfaces:%s" % (st["q"], len(res), "pd" if active else "mono"), trans=len(res), branches=br)
    if nt and not r.samples:
        r.sample({"settings": desc, "interfaces": sorted(res), "theory": [float(v) for v in ref]})
    return r


# ------------------------------------------------------------------------------------------------
# sel

def _sel_settings(pl, pd, q):
    cfg = {"q": q, "cutoff": 1e-5}
    if pd:
        if pl.size:
            cfg["pd0"] = ["schulz", 4, 0.15, 3.0]
        if q == "2d" and pl.orient:
            cfg["pdo"] = [None, 3, 10.0, None]
    return settings_for(pl, cfg)


def _patterns(n):
    if n <= 4:
        return [list(p) for p in itertools.product([True, False], repeat=n)]
    alt = [i % 2 == 0 for i in range(n)]
    return [[True] * n, [False] + [True] * (n - 1), [True] * (n - 1) + [False], alt, [False] * n]


def _mechanisms(keep, two_d):
    """ways of removing exactly the points with keep[i] == False; yields (label, per-point mechanism list)"""
    n = len(keep)
    gone = [i for i in range(n) if not keep[i]]
    if not gone:
        yield "none", {}
        yield "limits-on-points", {"qmin_on": 0, "qmax_on": n - 1}     # limits exactly on the first / last datum
        return
    yield "mask", {i: "mask" for i in gone}
    yield "nan", {i: "nan" for i in gone}
    # q limits can remove a prefix and a suffix only
    lead = 0
    while lead < n and not keep[lead]:
        lead += 1
    trail = 0
    while trail < n - lead and not keep[n - 1 - trail]:
        trail += 1
    mixed = {}
    for j, i in enumerate(gone):
        if i < lead or i >= n - trail:
            mixed[i] = "qlim"
        else:
            mixed[i] = ("mask", "nan")[j % 2]
    if any(v == "qlim" for v in mixed.values()):
        yield "qlim+mask/nan", mixed
        yield "qlim-on-neighbour", dict(mixed, exact=True)   # the limit sits exactly on the first kept datum
    elif len(gone) > 1:
        yield "mask+nan", mixed
    if two_d and len(gone) == 1:
        yield "q=0", {gone[0]: "zero"}


def _build_data(mods, dk, n, keep, mech, f, maskrep="bool"):
    """raw arrays + the data object; returns (data, raw) where raw holds everything the index oracle needs"""
    bumps_model, direct_model, sasview_model, weights, sdata, resolution, resolution2d = mods
    two_d = dk.startswith("2d")
    y = 10.0 + np.arange(n, dtype=float)
    dy = 0.1 * np.ones(n)
    mask = np.zeros(n, dtype=bool)
    mech_pts = {i: how for i, how in mech.items() if isinstance(i, int)}
    for i, how in mech_pts.items():
        if how == "mask":
            mask[i] = True
        elif how == "nan":
            y[i] = np.nan
    kept = [i for i in range(n) if keep[i]]
    if two_d:
        ang = np.linspace(0.3, 2.5, n)
        qr = np.geomspace(0.02, 0.3, n) * f
        qx, qy = qr * np.cos(ang), qr * np.sin(ang)
        for i, how in mech_pts.items():
            if how == "zero":
                qx[i] = qy[i] = 0.0
        qr = np.sqrt(qx ** 2 + qy ** 2)
        dqx = dqy = None
        if dk == "2dres":
            dqx, dqy = 0.05 * qr + 1e-4, 0.03 * qr + 1e-4
        data = sdata.Data2D(x=qx.copy(), y=qy.copy(), z=y.copy(), dx=None if dqx is None else dqx.copy(),
                            dy=None if dqy is None else dqy.copy(), dz=dy.copy())
        data.mask = mask.astype(_MASK_DTYPE[maskrep])
        q = qr
    else:
        q = np.geomspace(0.01, 0.3, n) * f
        dx = {"plain": None, "dx0": np.zeros(n), "dx": 0.05 * q, "slit": None,
              "dxmix": np.where(np.array(keep, bool), 0.0, 0.05 * q)}[dk]     # width only on the removed points
        data = sdata.Data1D(x=q.copy(), y=y.copy(), dx=None if dx is None else dx.copy(), dy=dy.copy())
        if maskrep == "none":
            data.mask = None if not mask.any() else mask.copy()
        else:
            data.mask = mask.astype(_MASK_DTYPE[maskrep])
        data.dxl = data.dxw = None
        if dk == "slit":
            data.dxl = np.full(n, 0.02)
            data.dxw = np.full(n, 0.001)
    # q limits
    qmin, qmax = (1e-16, np.inf) if two_d else (q.min(), q.max())
    if any(v == "qlim" for v in mech_pts.values()):
        lead = [i for i in mech_pts if mech_pts[i] == "qlim" and all(not keep[j] for j in range(0, i + 1))]
        trail = [i for i in mech_pts if mech_pts[i] == "qlim" and all(not keep[j] for j in range(i, n))]
        if lead and kept:
            a, b = q[max(lead)], q[min(kept)]
            qmin = b if mech.get("exact") else 0.5 * (a + b)
        if trail and kept:
            a, b = q[max(kept)], q[min(trail)]
            qmax = a if mech.get("exact") else 0.5 * (a + b)
        if not kept:
            qmin, qmax = q.max() * 2, q.max() * 3
    if "qmin_on" in mech:
        qmin, qmax = q[mech["qmin_on"]], q[mech["qmax_on"]]
    data.qmin, data.qmax = float(qmin), float(qmax)
    raw = {"q": q, "y": y, "dy": dy, "mask": mask, "qmin": float(qmin), "qmax": float(qmax)}
    if two_d:
        raw.update(qx=qx, qy=qy, dqx=dqx, dqy=dqy)
    else:
        raw.update(dx=dx, dxl=None if data.dxl is None else np.array(data.dxl), dxw=None if data.dxw is None else np.array(data.dxw))
    return data, raw


def _expected(mods, dk, raw, idx, model, pars, cutoff):
    """theory on the independently selected raw points: the kernel on a resolution object built from them only"""
    bumps_model, direct_model, sasview_model, weights, sdata, resolution, resolution2d = mods
    from sasmodels.direct_model import call_kernel
    background = pars.get("background", model.info.parameters.common_parameters[1].default)
    p0 = dict(pars, background=0.0)
    if dk.startswith("2d"):
        qx, qy = raw["qx"][idx], raw["qy"][idx]
        if dk == "2dres":
            sub = sdata.Data2D(x=qx.copy(), y=qy.copy(), dx=raw["dqx"][idx].copy(), dy=raw["dqy"][idx].copy())
            res = resolution2d.Pinhole2D(data=sub, index=None, nsigma=3.0, accuracy="Low")
            kin = [np.asarray(v) for v in res.q_calc]
        else:
            res, kin = None, [qx.copy(), qy.copy()]
    else:
        q = raw["q"][idx]
        if dk in ("dx", "dxmix") and np.any(raw["dx"][idx] > 0):
            # documented choice: gaussian smearing iff some SELECTED point has a positive width
            res = resolution.Pinhole1D(q.copy(), raw["dx"][idx].copy())
        elif dk == "slit":
            res = resolution.Slit1D(q.copy(), q_length=raw["dxl"][idx].copy(), q_width=raw["dxw"][idx].copy())
        else:
            res = None
        kin = [q.copy()] if res is None else [np.asarray(res.q_calc)]
    if len(kin[0]) == 0:
        return np.zeros(0)
    theory = call_kernel(model.make_kernel(kin), p0, cutoff=cutoff)
    if res is not None:
        theory = res.apply(theory)
    return theory + background


def _run_sel(case, ctx):
    mods = _imports()
    bumps_model, direct_model, sasview_model, weights, sdata, resolution, resolution2d = mods
    from sasmodels.direct_model import DirectModel, call_kernel
    r = R()
    pl = plan(case["model"])
    model = build.model(pl.name)
    dk, n = case["data"], case["n"]
    two_d = dk.startswith("2d")
    st = _sel_settings(pl, case["pd"], "2d" if two_d else "1d")
    pars = underscore_pars(st)
    cutoff = st["cutoff"]
    f = 1.0 if ctx.seed == 0 else (0.8 + 0.1 * (ctx.seed % 5))
    fk0 = {"model": pl.name, "data": dk}
    for keep in _patterns(n):
        for label, mech in _mechanisms(keep, two_d):
            data, raw = _build_data(mods, dk, n, keep, mech, f, case.get("maskrep", "bool"))
            # index recomputed from the raw arrays
            idx = (~raw["mask"]) & (raw["q"] >= raw["qmin"]) & (raw["q"] <= raw["qmax"]) & ~np.isnan(raw["y"])
            pattern = "".join("1" if k else "0" for k in keep) if n <= 8 else "%d/%d kept" % (sum(keep), n)
            if list(idx) != list(keep):
                raise HarnessError("mechanism %s does not realise pattern %s (%s)" % (label, pattern, idx))
            stored = "None" if data.mask is None else "%s array %s" % (data.mask.dtype, list(data.mask[:8]))
            desc = ("%s data=%s n=%d keep=%s via %s (data.mask stored as %s, y=%s, qmin=%r, qmax=%r, q=%s) pars=%s"
                    % (pl.name, dk, n, pattern, label, stored, raw["y"][:8], raw["qmin"], raw["qmax"],
                       raw["q"][:8], {k: v for k, v in pars.items() if "_pd" in k}))
            br = ["data-" + dk, "mechanism-" + label,
                  "mask-stored-as-%s:%s" % ("None" if data.mask is None else data.mask.dtype.name, "2d" if two_d else "1d")]
            if raw["mask"].any():
                br.append("mask-in-effect-as-%s:%s" % (data.mask.dtype.name, "2d" if two_d else "1d"))
            nt = not all(keep)
            if nt:
                br.append("pattern-removes-points")
            if not any(keep):
                br.append("nothing-selected")
            try:
                want = _expected(mods, dk, raw, idx, model, pars, cutoff)
            except Exception as exc:  # noqa - the smearing classes refuse some degenerate selections (C03's business)
                want = exc
            for iface in ("DirectModel", "bumps"):
                sub = {"keep": pattern, "mechanism": label, "interface": iface}
                try:
                    if iface == "DirectModel":
                        calc = DirectModel(data, model, cutoff=cutoff)
                        got = calc(**pars)
                        sel_y = calc.Iq
                    else:
                        ex = bumps_model.Experiment(data, bumps_model.Model(model, **pars), cutoff=cutoff)
                        got = ex.theory()
                        sel_y = ex.Iq
                        if ex.numpoints() != len(got):
                            r.fail("%s\n  bumps numpoints()=%d but theory has %d values" % (desc, ex.numpoints(), len(got)),
                                   dict(fk0, clause="numpoints", interface=iface), sub, branches=br, nt=nt)
                            continue
                except Exception as exc:  # noqa
                    if isinstance(want, Exception) and type(want) is type(exc):
                        r.ok(nt=False, outcome="smearing-refused:" + type(exc).__name__, branches=br + ["smearing-refused"])
                        continue
                    r.fail("%s\n  %s raised %r (expected %s)" % (desc, iface, exc, "theory of length %d" % idx.sum()
                                                                  if not isinstance(want, Exception) else repr(want)),
                           dict(fk0, clause="raises", interface=iface, exception=type(exc).__name__), sub, branches=br, nt=nt)
                    continue
                if isinstance(want, Exception):
                    r.inconc("oracle-smearing-raised", n=1)
                    continue
                got = np.asarray(got, float)
                if got.shape != (int(idx.sum()),):
                    r.fail("%s\n  %s returned %d values, the data select %d points" % (desc, iface, got.size, idx.sum()),
                           dict(fk0, clause="selection-length", interface=iface), sub, branches=br, nt=nt)
                    continue
                if not _same(np.asarray(sel_y, float), raw["y"][idx]):
                    r.fail("%s\n  %s pairs the theory with data %s, the selected data are %s"
                           % (desc, iface, sel_y, raw["y"][idx]), dict(fk0, clause="selection-data", interface=iface), sub,
                           branches=br, nt=nt)
                    continue
                if not _same(got, want):
                    r.fail("%s\n  %s theory  =%s\n  expected (kernel on the selected raw points) =%s" % (desc, iface, got, want),
                           dict(fk0, clause="selection", interface=iface), sub, branches=br, nt=nt)
                    continue
                r.ok(nt=nt, outcome="%s:%s:%d" % (dk, label, min(int(idx.sum()), 5)), trans=2, branches=br)
            # the keyword convenience functions take the raw vectors (no mask / limits): compared when nothing is removed
            if label == "none" and not isinstance(want, Exception):
                sub = {"keep": pattern, "mechanism": label, "interface": "Iq"}
                try:
                    if two_d:
                        got = direct_model.Iqxy(pl.name, raw["qx"].copy(), raw["qy"].copy(),
                                                dqx=None if raw["dqx"] is None else raw["dqx"].copy(),
                                                dqy=None if raw["dqy"] is None else raw["dqy"].copy(), **pars)
                    else:
                        got = direct_model.Iq(pl.name, raw["q"].copy(), dq=None if raw["dx"] is None else raw["dx"].copy(),
                                              ql=None if raw["dxl"] is None else raw["dxl"].copy(),
                                              qw=None if raw["dxw"] is None else raw["dxw"].copy(), **pars)
                    if _same(got, want):
                        r.ok(nt=bool(st["pd"]), outcome="Iq-with-resolution:" + dk, branches=["Iq-on-data-" + dk])
                    else:
                        r.fail("%s\n  direct_model.%s =%s\n  expected          =%s" % (desc, "Iqxy" if two_d else "Iq", got, want),
                               dict(fk0, clause="mismatch", interface="Iq"), sub, branches=br)
                except Exception as exc:  # noqa
                    r.fail("%s\n  direct_model.%s raised %r" % (desc, "Iqxy" if two_d else "Iq", exc),
                           dict(fk0, clause="raises", interface="Iq", exception=type(exc).__name__), sub, branches=br)
            # without smearing every point is independent: the unmasked evaluation indexed by idx
            if dk in ("plain", "dx0", "dxmix", "2d") and not isinstance(want, Exception):
                kin = [raw["qx"].copy(), raw["qy"].copy()] if two_d else [raw["q"].copy()]
                ok_q = np.isfinite(kin[0])
                full = call_kernel(model.make_kernel(kin), dict(pars), cutoff=cutoff)
                if not _same(full[idx], want):
                    r.fail("%s\n  unmasked evaluation indexed by the selection =%s\n  evaluation of the selected points       =%s"
                           % (desc, full[idx], want), dict(fk0, clause="selection-unmasked"), {"keep": pattern}, branches=br, nt=nt)
                else:
                    r.ok(nt=nt, outcome="unmasked-indexed", branches=["unmasked-indexed"])
            if nt and not r.samples:
                r.sample({"data": desc, "selected": [int(i) for i in np.flatnonzero(idx)][:10]})
    return r


# ------------------------------------------------------------------------------------------------
# unk

def _foreign_names(pl):
    """valid parameter names of OTHER models that this model does not define"""
    mine = set(pl.by_name)
    pool = ["radius", "length", "sld", "sld_solvent", "thickness", "volfraction", "theta", "up_frac_i", "sld_M0",
            "radius_effective", "n_shells", "kuhn_length", "rg"]
    return [n for n in pool if n not in mine][:3]


def _run_unk(case, ctx):
    mods = _imports()
    bumps_model, direct_model, sasview_model, weights, sdata, resolution, resolution2d = mods
    from sasmodels.direct_model import call_kernel, DirectModel
    r = R()
    pl = plan(case["model"])
    model = build.model(pl.name)
    q1, q2 = _qvec("1d"), _qvec("2d")
    k1 = model.make_kernel(q1)
    k2 = model.make_kernel(q2)
    d1 = sdata.Data1D(x=q1[0].copy())
    d2 = sdata.Data2D(x=q2[0].copy(), y=q2[1].copy())
    cls = sasview_class(pl.name, sasview_model)
    base = {}
    if pl.size:
        base = {pl.size[0] + "_pd": 0.1, pl.size[0] + "_pd_n": 3}    # a legitimate dispersity setting rides along

    # (kind, underscore-name | None, value, dotted-name | None)
    names = []
    for p in pl.call:
        n = p.name
        names.append(("suffix-x", n + "x", 1.0, n + "x"))
        if n.upper() != n:
            names.append(("upper-case", n.upper(), 1.0, n.upper()))
        if not p.polydisperse:
            names.append(("pd-on-nondispersible", n + "_pd", 0.1, n + ".width"))
            names.append(("pd-on-nondispersible", n + "_pd_n", 3, n + ".npts"))
            names.append(("pd-on-nondispersible", n + "_pd_nsigma", 2.0, n + ".nsigmas"))
            names.append(("pd-on-nondispersible", n + "_pd_type", "gaussian", n + ".type"))
        else:
            names.append(("unknown-pd-attribute", n + "_pd_x", 0.1, n + ".widthx"))
            names.append(("unknown-pd-attribute", n + "_pdn", 3, n + ".n"))
            names.append(("scheme-crossed", n + ".width", 0.1, n + "_pd"))      # each scheme refuses the other's spelling
    for n in _foreign_names(pl):
        names.append(("other-model", n, 1.0, n))
    names.append(("other-model", "no_such_parameter", 1.0, "no_such_parameter"))

    def expect_refusal(label, kind, name, fn):
        sub = {"interface": label, "name": name}
        try:
            got = fn()
        except (TypeError, ValueError) as exc:
            r.ok(nt=True, outcome="refused:" + type(exc).__name__, branches=["refused-" + label, "kind-" + kind])
            return
        except Exception as exc:  # noqa
            r.fail("%s: %s with unknown name %r raised %r (TypeError/ValueError expected)" % (pl.name, label, name, exc),
                   {"clause": "unknown-wrong-exception", "interface": label, "kind": kind, "exception": type(exc).__name__},
                   sub, branches=["kind-" + kind])
            return
        r.fail("%s: %s accepted the name %r, which the model does not define (returned %s)"
               % (pl.name, label, name, np.asarray(got)[:3] if got is not None else None),
               {"clause": "unknown-accepted", "interface": label, "kind": kind}, sub, branches=["kind-" + kind])

    for kind, us, val, dotted in names:
        pars = dict(base)
        pars[us] = val
        expect_refusal("call_kernel", kind, us, lambda: call_kernel(k1, dict(pars), cutoff=1e-5))
        expect_refusal("call_kernel-2d", kind, us, lambda: call_kernel(k2, dict(pars), cutoff=1e-5))
        expect_refusal("DirectModel", kind, us, lambda: DirectModel(d1, model)(**pars))
        expect_refusal("DirectModel-2d", kind, us, lambda: DirectModel(d2, model)(**pars))
        expect_refusal("Iq", kind, us, lambda: direct_model.Iq(pl.name, q1[0].copy(), **pars))
        expect_refusal("Iqxy", kind, us, lambda: direct_model.Iqxy(pl.name, q2[0].copy(), q2[1].copy(), **pars))
        expect_refusal("bumps", kind, us, lambda: bumps_model.Experiment(d1, bumps_model.Model(model, **pars)).theory())

        def sv_set():
            obj = cls()
            obj.setParam(dotted, val)
            return obj.evalDistribution(q1[0].copy())
        expect_refusal("sasview.setParam", kind, dotted, sv_set)

        def sv_get():
            return cls().getParam(dotted)
        expect_refusal("sasview.getParam", kind, dotted, sv_get)

    # set_dispersion: only dispersible parameters of the model may receive a distribution
    for p in pl.call:
        targets = [("suffix-x", p.name + "x")]
        if not p.polydisperse:
            targets.append(("pd-on-nondispersible", p.name))
        for kind, name in targets:
            for dcls, dl in ((weights.GaussianDispersion, "Dispersion"), (weights.ArrayDispersion, "ArrayDispersion")):
                def sv_disp():
                    obj = cls()
                    obj.set_dispersion(name, dcls(3, 0.1, 3.0) if dl == "Dispersion" else dcls())
                    return obj.evalDistribution(q1[0].copy())
                expect_refusal("sasview.set_dispersion", kind, name, sv_disp)
    # control: the legitimate names are accepted by every interface (otherwise the block above proves nothing)
    st = _sel_settings(pl, True, "1d")
    res = _evaluate(pl, st, mods)
    bad = {k: v for k, v in res.items() if isinstance(v, Exception)}
    if bad:
        k = sorted(bad)[0]
        r.fail("%s: the legitimate settings %s are refused by %s: %r" % (pl.name, underscore_pars(st), k, bad[k]),
               {"clause": "raises", "interface": k, "model": pl.name, "q": "1d", "exception": type(bad[k]).__name__})
    else:
        r.ok(nt=False, outcome="legitimate-accepted", branches=["legitimate-accepted"])
    _name_sets(r, pl, mods, k2)
    if not r.samples:
        r.sample({"model": pl.name, "names_tried": len(names), "examples": [n[1] for n in names[:6]]})
    return r


_DOTTED = (("", ""), ("_pd", ".width"), ("_pd_n", ".npts"), ("_pd_nsigma", ".nsigmas"), ("_pd_type", ".type"))


def _name_sets(r, pl, mods, kernel2d):
    """
    Structural clause: for the plain object and for every multiplicity used, the names the SasView object takes
    (setParam/getParam: parameters, dispersity attributes, magnetic parameters), translated to the keyword scheme,
    are exactly the names call_kernel takes minus those a multiplicity-n object has no use for.
    """
    import re
    bumps_model, direct_model, sasview_model, weights, sdata, resolution, resolution2d = mods
    from sasmodels.direct_model import call_kernel
    cls = sasview_class(pl.name, sasview_model)
    sample = {"": 1.0, "_pd": 0.0, "_pd_n": 3, "_pd_nsigma": 3.0, "_pd_type": "gaussian"}
    direct = set()
    candidates = []
    for p in pl.call:
        for us, dot in _DOTTED:
            candidates.append((p.name + us, p.name + dot, p.default if us == "" else sample[us]))
    for us_name, _, val in candidates:
        try:
            call_kernel(kernel2d, {us_name: val}, cutoff=0.0)
            direct.add(us_name)
        except TypeError:
            pass                      # "Unused parameters in call"
        except Exception:  # noqa - the name was taken; what the evaluation does with the value is not this clause
            direct.add(us_name)
    mults = [None] + (pl.control_values() if pl.control is not None else [])
    for n in mults:
        obj = cls() if n is None else cls(n)
        hidden = set() if n is None else pl.expected_hidden(n)
        if pl.structure:
            hidden |= {"scale", "background"}
        taken = set()
        for us_name, dotted, val in candidates:
            try:
                cur = obj.getParam(dotted)
                obj.setParam(dotted, cur)
                taken.add(us_name)
            except ValueError:
                pass
        expected = set()
        for us_name in direct:
            base = us_name
            for us, _ in _DOTTED[1:]:
                if us_name.endswith(us) and us_name[:-len(us)] in pl.by_name:
                    base = us_name[:-len(us)]
            if base not in hidden:
                expected.add(us_name)
        br = ["name-set-checked", "name-set-multiplicity-%s" % ("none" if n is None else "ctor")]
        if n == 0:
            br.append("name-set-multiplicity-zero")
        wrong = sorted((expected - taken) | (taken - expected))
        if not wrong:
            r.ok(nt=n is not None, outcome="name-set:%d" % min(len(taken), 9), branches=br, n=1)
            continue
        seen = set()
        for name in wrong:
            refuses = "sasview" if name in expected else "direct"
            pattern = re.sub(r"\d+(?=$|_M0|_mtheta|_mphi|_pd)", "#", name)     # the vector index only
            if (refuses, pattern) in seen:
                continue
            seen.add((refuses, pattern))
            r.fail("%s multiplicity=%r: the name %r is %s" % (
                pl.name, n, name,
                "taken by call_kernel/DirectModel (and in use for this multiplicity) but refused by the SasView object "
                "(setParam/getParam raise ValueError)" if refuses == "sasview" else
                "taken by the SasView object but refused by call_kernel/DirectModel or beyond the multiplicity"),
                {"clause": "name-set-mismatch", "interface": refuses, "pattern": pattern},
                {"multiplicity": n, "name": name}, branches=br)


# ------------------------------------------------------------------------------------------------
# reuse: ONE calculator object per interface evaluated for setting A, then changed to setting B

REUSE_VARIANTS = ["base", "param", "width", "npts", "nsigmas", "type", "cutoff", "magnetic", "mult"]
REUSE_QUICK = [["sphere", "1d"], ["cylinder", "2d"], ["core_multi_shell", "1d"]]
REUSE_THOROUGH = REUSE_QUICK + [["sphere", "2d"], ["core_shell_sphere", "1d"], ["core_multi_shell", "2d"], ["onion", "1d"],
                                ["lamellar", "1d"], ["ellipsoid", "2d"], ["parallelepiped", "1d"]]
REUSE_INTERFACES = ["call_kernel", "DirectModel", "bumps", "sasview", "sasview-set_dispersion", "Iq"]


def _reuse_variants(pl, q):
    return [v for v in REUSE_VARIANTS
            if (v != "magnetic" or (q == "2d" and pl.magnetic)) and (v != "mult" or pl.control is not None)]


def _reuse_setting(pl, q, variant, f):
    """the base setting, or the base setting changed in exactly one respect; every setting states the same keys"""
    cfg = {"q": q, "pd0": ["gaussian", 4, 0.1, 3.0], "cutoff": 1e-5, "nominal": f}
    if variant == "mult":
        cfg["mult"] = ["param", int(pl.control.default) + 1]      # the multiplicity is a setting like any other
    st = settings_for(pl, cfg)
    name = pl.size[0]
    t, n, w, ns = st["pd"][name]
    if q == "2d" and pl.magnetic:
        st["values"][pl.sld + "_M0"] = 2.0
        st["values"][pl.sld + "_mtheta"] = 30.0
        st["values"]["up_frac_i"] = 0.3
    if variant == "param":
        st["values"][name] = st["values"][name] * 1.125
    elif variant == "width":
        w = 0.2
    elif variant == "npts":
        n = 6
    elif variant == "nsigmas":
        ns = 2.0
    elif variant == "type":
        t = "lognormal"
    elif variant == "cutoff":
        st["cutoff"] = 0.01
    elif variant == "magnetic":
        st["values"][pl.sld + "_M0"] = 3.5
    elif variant not in ("base", "mult"):
        raise HarnessError("variant %r" % variant)
    st["pd"][name] = (t, n, w, ns)
    return st


def _sv_apply(obj, pl, st, mode, weights):
    """take an existing SasView object to the setting st through its own vocabulary"""
    for name, v in st["values"].items():
        obj.setParam(name, v)
    for name, (t, n, w, ns) in st["pd"].items():
        if mode == "setParam":
            obj.setParam(name + ".width", w)
            obj.setParam(name + ".npts", n)
            obj.setParam(name + ".type", t)
            obj.setParam(name + ".nsigmas", ns)
        else:
            obj.set_dispersion(name, weights.DISTRIBUTIONS[t](n, w, ns))
    obj.cutoff = st["cutoff"]


def _clone_child(arg):
    """
    pristine process: a SasView object with setting A is cloned; ONE of the two (original / clone) is taken to
    setting B (dispersity through setParam or through set_dispersion); both are evaluated.
    -> {"<who>/<how>": {"mutated": hex, "other": hex}}
    """
    mods = _imports()
    bumps_model, direct_model, sasview_model, weights, sdata, resolution, resolution2d = mods
    pl = plan(arg["model"])
    q = _qvec(arg["q"])
    sta = _reuse_setting(pl, arg["q"], arg["a"], arg["f"])
    stb = _reuse_setting(pl, arg["q"], arg["b"], arg["f"])
    out = {}

    def ev(obj):
        try:
            res = obj.evalDistribution([q[0].copy(), q[1].copy()] if arg["q"] == "2d" else q[0].copy())
            return np.array(res, float).tobytes().hex()
        except Exception as exc:  # noqa
            return "ERR:%r" % (exc,)

    with warnings.catch_warnings():
        warnings.simplefilter("ignore")
        with np.errstate(all="ignore"):
            for who in ("original", "clone"):
                for how in ("setParam", "set_dispersion"):
                    try:
                        original = sasview_object(pl, dict(sta, svmode=how), mods)
                        if arg.get("evaluate_first"):
                            ev(original)
                        copy_ = original.clone()
                        mutated, other = (original, copy_) if who == "original" else (copy_, original)
                        _sv_apply(mutated, pl, stb, how, weights)
                        out[who + "/" + how] = {"other": ev(other), "mutated": ev(mutated)}
                    except Exception as exc:  # noqa
                        out[who + "/" + how] = {"other": "ERR:%r" % (exc,), "mutated": "ERR:%r" % (exc,)}
    return out


def _preload():
    _imports()


def _reuse_child(arg):
    """runs in a pristine process: every interface's single object is taken through the sequence of settings"""
    mods = _imports()
    bumps_model, direct_model, sasview_model, weights, sdata, resolution, resolution2d = mods
    from sasmodels.direct_model import call_kernel, DirectModel
    pl = plan(arg["model"])
    q = _qvec(arg["q"])
    sts = [_reuse_setting(pl, arg["q"], v, arg["f"]) for v in arg["seq"]]
    model = build.model(pl.name)
    out = {}

    def mk_data():
        if arg["q"] == "2d":
            return sdata.Data2D(x=q[0].copy(), y=q[1].copy())
        return sdata.Data1D(x=q[0].copy())

    def record(key, steps):
        res = []
        try:
            for step in steps:
                res.append(np.array(step(), float).tobytes().hex())
        except Exception as exc:  # noqa
            res.append("ERR:%r" % (exc,))
        out[key] = res

    with warnings.catch_warnings():
        warnings.simplefilter("ignore")
        with np.errstate(all="ignore"):
            kernel = model.make_kernel([v.copy() for v in q])
            record("call_kernel", [(lambda st=st: call_kernel(kernel, underscore_pars(st), cutoff=st["cutoff"])) for st in sts])

            calc = DirectModel(mk_data(), model, cutoff=sts[0]["cutoff"])

            def dm(st):
                calc.cutoff = st["cutoff"]
                return calc(**underscore_pars(st))
            record("DirectModel", [(lambda st=st: dm(st)) for st in sts])

            state = {}

            def bm(i, st):
                pars = underscore_pars(st)
                if i == 0:
                    state["model"] = bumps_model.Model(model, **pars)
                    state["ex"] = bumps_model.Experiment(mk_data(), state["model"], cutoff=st["cutoff"])
                else:
                    for k, v in pars.items():
                        if k.endswith("_pd_type"):
                            setattr(state["model"], k, v)
                        else:
                            getattr(state["model"], k).value = v
                    state["ex"].cutoff = st["cutoff"]
                state["ex"].update()          # what a fit calls whenever parameters have changed
                return state["ex"].theory()
            record("bumps", [(lambda i=i, st=st: bm(i, st)) for i, st in enumerate(sts)])

            for key, mode in (("sasview", "setParam"), ("sasview-set_dispersion", "set_dispersion")):
                holder = {}

                def sv(i, st, mode=mode, holder=holder):
                    st = dict(st, svmode=mode)
                    if i == 0:
                        holder["obj"] = sasview_object(pl, st, mods)
                    else:
                        _sv_apply(holder["obj"], pl, st, mode, weights)
                    obj = holder["obj"]
                    return obj.evalDistribution([q[0].copy(), q[1].copy()] if arg["q"] == "2d" else q[0].copy())
                record(key, [(lambda i=i, st=st, sv=sv: sv(i, st)) for i, st in enumerate(sts)])

            if all(st["cutoff"] == 1e-5 for st in sts):
                def iq(st):
                    pars = underscore_pars(st)
                    if arg["q"] == "2d":
                        return direct_model.Iqxy(pl.name, q[0].copy(), q[1].copy(), **pars)
                    return direct_model.Iq(pl.name, q[0].copy(), **pars)
                record("Iq", [(lambda st=st: iq(st)) for st in sts])
    return out


def _run_reuse(case, ctx):
    from .. import zygote
    r = R()
    pl = plan(case["model"])
    qk = case["q"]
    f = 1.0 if ctx.seed == 0 else ctx.factor(2)
    variants = _reuse_variants(pl, qk)

    def child(seq):
        out = zygote.call(ctx, "c10", "mc.props.c10:_reuse_child", {"model": pl.name, "q": qk, "seq": seq, "f": f})
        if "value" not in out:
            raise HarnessError("reuse child failed for %s %s %s: %s" % (pl.name, qk, seq, str(out)[-600:]))
        return out["value"]

    def decode(h):
        return h if h.startswith("ERR:") else np.frombuffer(bytes.fromhex(h), float)

    fresh = {v: child([v]) for v in variants}
    fk0 = {"model": pl.name, "q": qk}
    # the fresh objects agree across interfaces as usual
    for v in (variants if case["first"] == "base" else []):
        ref = fresh[v]["call_kernel"][0]
        for iface, res in fresh[v].items():
            br = ["reuse-fresh"]
            if res[0].startswith("ERR:") or res[0] != ref:
                r.fail("%s %s setting %r (%s): fresh %s gives %s, fresh call_kernel gives %s"
                       % (pl.name, qk, v, _describe(pl, _reuse_setting(pl, qk, v, f)), iface, decode(res[0]), decode(ref)),
                       dict(fk0, clause="raises" if res[0].startswith("ERR:") else "mismatch", interface=iface),
                       {"setting": v}, branches=br)
            else:
                r.ok(nt=True, outcome="fresh-agree", branches=br)
    for a in [case["first"]]:
        for b in variants:
            if a == b:
                continue
            changed = "+".join(sorted(x for x in (a, b) if x != "base"))
            # clone sequences: the SasView object with setting a is cloned, one of the two is taken to b
            out = zygote.call(ctx, "c10", "mc.props.c10:_clone_child",
                              {"model": pl.name, "q": qk, "a": a, "b": b, "f": f, "evaluate_first": b != "base"})
            if "value" not in out:
                raise HarnessError("clone child failed for %s %s %s->%s: %s" % (pl.name, qk, a, b, str(out)[-600:]))
            for key, got in sorted(out["value"].items()):
                who, how = key.split("/")
                br = ["clone-sequence", "clone-mutated-" + who, "clone-changed-" + changed, "clone-via-" + how]
                want_m, want_o = fresh[b]["sasview"][0], fresh[a]["sasview"][0]
                if got["mutated"] == want_m and got["other"] == want_o:
                    r.ok(nt=True, outcome="clone-ok", trans=3, branches=br)
                    continue
                wrong = "other" if got["other"] != want_o else "mutated"
                r.fail("%s %s: SasView object with setting %r cloned, then the %s taken to setting %r via %s (changed: %s)\n"
                       "  A = %s\n  B = %s\n  the %s object (%s) evaluates to %s\n  a fresh object with its own setting gives %s"
                       % (pl.name, qk, a, who, b, how, changed, _describe(pl, _reuse_setting(pl, qk, a, f)),
                          _describe(pl, _reuse_setting(pl, qk, b, f)),
                          "untouched" if wrong == "other" else "modified",
                          ("clone" if who == "original" else "original") if wrong == "other" else who,
                          decode(got[wrong]), decode(want_o if wrong == "other" else want_m)),
                       dict(fk0, clause="clone", wrong=wrong, changed=changed, via=how),
                       {"first": a, "then": b, "mutated": who, "via": how}, branches=br, trans=3)
            seq = child([a, b])
            for iface in REUSE_INTERFACES:
                if iface not in seq:
                    continue
                br = ["reuse-sequence", "reuse-changed-" + changed, "reuse-interface-" + iface]
                sub = {"first": a, "then": b, "interface": iface}
                got = seq[iface]
                want_b = fresh[b].get(iface)
                if want_b is None:
                    continue
                if len(got) == 2 and not got[1].startswith("ERR:") and got[1] == want_b[0] and got[0] == fresh[a][iface][0]:
                    r.ok(nt=True, outcome="reuse-ok:" + iface, trans=2, branches=br)
                    continue
                which = "second" if (len(got) == 2 and got[0] == fresh[a][iface][0]) else "first"
                r.fail("%s %s: ONE %s object evaluated for setting %r and then changed to setting %r (changed: %s)\n"
                       "  B = %s\n  %s evaluation of the reused object = %s\n  fresh object with that setting only = %s"
                       % (pl.name, qk, iface, a, b, changed, _describe(pl, _reuse_setting(pl, qk, b, f)), which,
                          decode(got[-1]), decode(want_b[0] if which == "second" else fresh[a][iface][0])),
                       dict(fk0, clause="reuse", interface=iface, changed=changed), sub, branches=br, trans=2)
    if not r.samples:
        r.sample({"model": pl.name, "q": qk, "settings": variants, "ordered_pairs": len(variants) * (len(variants) - 1),
                  "interfaces": REUSE_INTERFACES})
    return r


def finish(ctx, report):
    report.require("dispersity-active", 100, "eq cases with active dispersity")
    report.require("sasview-setParam", 50, "SasView dispersity through setParam")
    report.require("sasview-set_dispersion", 20, "SasView dispersity through set_dispersion")
    report.require("sasview-array", 20, "SasView ArrayDispersion")
    report.require("defaults-type-nsigma", 50, "distribution type / nsigmas left to the interface default")
    report.require("single-point-truncation", 10, "distribution truncated to one point by the limits")
    report.require("multiplicity-ctor", 4, "multiplicity constructor")
    report.require("multiplicity-param", 4, "multiplicity through the control parameter")
    report.require("structure-factor", 10, "structure factors (hidden scale/background)")
    report.require("scale-background-defaulted", 20, "scale/background left to the default")
    report.require("magnetic", 5, "magnetic 2-D")
    report.require("Iq-compared", 50, "direct_model.Iq/Iqxy in the comparison")
    for e in ("sasview.calculate_Iq:1d", "sasview.calculate_Iq:2d", "sasview.runXY:1d", "sasview.runXY:2d", "sasview.run:1d",
              "sasview.run:polar"):
        report.require("entry-" + e, 50, "SasView entry point " + e)
    for z in ("npts-beside-width", "width-beside-npts", "nsigmas-beside-npts", "npts-and-width", "value", "scale/background",
              "magnetic"):
        report.require("explicit-zero:" + z, 20, "setting given explicitly as zero: " + z)
    for o in ("ascending", "descending", "banks", "rotated"):
        report.require("q-order-" + o, 30, "q vector stored " + o)
    report.require("exception-tolerance", 2, "stated exception (orientation dispersity in 1-D through SasView)")
    report.require("pattern-removes-points", 500, "selection patterns removing points")
    report.require("nothing-selected", 10, "empty selection")
    report.require("mechanism-qlim-on-neighbour", 10, "q limit exactly on a datum")
    report.require("mechanism-q=0", 4, "q = 0 in 2-D data")
    report.require("unmasked-indexed", 100, "unmasked evaluation indexed by the selection")
    for dim in ("1d", "2d"):
        for dt in ("bool", "int8", "int64", "float64"):
            report.require("mask-stored-as-%s:%s" % (dt, dim), 20, "mask stored as %s, %s data" % (dt, dim))
            report.require("mask-in-effect-as-%s:%s" % (dt, dim), 20, "points masked through a %s mask, %s data" % (dt, dim))
    report.require("mask-stored-as-None:1d", 10, "1-D data without a mask array")
    for dk in ("plain", "dx0", "dx", "dxmix", "slit", "2d", "2dres"):
        report.require("data-" + dk, 20, "data kind " + dk)
        report.require("Iq-on-data-" + dk, 2, "direct_model.Iq/Iqxy on data kind " + dk)
    for label in ("call_kernel", "DirectModel", "Iq", "Iqxy", "bumps", "sasview.setParam", "sasview.set_dispersion"):
        report.require("refused-" + label, 100, "unknown names refused by " + label)
    report.require("kind-pd-on-nondispersible", 100, "dispersity suffix on a non-dispersible parameter")
    report.require("legitimate-accepted", 10, "legitimate names accepted")
    report.require("magnetic-last-element-in-use:ctor", 6, "magnetism on the last vector element in use, multiplicity constructor")
    report.require("magnetic-last-element-in-use:param", 6, "magnetism on the last vector element in use, control parameter")
    report.require("multiplicity-lower-limit:ctor:zero", 10, "multiplicity 0 through the constructor")
    report.require("multiplicity-lower-limit:param:zero", 10, "multiplicity 0 through the control parameter")
    report.require("multiplicity-upper-limit:ctor", 10, "largest multiplicity through the constructor")
    report.require("multiplicity-upper-limit:param", 10, "largest multiplicity through the control parameter")
    report.require("dispersed-vector-element", 50, "dispersity on an expanded vector element (thicknessK ...)")
    report.require("dispersed-last-vector-element-in-use", 10, "dispersity on the last vector element in use")
    report.require("name-set-multiplicity-zero", 2, "accepted-name sets of a multiplicity-0 object")
    report.require("name-set-checked", 16, "accepted-name sets compared")
    report.require("name-set-multiplicity-ctor", 8, "accepted-name sets for multiplicity objects")
    report.require("reuse-fresh", 10, "fresh objects for the reuse settings")
    report.require("clone-sequence", 200, "clone, change one, evaluate both")
    for w in ("original", "clone"):
        report.require("clone-mutated-" + w, 100, "clone sequences changing the " + w)
    for h in ("setParam", "set_dispersion"):
        report.require("clone-via-" + h, 100, "clone sequences changing dispersity through " + h)
    for v in ("param", "width", "npts", "nsigmas", "type", "cutoff", "magnetic", "mult"):
        report.require("clone-changed-" + v, 8, "clone sequence changing only " + v)
    report.require("reuse-sequence", 100, "two-setting sequences on one object")
    for v in ("param", "width", "npts", "nsigmas", "type", "cutoff", "magnetic", "mult"):
        report.require("reuse-changed-" + v, 8, "sequence changing only " + v)
    for i in REUSE_INTERFACES:
        report.require("reuse-interface-" + i, 20, "reused " + i + " object")

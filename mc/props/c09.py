"""
C09 - pure-Python and compiled-C executions of one generated model definition agree, and both equal
direct evaluation of the definition's formula; ill-formed definitions are rejected.

Program space (enumerated exhaustively from the grammar below, nothing sampled; one case = one program,
so every distinct C source is compiled by exactly one worker):

  table   ::= type{1..4},  type in {"" (plain), volume, sld}; parameter i is named b<i> / r<i> / s<i>
              (odd i, explicit type "sld") or sld<i> (even i, type "" - the implicit sld typing);
              default 1 + i/10, limits [0,inf] for volume, [-inf,inf] otherwise
  X "expr"  : every table of length 1..3  x  EVERY expression tree of depth <= 2 over the leaves
              {q, x_1..x_k, 1.5} with operators {a+b, a*b, 1/(1+a^2), exp(-a^2)} (commutative operands
              unordered) that mentions q and every parameter; form_volume = sum_k k*v_k if volume
              parameters exist
  L "intlit": one program per C99 math function (28: sin..atanh, atan2, erf, erfc, tgamma, exp, exp2, expm1, log, log2,
              log10, log1p, pow, sqrt, fabs, fmax, fmin) whose Iq sums calls with INTEGER LITERAL arguments - negative,
              positive, explicitly signed "+3", zero - inside the function's domain, as first argument, as second
              argument and as both; form_volume and radius_effective (c_code) contain such calls too; the Python twin
              and the direct evaluation use the same values
  T "table4": every table of length 4 with the canonical Iq = sum_i (1+i/2)*g_i(q*x_i), g alternating
              exp(-x^2), 1/(1+x^2)
  F "feature": base tables (length 1..3) with the canonical Iq, every combination of <= D feature
              deviations: one parameter turned into a vector x[n] with control parameter n placed
              last / first, or a fixed-length vector x[2]; shell_volume; two radius_effective modes;
              validity predicate x_i <= x_j (every ordered pair of scalar parameters; NaN in Python,
              `valid` in C); explicit Iqxy; form_volume / radius_effective given although the table
              has no volume parameter
  I "illformed": 14 malformation kinds (several variants each) x {C, Python} flavour, plus the
              well-formed controls they are derived from, plus the documented refusal of oriented
              Python models.

  O "oriented": C flavour only (oriented Python models are refused by design): tables r (volume), b (plain),
              optionally one vector parameter t (volume | plain; t[2] | t[3] | t[n] with the control n before or
              after it) at every position before the angles, then theta, phi (Iqac) or theta, phi, psi (Iqabc);
              Iqac / Iqabc are closed forms of (qab, qc) / (qa, qb, qc) and every parameter.  Inputs: four view-angle
              sets incl. (0,0,0), dispersity on r and on t1, orientation dispersity (jitter) on every non-empty subset
              of the angles (theta, phi, psi, theta+phi, theta+psi, phi+psi, all three; different point counts),
              off-nominal values, 2-D q in all four quadrants (plus the 1-D call).
              Oracle: (qa,qb,qc) = (qx,qy,0) . Rz(phi) Ry(theta) Rz(psi) Rx(dphi) Ry(dtheta) Rz(dpsi) (documented view
              rotation and jitter about the particle axes), mesh weights w*|cos(dtheta)|,
              the closed form evaluated in numpy, C01 reference mean.
  P "placement": EVERY table made of r, b and a non-empty subset of {theta, phi, psi} with the angles in every order and
              at every position relative to r and b (105 tables) x {Iqac, Iqabc} in the C flavour, plus the Python
              flavour: each must be refused at load/build OR, if accepted, evaluate its 2-D formula after the
              documented rotation with the angles read by name (default view, non-default view, jitter on every
              angle present) - never accepted-and-different.
  S "same-name": two / three DIFFERENT definitions written to files with the SAME basename in different
              directories (flavour combinations c/c, c/py, py/c, py/py, c/py/c; modification times equal /
              increasing / decreasing), loaded and evaluated in ONE fresh process (zygote) in the orders
              A,B,A / B,A,B / A,B,A,B (three files: A,B,C,A / C,B,A,C / A,B,C,A,B,C); every step is judged
              against the formula of the file actually requested and the engine class (PyModel / DllModel) must
              be the one of that file's flavour.

Per program, inputs are enumerated deviation-bounded (<= 2 dimensions off default): off-nominal values,
dispersity on each of the first three volume call parameters (gaussian/uniform, 2..5 points, one
alternative truncated by the lower limit), cutoff 0 / 0.05, 1-D / 2-D q, effective-radius mode.

In addition, for every program with >= 2 volume call parameters, a FULL product of inputs: two (and three)
simultaneously dispersed parameters with different point counts in both loop orders x cutoff in
{1e-5, 0.02, 0.05, exactly one product weight}, all three flavours.

Oracle: three-way.  The definition's expression trees are evaluated directly with numpy at every mesh
point (weights from weights.get_weights, decided separately by C02) and combined by the C01 reference
mean (plugin_gen.mean_from_points); the C build and the Python build (vectorised and non-vectorised Iq)
must both reproduce I(q), <F^2>, shell volume, volume ratio and - when modes are declared - R_eff.
"""
import itertools
import warnings

import numpy as np

from .. import plugin_gen as G
from .. import refmodel
from ..engine import R, HarnessError, case_id
from ..space import deviations

ID = "C09"
TITLE = "Pure-Python and compiled-C executions of one model definition agree"
LEVEL = "model_checking"
ENGINE = "E1"
TECHNIQUE = ("exhaustive enumeration of generated plug-in definitions from a stated grammar (tables x expression "
             "trees x feature deviations), each built as a C model and as a Python model and compared three-way "
             "with direct numpy evaluation of the definition over deviation-bounded inputs; enumerated list of "
             "malformed definitions that must be refused")
RULE = ("one case = one generated definition (program) with all its inputs (<=2 input dimensions off default); "
        "an evaluation is non-trivial when its dispersity mesh has >= 2 qualifying points; distinct = distinct "
        "(program, input) pairs")
ASSUMPTIONS = [
    "numpy evaluation of the expression tree is the meaning of the definition's formula",
    "weights.get_weights supplies (values, weights) per parameter (decided separately by C02)",
    "DLL driver and pure-Python driver only (no OpenCL/CUDA in the image)",
    "parameter values are drawn from the finite alphabet in coverage.bounds; all leaves are positive",
    "magnetism is outside the property (pure-Python models refuse it by design)",
]
BOUNDS = {
    "quick": {"expr": "tables of length 1..3, trees of depth<=2 with <=3 leaves (all 24 four-leaf trees for length 3), "
                      "one type sequence per tree (rotated by seed)",
              "table4": "the 16 type sequences over {plain, volume}",
              "feature": "8 base tables, D<=1 feature deviations + every vector x (shell|reff|valid) pair",
              "inputs": "D<=2 over nominal/off-nominal, pd alternatives (gaussian 3, uniform 2, gaussian 5, "
                        "uniform 4 truncated) on <=3 volume parameters, cutoff, 1-D/2-D, R_eff mode",
              "illformed": "14 kinds, all variants, both flavours"},
    "thorough": {"expr": "all tables of length 1..3 x all trees of depth<=2 mentioning q and every parameter",
                 "table4": "all 81 type sequences",
                 "feature": "all 39 base tables of length 1..3; D<=2 feature deviations for length<=2 and for 6 "
                            "length-3 tables, D<=1 for the other length-3 tables",
                 "inputs": "as quick", "illformed": "as quick"},
}
CASE_TIMEOUT = 300

INF = float("inf")
SCALE, BACKGROUND = 1.7, 0.25
Q1 = [0.21, 0.7, 1.3]
Q2 = [[0.5, 0.2], [-0.1, 1.3], [0.13, -0.3]]
PD_ALTS = [["gaussian", 3, 0.2], ["uniform", 2, 0.3], ["gaussian", 5, 0.15], ["uniform", 4, 1.5]]
QUICK_BASES = ["v", "p", "vp", "pv", "sv", "vvp", "svv", "pvs"]
D2_BASES3 = ["vvp", "svv", "pvs", "vpv", "vvv", "pps"]


# ------------------------------------------------------------------------------------------------
# program construction

def par_entry(i, t):
    """parameter number i (1-based) of type code t"""
    if t == "v":
        return {"name": "r%d" % i, "type": "volume", "default": 1.0 + 0.1 * i, "lo": 0.0, "hi": INF}
    if t == "s":
        if i % 2:
            return {"name": "s%d" % i, "type": "sld", "default": 1.0 + 0.1 * i, "lo": -INF, "hi": INF}
        return {"name": "sld%d" % i, "type": "", "default": 1.0 + 0.1 * i, "lo": -INF, "hi": INF}
    return {"name": "b%d" % i, "type": "", "default": 1.0 + 0.1 * i, "lo": -INF, "hi": INF}


def make_spec(types, tree=None, feats=None):
    """
    types: string over {p,v,s}; tree: expression over leaves q / ["p","x<i>"] / 1.5 (None = canonical);
    feats: dict of feature deviations.
    """
    feats = feats or {}
    entries = [par_entry(i + 1, t) for i, t in enumerate(types)]      # by position of the type string
    pars = list(entries)
    nodes = [["p", p["name"]] for p in entries]          # node used for parameter i in expressions
    vec = feats.get("vector")
    extra_nodes = []
    if vec:
        kind, pos = vec
        p = entries[pos]
        if kind == "fix":
            p["length"] = 2
        else:
            p["length"] = "n"
            ctl = {"name": "n", "type": "", "default": 2, "lo": 0, "hi": 2}
            if kind == "ctl-first":
                pars.insert(0, ctl)
            else:
                pars.append(ctl)
            extra_nodes.append(["p", "n"])
        nodes[pos] = ["e", p["name"], 0]
        extra_nodes.insert(0, ["e", p["name"], 1])
    spec = {"pars": pars, "types": types}
    if tree is None:
        terms = []
        for k, nd in enumerate(nodes + extra_nodes):
            terms.append([("gau", "inv")[k % 2], ["mul", ["q"], nd]])
        iq = G.lincomb(terms, 1.0, 0.5)
    else:
        iq = G.substitute(tree, {"x%d" % (i + 1): nodes[i] for i in range(len(types))})
    spec["iq"] = iq
    vnodes = []
    for i, t in enumerate(types):
        if t == "v":
            vnodes.append(nodes[i])
            if vec and vec[1] == i:
                vnodes.append(["e", entries[i]["name"], 1])
    spec["volume"] = G.lincomb(vnodes, 1.0, 1.0) if vnodes else None
    spec["shell"] = spec["reff"] = spec["valid"] = spec["iqxy"] = None
    if feats.get("shell") and vnodes:
        spec["shell"] = ["add", G.lincomb(vnodes, 0.5, 0.25), ["c", 0.125]]
    if feats.get("reff") and vnodes:
        spec["reff"] = [G.lincomb(vnodes, 2.0, 1.0), ["inv", G.lincomb(vnodes, 1.0, 0.0)]]
    if feats.get("valid"):
        i, j = feats["valid"]
        spec["valid"] = [nodes[i][1], nodes[j][1]]
    if feats.get("iqxy"):
        spec["iqxy"] = ["mul", ["c", 1.25], iq]
    if feats.get("novolfn") and not vnodes:
        # the table has no volume parameter, yet the definition supplies volume functions (no arguments)
        if feats["novolfn"] == "volume":
            spec["volume"] = ["c", 2.0]
        else:
            spec["reff"] = [["c", 3.0], ["c", 4.0]]
    return spec


def feature_dims(types):
    k = len(types)
    nvol = types.count("v")
    dims = []
    valts = []
    for i in range(k):
        valts += [["ctl-last", i], ["ctl-first", i], ["fix", i]]
    dims.append(("vector", None, valts))
    dims.append(("shell", None, [True] if nvol else []))
    dims.append(("reff", None, [True] if nvol else []))
    dims.append(("valid", None, [[i, j] for i in range(k) for j in range(k) if i != j]))
    dims.append(("iqxy", None, [True]))
    dims.append(("novolfn", None, [] if nvol else ["volume", "reff"]))
    return dims


def feats_ok(f):
    """a validity predicate compares scalar parameters only"""
    if f.get("vector") and f.get("valid") and f["vector"][1] in f["valid"]:
        return False
    return True


def feat_label(f):
    out = []
    for k in sorted(f):
        v = f[k]
        if v is None:
            continue
        if k == "vector":
            out.append("vector-" + v[0])
        elif k == "novolfn":
            out.append("no-volume-parameter-" + v)
        else:
            out.append(k)
    return "+".join(out) if out else "plain"


# ---- integer literals as arguments of C99 math functions (the type-generic-math promotion of convert_type rewrites
# them): every function of plugin_gen.MATH_FUNCTIONS, signed / unsigned / explicitly positive literals inside the
# function's domain, in first and in second position, and in both.
_ANY = ["-2", "2", "+3", "0", "-1"]
INT_ARGS_1 = dict({f: _ANY for f in ("sin", "cos", "tan", "atan", "sinh", "cosh", "tanh", "asinh", "erf", "erfc", "exp",
                                     "exp2", "expm1", "fabs")},
                  asin=["-1", "0", "1", "+1"], acos=["-1", "0", "1", "+1"], atanh=["0", "-0"],
                  acosh=["1", "2", "+3"], tgamma=["2", "+3", "5"], log=["2", "+3", "10", "1"],
                  log2=["2", "+3", "10", "1"], log10=["2", "+3", "10", "1"], log1p=["2", "0", "+3"],
                  sqrt=["2", "0", "+3", "4"])
INT_ARGS_2 = {   # (literals as first argument, literals as second argument, (first, second) literal pairs)
    "pow": (["2", "+3", "0"], _ANY, [["-2", "3"], ["2", "-2"], ["-1", "2"]]),
    "atan2": (_ANY, _ANY, [["-1", "-2"], ["+3", "-1"]]),
    "fmin": (_ANY, _ANY, [["-2", "-1"], ["2", "-2"]]),
    "fmax": (_ANY, _ANY, [["-2", "-1"], ["2", "-2"]]),
}
INT_FUNCTIONS = sorted(INT_ARGS_1) + sorted(INT_ARGS_2)


def intlit_spec(fn):
    """table r1 (volume), b2 (plain); Iq, form_volume and radius_effective all contain integer-literal math calls"""
    spec = make_spec("vp", None, {"reff": True})
    x = ["mul", ["q"], ["p", "b2"]]
    if fn in INT_ARGS_1:
        calls = [["call", fn, ["i", t]] for t in INT_ARGS_1[fn]]
    else:
        first, second, both = INT_ARGS_2[fn]
        calls = ([["call", fn, ["i", t], x] for t in first] + [["call", fn, x, ["i", t]] for t in second]
                 + [["call", fn, ["i", a], ["i", b]] for a, b in both])
    spec["iq"] = ["add", spec["iq"], G.lincomb(calls, 0.25, 0.125)]
    spec["volume"] = ["add", spec["volume"], ["add", ["call", "fabs", ["i", "-3"]], ["call", "exp", ["i", "-2"]]]]
    spec["reff"] = [["add", spec["reff"][0], ["call", "fmin", ["i", "-3"], ["p", "r1"]]],
                    ["add", spec["reff"][1], ["call", "atan2", ["i", "-1"], ["p", "r1"]]]]
    return spec


def type_strings(k):
    return ["".join(t) for t in itertools.product("pvs", repeat=k)]


def expr_trees(k):
    leaves = [["q"]] + [["p", "x%d" % (i + 1)] for i in range(k)] + [["c", 1.5]]
    need = {"q"} | {"x%d" % (i + 1) for i in range(k)}
    return [t for t in G.all_trees(leaves, 2) if need <= G.symbols(t)]


def nleaves(t):
    return 1 if t[0] in ("q", "a", "p", "c", "e") else sum(nleaves(x) for x in t[1:])


def cases(ctx):
    out = []
    # ---- X: expression family
    for k in (1, 2, 3):
        trees = expr_trees(k)
        tstr = type_strings(k)
        for n, tree in enumerate(trees):
            if ctx.quick:
                if k < 3 and nleaves(tree) > 3:
                    continue
                out.append({"kind": "pair", "family": "expr", "types": tstr[(n + ctx.seed) % len(tstr)], "tree": tree})
            else:
                for ts in tstr:
                    out.append({"kind": "pair", "family": "expr", "types": ts, "tree": tree})
    # ---- L: integer literal arguments of math functions (one program per function, all its literal/position variants)
    for fn in INT_FUNCTIONS:
        out.append({"kind": "pair", "family": "intlit", "types": "vp", "fn": fn})
    # ---- T: four-parameter tables
    for ts in type_strings(4):
        if ctx.quick and "s" in ts:
            continue
        out.append({"kind": "pair", "family": "table4", "types": ts, "feats": {}})
    # ---- F: feature deviations
    bases = QUICK_BASES if ctx.quick else [ts for k in (1, 2, 3) for ts in type_strings(k)]
    for ts in bases:
        dims = feature_dims(ts)
        bound = 1 if ctx.quick else (2 if (len(ts) <= 2 or ts in D2_BASES3) else 1)
        for ndev, f in deviations(dims, bound):
            f = {k: v for k, v in f.items() if v is not None}
            if feats_ok(f):
                out.append({"kind": "pair", "family": "feature", "types": ts, "feats": f})
        if bound == 1:
            # every vector alternative combined with each volume-function / validity feature
            d = dict((n, a) for n, _, a in dims)
            for v in d["vector"]:
                for other in ("shell", "reff", "valid"):
                    for a in d[other]:
                        f = {"vector": v, other: a}
                        if feats_ok(f):
                            out.append({"kind": "pair", "family": "feature", "types": ts, "feats": f})
    # ---- I: ill-formed definitions
    for kind, variants in ILLFORMED.items():
        for var in variants:
            for flavour in ("c", "py"):
                out.append({"kind": "illformed", "what": kind, "variant": var, "flavour": flavour})
    for ctl in CONTROLS:
        out.append({"kind": "control", "what": ctl, "flavour": "c"})
        if ctl in ("plain", "vector"):
            out.append({"kind": "control", "what": ctl, "flavour": "py"})
    out.append({"kind": "py-oriented"})
    # ---- O: oriented C definitions
    for sym in ("ac", "abc"):
        out.append({"kind": "oriented", "sym": sym, "vec": None})
        for vec in ("fix2", "fix3", "ctl-before", "ctl-after"):
            for vtype in ("volume", ""):
                for vpos in (0, 1, 2):
                    out.append({"kind": "oriented", "sym": sym, "vec": vec, "vtype": vtype, "vpos": vpos})
    # ---- P: every placement of the orientation parameters in a small table
    for order in placements():
        for fn2d in ("ac", "abc"):
            out.append({"kind": "placement", "order": order, "sym": fn2d, "flavour": "c"})
        out.append({"kind": "placement", "order": order, "sym": None, "flavour": "py"})
    # ---- S: files with the same basename
    for flav in (["c", "c"], ["c", "py"], ["py", "c"], ["py", "py"], ["c", "py", "c"]):
        for mt in ("equal", "increasing", "decreasing"):
            out.append({"kind": "same-name", "flavours": flav, "mtime": mt})
    return out


# ------------------------------------------------------------------------------------------------
# inputs

def input_dims(spec, ctx):
    vol_names = [nm for nm, p in G.call_names(spec) if p["type"] == "volume"][:3]
    dims = [("nominal", False, [True])]
    for nm in vol_names:
        dims.append(("pd:" + nm, None, PD_ALTS))
    dims.append(("cutoff", 0.0, [0.05]))
    dims.append(("q", "1d", ["2d"]))
    if spec.get("reff") is not None:
        dims.append(("mode", 1, [2, 0]))
    return dims


PRODUCT_CUTOFFS = [1e-5, 0.02, 0.05, "eq"]


def product_inputs(spec):
    """
    FULL product (not deviation-bounded) of: two / three simultaneously dispersed volume call parameters with
    different point counts in both loop orders  x  cutoff in {1e-5, 0.02, 0.05, exactly one product weight}.
    """
    vol = [nm for nm, p in G.call_names(spec) if p["type"] == "volume"]
    out = []
    g3, g5, u2 = ["gaussian", 3, 0.2], ["gaussian", 5, 0.15], ["uniform", 2, 0.3]
    if len(vol) >= 2:
        for a, b in ((g3, g5), (g5, g3)):
            for c in PRODUCT_CUTOFFS:
                out.append({"nominal": False, "q": "1d", "cutoff": c, "product": True,
                            "pd:" + vol[0]: a, "pd:" + vol[1]: b})
    if len(vol) >= 3:
        for a, b, c3 in ((g3, g5, u2), (u2, g3, g5)):
            for c in PRODUCT_CUTOFFS[:3]:
                out.append({"nominal": False, "q": "1d", "cutoff": c, "product": True,
                            "pd:" + vol[0]: a, "pd:" + vol[1]: b, "pd:" + vol[2]: c3})
    return out


def nominal_values(spec, ctx, off):
    vals = {}
    for k, (nm, p) in enumerate(G.call_names(spec)):
        v = float(p["default"])
        if off and nm != "n":
            v *= ctx.factor(k)
        vals[nm] = v
    return vals


def run_case(case, ctx):
    import tempfile
    tempfile.tempdir = ctx.scratch      # C sources of failed compilations stay in the private scratch dir
    if case["kind"] == "pair":
        return _run_pair(case, ctx)
    if case["kind"] == "illformed":
        return _run_illformed(case, ctx)
    if case["kind"] == "control":
        return _run_control(case, ctx)
    if case["kind"] == "py-oriented":
        return _run_py_oriented(case, ctx)
    if case["kind"] == "oriented":
        return _run_oriented(case, ctx)
    if case["kind"] == "placement":
        return _run_placement(case, ctx)
    if case["kind"] == "same-name":
        return _run_same_name(case, ctx)
    raise HarnessError("unknown case kind %r" % case["kind"])


def _judge(got, tags, ref, declared):
    """compare every flavour with the reference outputs; returns ({flavour: message}, want, mags)"""
    want = {"I": ref["I"], "F2": ref["F2"], "vshell": ref["vshell"],
            "vratio": ref["vratio"] if ref["vratio"] is not None else 0.0}
    mags = {"I": ref["mag"], "F2": ref.get("magF2"), "vshell": None, "vratio": None}
    if declared:
        want["reff"] = ref["reff"]
        mags["reff"] = None
    bad = {}
    for tag in tags:
        g = got[tag]
        if isinstance(g, Exception):
            bad[tag] = "raised %r" % (g,)
            continue
        for out in want:
            ok, err = refmodel.close(g[out], want[out], mags[out], rtol=1e-11)
            if not ok:
                bad.setdefault(tag, "")
                bad[tag] += "%s: got %s, formula gives %s; " % (out, g[out], want[out])
    return bad, want, mags


def _table_sig(info):
    return [(p.name, p.type, tuple(p.limits), p.default, p.length, p.polydisperse)
            for p in info.parameters.kernel_parameters]


def _run_pair(case, ctx):
    from sasmodels import core
    from sasmodels.direct_model import call_kernel, call_Fq
    r = R()
    feats = case.get("feats") or {}
    spec = make_spec(case["types"], case.get("tree"), feats)
    label = feat_label(feats) if case["family"] != "expr" else "expr"
    if case["family"] == "intlit":
        spec = intlit_spec(case["fn"])
        label = "intlit-" + case["fn"]
    name = "vg%s" % case_id(case)
    paths = G.write_pair(spec, ctx.scratch, name)
    fk0 = {"family": case["family"], "feature": label}
    pbr = ["family:" + case["family"]] + ["feature:" + x for x in label.split("+")]
    if "s" in case["types"]:
        pbr.append("feature:sld")
    for b in pbr:
        r.branch(b)
    models = {}
    try:
        for tag in ("c", "py", "pys"):
            with warnings.catch_warnings():
                warnings.simplefilter("ignore")
                models[tag] = core.load_model(paths[tag], dtype="double", platform="dll")
    except Exception as exc:  # noqa
        r.fail("well-formed generated definition could not be loaded/built (%s flavour): %r\n%s"
               % (tag, exc, open(paths[tag]).read()), dict(fk0, clause="build", flavour=tag), branches=["build-failed"])
        return r
    sig = _table_sig(models["c"].info)
    for tag in ("py", "pys"):
        if _table_sig(models[tag].info) != sig:
            r.fail("parameter tables of the two flavours differ: %s vs %s" % (sig, _table_sig(models[tag].info)),
                   dict(fk0, clause="table"))
            return r
    info = models["c"].info
    cpars = {p.name: p for p in info.parameters.call_parameters}
    kernels = {}
    for dim in ("1d", "2d"):
        qv = [np.array(Q1)] if dim == "1d" else [np.array(Q2)[:, 0].copy(), np.array(Q2)[:, 1].copy()]
        for tag in models:
            kernels[tag, dim] = models[tag].make_kernel(qv)
    declared = spec.get("reff") is not None
    configs = list(deviations(input_dims(spec, ctx), 2)) + [(1, c) for c in product_inputs(spec)]
    for ndev, cfg in configs:
        dim = cfg["q"]
        mode = cfg.get("mode", 0) if declared else 0
        vals = nominal_values(spec, ctx, cfg["nominal"])
        pars = dict(vals, scale=SCALE, background=BACKGROUND)
        disp = {}
        truncated = False
        for key, alt in cfg.items():
            if key.startswith("pd:") and alt is not None:
                nm = key[3:]
                t, n, w = alt
                pars[nm + "_pd"], pars[nm + "_pd_n"], pars[nm + "_pd_type"] = w, n, t
                x, wt = refmodel.par_dist(cpars[nm], t, n, w, 3.0, vals[nm])
                disp[nm] = (x, wt)
                truncated |= len(x) < n
        cutoff = cfg["cutoff"]
        if cutoff == "eq":
            # exactly the product weight of (first point of the first parameter, heaviest point of the second); a
            # product of two factors is the same double in every multiplication order
            (_, w1), (_, w2) = [disp[k[3:]] for k in cfg if k.startswith("pd:")][:2]
            cutoff = float(w1[0] * w2.max()) if len(w1) and len(w2) else 0.0
        q = np.array(Q1) if dim == "1d" else np.array(Q2)
        ref = G.mean_from_points(lambda pt: G.point_eval(spec, pt, q, mode, dim), len(q),
                                 dict(vals, scale=SCALE, background=BACKGROUND), disp, cutoff)
        if not disp:
            cls = "mono" if ref["nqual"] else "mono-invalid"
        else:
            cls = "pd" if ref["nqual"] else "pd-none-qualify"
        br = ["input:" + cls, "dim:" + dim]
        if ref["ncut"]:
            br.append("cutoff-excluded")
        if ref["ninvalid"] and ref["nqual"]:
            br.append("valid-excluded-part")
        if truncated:
            br.append("truncated")
        if len(disp) >= 2:
            br.append("two-dispersed")
        if cfg.get("product"):
            br.append("product-input:%d-dispersed" % len(disp))
            # mesh points the cutoff drops although the weight of the innermost (longest, fastest-varying) loop
            # alone exceeds the cutoff: the test must be made on the PRODUCT of the weights
            ws = sorted((wt for _, wt in disp.values()), key=len)
            if ws and len(ws[-1]) > len(ws[-2]):
                inner = ws[-1]
                ndrop = sum(1 for combo in itertools.product(*[range(len(w)) for w in ws])
                            if not (float(np.prod([w[i] for w, i in zip(ws, combo)])) > cutoff)
                            and inner[combo[-1]] > cutoff)
                if ndrop:
                    br.append("cutoff-dropped-point-whose-inner-weight-exceeds-cutoff")
        if any(nm[-1].isdigit() and nm[:-1] in [p["name"] for p in spec["pars"] if p.get("length") is not None]
               for nm in disp):
            br.append("dispersed-vector-element")
        if mode:
            br.append("reff-mode")
        desc = ("definition %s  call: %s q=%s pars=%s cutoff=%r radius_effective_mode=%d"
                % (paths["c"].rsplit("/", 1)[-1], dim, "Q1" if dim == "1d" else "Q2",
                   {k: v for k, v in pars.items()}, cutoff, mode))
        got = {}
        tags = ("c", "py", "pys") if ndev <= 1 else ("c", "py")
        for tag in tags:
            try:
                with np.errstate(all="ignore"):
                    I = call_kernel(kernels[tag, dim], dict(pars), cutoff=cutoff)
                    F1, F2, reff, vshell, vratio = call_Fq(kernels[tag, dim], dict(pars, radius_effective_mode=mode),
                                                           cutoff=cutoff)
                got[tag] = {"I": np.array(I, float), "F2": np.array(F2, float), "vshell": float(vshell),
                            "vratio": float(vratio), "reff": float(reff)}
            except Exception as exc:  # noqa
                got[tag] = exc
        bad, want, mags = _judge(got, tags, ref, declared)
        if bad and feats.get("novolfn"):
            # The table has no volume parameter but the definition supplies volume functions: the documentation
            # ("form volume is not needed") leaves open whether they are used.  Either reading is accepted as
            # long as BOTH flavours follow the same one.
            spec0 = dict(spec, volume=None, reff=None)
            ref0 = G.mean_from_points(lambda pt: G.point_eval(spec0, pt, q, 0, dim), len(q),
                                      dict(vals, scale=SCALE, background=BACKGROUND), disp, cutoff)
            bad0, want0, _ = _judge(got, tags, ref0, declared)
            if not bad0:
                bad = {}
                br.append("volume-functions-ignored-by-both")
            else:
                ign = [t for t in tags if t not in bad0]
                bad = {t: m + " [flavours ignoring the volume functions: %s]" % (", ".join(ign) or "none")
                       for t, m in bad.items()}
        nt = ref["nqual"] >= 2
        if bad:
            cbad, pbad = "c" in bad, any(t in bad for t in ("py", "pys"))
            clause = "py-vs-c" if (cbad and pbad) else ("c-vs-formula" if cbad else "py-vs-formula")
            if feats.get("novolfn") and cls != "mono-invalid":
                clause = "py-vs-c"
            if cbad and pbad:
                # both differ from the formula: do they at least agree with each other?
                gc, gp = got["c"], got["py"]
                if not isinstance(gc, Exception) and not isinstance(gp, Exception) and all(
                        refmodel.close(gp[o], gc[o], mags[o], rtol=1e-11)[0] for o in want):
                    clause = "both-vs-formula"
            fk = dict(fk0, clause=clause, input=cls)
            if cls == "mono-invalid":
                # one finding key whatever else the program contains
                fk["feature"] = "valid"
                fk.pop("family")
            elif feats.get("novolfn"):
                fk["feature"] = "no-volume-parameter-" + feats["novolfn"]
                fk.pop("family")
            detail = desc + "\n" + "\n".join("  %-3s flavour: %s" % (t, m) for t, m in sorted(bad.items()))
            good = [t for t in tags if t not in bad]
            if good:
                detail += "\n  agreeing with the formula: %s" % ", ".join(good)
            detail += ("\n  mesh %d points, %d qualifying, %d cut, %d invalid"
                       % (ref["npoints"], ref["nqual"], ref["ncut"], ref["ninvalid"]))
            detail += ("\n--- C flavour ---\n%s--- Python flavour (%s: Iq.vectorized = False) ---\n%s"
                       % (open(paths["c"]).read(), paths["pys"].rsplit("/", 1)[-1], open(paths["py"]).read()))
            r.fail(detail, fk, sub={"cfg": cfg}, nt=nt, trans=len(tags) * 2, branches=br)
            continue
        r.ok(nt=nt, outcome="%s:%s:q%d:c%d:i%d" % (cls, dim, min(ref["nqual"], 3), min(ref["ncut"], 1),
                                                    min(ref["ninvalid"], 1)),
             trans=len(tags) * 2, branches=br)
        if nt and not r.samples and len(disp) == 2:
            r.sample({"definition": open(paths["c"]).read(), "call": desc,
                      "c": [float(v) for v in got["c"]["I"]], "python": [float(v) for v in got["py"]["I"]],
                      "formula": [float(v) for v in ref["I"]], "mesh_points": ref["npoints"],
                      "qualifying": ref["nqual"]})
    r.extra["programs"] += 1
    return r


# ------------------------------------------------------------------------------------------------
# ill-formed definitions

_R = ["r", "", 1.5, [0.0, INF], "volume", "radius"]
_B = ["b", "", 1.2, [-INF, INF], "", "plain"]
_TH = ["theta", "degrees", 30.0, [-360.0, 360.0], "orientation", "theta"]
_PH = ["phi", "degrees", 20.0, [-360.0, 360.0], "orientation", "phi"]
_PS = ["psi", "degrees", 10.0, [-360.0, 360.0], "orientation", "psi"]

# name -> (rows, 2-D function or None)
CONTROLS = {
    "plain": ([_R, _B], None),
    "vector": ([_R, ["t[n]", "", 1.0, [0.0, INF], "volume", "vec"], ["n", "", 2, [0, 3], "", "ctl"]], None),
    "oriented-ac": ([_R, _TH, _PH], "Iqac"),
    "oriented-abc": ([_R, _TH, _PH, _PS], "Iqabc"),
}

ILLFORMED = {
    "limits-lower-ge-upper": {
        "reversed": ([["r", "", 1.5, [2.0, 1.0], "volume", "x"], _B], None),
        "equal": ([["r", "", 1.0, [1.0, 1.0], "volume", "x"], _B], None),
        "reversed-plain": ([_R, ["b", "", 0.0, [1.0, -1.0], "", "x"]], None),
    },
    "default-outside-limits": {
        "below": ([["r", "", -1.0, [0.0, INF], "volume", "x"], _B], None),
        "above": ([["r", "", 11.0, [0.0, 10.0], "volume", "x"], _B], None),
    },
    "duplicate-names": {
        "scalar-scalar": ([_R, _B, ["r", "", 1.0, [0.0, INF], "", "again"]], None),
        "vector-element": ([_R, ["t[2]", "", 1.0, [0.0, INF], "volume", "vec"], ["t1", "", 1.0, [0.0, INF], "", "x"]], None),
        "implicit-scale": ([_R, ["scale", "", 1.0, [0.0, INF], "", "x"]], None),
    },
    "orientation-type-on-non-angle": {
        "extra": ([_R, ["alpha", "degrees", 5.0, [-360.0, 360.0], "orientation", "x"], _TH, _PH], "Iqac"),
        "only": ([_R, ["alpha", "degrees", 5.0, [-360.0, 360.0], "orientation", "x"]], None),
    },
    "phi-before-theta": {
        "swapped": ([_R, _PH, _TH], "Iqac"),
        "swapped-psi": ([_R, _PH, _TH, _PS], "Iqabc"),
    },
    "psi-without-theta-phi": {
        "psi-only": ([_R, _PS], "Iqabc"),
        "theta-psi": ([_R, _TH, _PS], "Iqabc"),
        "theta-only": ([_R, _TH], "Iqac"),
    },
    "orientation-not-last": {
        "first": ([_TH, _PH, _R], "Iqac"),
        "middle": ([_R, _TH, _PH, _B], "Iqac"),
        "middle-psi": ([_R, _TH, _PH, _PS, _B], "Iqabc"),
    },
    "iqac-with-psi": {"": ([_R, _TH, _PH, _PS], "Iqac")},
    "iqabc-without-psi": {"": ([_R, _TH, _PH], "Iqabc")},
    "iqac-without-orientation": {
        "iqac": ([_R, _B], "Iqac"),
        "iqabc": ([_R, _B], "Iqabc"),
    },
    "vector-control-missing": {
        "": ([_R, ["t[n]", "", 1.0, [0.0, INF], "volume", "vec"]], None),
    },
    "vector-control-out-of-range": {
        "upper-21": ([_R, ["t[n]", "", 1.0, [0.0, INF], "volume", "vec"], ["n", "", 2, [0, 21], "", "ctl"]], None),
        "lower-negative": ([_R, ["t[n]", "", 1.0, [0.0, INF], "volume", "vec"], ["n", "", 2, [-1, 3], "", "ctl"]], None),
        "non-integer": ([_R, ["t[n]", "", 1.0, [0.0, INF], "volume", "vec"], ["n", "", 2, [0, 2.5], "", "ctl"]], None),
    },
    "non-string-units": {
        "int": ([["r", 1, 1.5, [0.0, INF], "volume", "x"], _B], None),
        "none": ([["r", None, 1.5, [0.0, INF], "volume", "x"], _B], None),
    },
    "row-length-5": {
        "no-description": ([["r", "", 1.5, [0.0, INF], "volume"], _B], None),
        "no-type": ([["r", "", 1.5, [0.0, INF], "x"], _B], None),
    },
}


def _iq_names(rows):
    """C/Python argument lists for Iq of a (possibly broken) table: non-orientation parameters in order"""
    cargs, pyargs, terms = [], [], []
    for row in rows:
        if len(row) > 4 and row[4] == "orientation":
            continue
        nm = str(row[0])
        if "[" in nm:
            base = nm.split("[")[0]
            cargs.append("double *%s" % base)
            pyargs.append(base)
            terms.append("%s[0]" % base)
        else:
            cargs.append("double %s" % nm)
            pyargs.append(nm)
            terms.append(nm)
    return cargs, pyargs, terms


def write_definition(scratch, name, rows, fn2d, flavour):
    """a definition that is complete and correct except for the malformation carried by rows / fn2d"""
    cargs, pyargs, terms = _iq_names(rows)
    # duplicate argument names cannot even be written down; use the distinct ones
    seen, ca, pa, te = set(), [], [], []
    for c, p, t in zip(cargs, pyargs, terms):
        if p not in seen:
            seen.add(p)
            ca.append(c), pa.append(p), te.append(t)
    body = " + ".join("1.0/(1.0 + q*q*%s*%s)" % (t, t) for t in te) or "1.0"
    vol = [str(row[0]).split("[")[0] for row in rows if len(row) >= 5 and row[4] == "volume"]
    src = [G.HEADER % {"doc": "ill-formed candidate", "name": name}, G.table_source(rows)]
    if flavour == "c":
        src.append('Iq = """\n    return %s;\n"""\n' % body)
        if vol:
            src.append('form_volume = """\n    return 1.0;\n"""\n')
        if fn2d == "Iqac":
            src.append('Iqac = """\n    const double q = sqrt(qab*qab + qc*qc);\n    return (%s)*(1.0 + qc*qc);\n"""\n' % body)
        elif fn2d == "Iqabc":
            src.append('Iqabc = """\n    const double q = sqrt(qa*qa + qb*qb + qc*qc);\n    return (%s)*(1.0 + qc*qc + 2.0*qb*qb);\n"""\n' % body)
    else:
        src.append("def Iq(%s):\n    return %s\nIq.vectorized = True\n" % (", ".join(["q"] + pa), body))
        if vol:
            src.append("def form_volume(*args):\n    return 1.0\n")
        if fn2d == "Iqac":
            src.append("def Iqac(%s):\n    q = sqrt(qab*qab + qc*qc)\n    return (%s)*(1.0 + qc*qc)\nIqac.vectorized = True\n"
                       % (", ".join(["qab", "qc"] + pa), body))
        elif fn2d == "Iqabc":
            src.append("def Iqabc(%s):\n    q = sqrt(qa*qa + qb*qb + qc*qc)\n    return (%s)*(1.0 + qc*qc + 2.0*qb*qb)\nIqabc.vectorized = True\n"
                       % (", ".join(["qa", "qb", "qc"] + pa), body))
    import os
    path = os.path.join(scratch, name + ".py")
    with open(path, "w") as fh:
        fh.write("".join(src))
    return path


def _load_and_use(path):
    """load, build and evaluate once in 1-D and 2-D; returns the two results (raises whatever the library raises)"""
    from sasmodels import core
    from sasmodels.direct_model import call_kernel
    with warnings.catch_warnings():
        warnings.simplefilter("ignore")
        m = core.load_model(path, dtype="double", platform="dll")
    k1 = m.make_kernel([np.array(Q1)])
    i1 = call_kernel(k1, {})
    k2 = m.make_kernel([np.array(Q2)[:, 0].copy(), np.array(Q2)[:, 1].copy()])
    i2 = call_kernel(k2, {})
    return m, i1, i2


def _run_illformed(case, ctx):
    r = R()
    rows, fn2d = ILLFORMED[case["what"]][case["variant"]]
    name = "vi%s" % case_id(case)
    path = write_definition(ctx.scratch, name, rows, fn2d, case["flavour"])
    fk = {"clause": "illformed-accepted", "kind": case["what"], "flavour": case["flavour"]}
    try:
        m, i1, i2 = _load_and_use(path)
    except (ValueError, TypeError, KeyError) as exc:
        return r.ok(nt=True, outcome="rejected:%s" % type(exc).__name__,
                    branches=["illformed-rejected", "illformed-rejected:" + case["flavour"]])
    except Exception as exc:  # noqa
        # rejected, but through an incidental failure (compiler error, IndexError ...) rather than a check
        return r.ok(nt=True, outcome="rejected-incidentally:%s" % type(exc).__name__,
                    branches=["illformed-rejected", "illformed-rejected-incidentally"])
    r.fail("ill-formed definition (%s%s, %s flavour) was loaded, built and evaluated without any error:\n%s"
           "  1-D result %s, 2-D result %s"
           % (case["what"], "/" + case["variant"] if case["variant"] else "", case["flavour"], open(path).read(), i1, i2),
           fk, branches=["illformed-accepted"])
    return r


def _run_control(case, ctx):
    r = R()
    rows, fn2d = CONTROLS[case["what"]]
    name = "vk%s" % case_id(case)
    path = write_definition(ctx.scratch, name, rows, fn2d, case["flavour"])
    fk = {"clause": "build", "feature": "control-" + case["what"], "flavour": case["flavour"]}
    try:
        m, i1, i2 = _load_and_use(path)
    except Exception as exc:  # noqa
        return r.fail("well-formed definition %s (%s flavour; the control of the ill-formed list) was rejected: %r\n%s"
                      % (case["what"], case["flavour"], exc, open(path).read()), fk,
                      branches=["control-judged", "build-failed"])
    if not (np.all(np.isfinite(i1)) and np.all(np.isfinite(i2))):
        return r.fail("well-formed control definition %s evaluates to %s %s\n%s" % (case["what"], i1, i2, open(path).read()),
                      dict(fk, clause="control-value"), branches=["control-judged"])
    return r.ok(nt=False, outcome="control-accepted", branches=["control-judged"])


def _run_py_oriented(case, ctx):
    """oriented pure-Python models are refused by design (kernelpy has no orientation support)"""
    r = R()
    rows, fn2d = CONTROLS["oriented-ac"]
    path = write_definition(ctx.scratch, "vo%s" % case_id(case), rows, None, "py")
    try:
        m, i1, i2 = _load_and_use(path)
    except ValueError as exc:
        return r.ok(nt=True, outcome="py-oriented-refused", branches=["py-oriented-judged"])
    except Exception as exc:  # noqa
        return r.fail("oriented pure-Python definition raised %r instead of the documented refusal" % (exc,),
                      {"clause": "py-oriented", "how": "wrong-exception"}, branches=["py-oriented-judged"])
    return r.fail("oriented pure-Python definition accepted; 2-D result %s ignores theta/phi\n%s"
                  % (i2, open(path).read()), {"clause": "py-oriented", "how": "accepted"}, branches=["py-oriented-judged"])


# ------------------------------------------------------------------------------------------------
# O: oriented C definitions

ANGLES = [[30.0, 20.0, 10.0], [0.0, 0.0, 0.0], [60.0, -35.0, 115.0], [-70.0, 200.0, -40.0]]
Q2O = [[0.5, 0.2], [-0.1, 1.3], [0.13, -0.3], [-0.7, -0.4]]


def make_oriented(case):
    sym, vec = case["sym"], case["vec"]
    r_ = {"name": "r", "type": "volume", "default": 1.1, "lo": 0.0, "hi": INF}
    b_ = {"name": "b", "type": "", "default": 1.2, "lo": -INF, "hi": INF}
    pars = [r_, b_]
    nodes = [["p", "r"], ["p", "b"]]
    vnodes = [["p", "r"]]
    if vec:
        vol = case["vtype"] == "volume"
        t_ = {"name": "t", "type": case["vtype"], "default": 1.3, "lo": 0.0 if vol else -INF, "hi": INF}
        n = {"fix2": 2, "fix3": 3}.get(vec, 2)
        group = [t_]
        if vec.startswith("fix"):
            t_["length"] = n
        else:
            t_["length"] = "n"
            ctl = {"name": "n", "type": "", "default": 2, "lo": 0, "hi": 2}
            group = [ctl, t_] if vec == "ctl-before" else [t_, ctl]
            nodes.append(["p", "n"])
        pars[case["vpos"]:case["vpos"]] = group
        for k in range(n):
            nodes.append(["e", "t", k])
            if vol:
                vnodes.append(["e", "t", k])
    for nm, d in (("theta", 30.0), ("phi", 20.0)) + ((("psi", 10.0),) if sym == "abc" else ()):
        pars.append({"name": nm, "units": "degrees", "type": "orientation", "default": d, "lo": -360.0, "hi": 360.0})
    spec = {"pars": pars, "sym": sym}
    spec["iq"] = G.lincomb([[("gau", "inv")[k % 2], ["mul", ["q"], nd]] for k, nd in enumerate(nodes)], 1.0, 0.5)
    spec["volume"] = G.lincomb(vnodes, 1.0, 1.0)
    if sym == "ac":
        qab, qc = ["a", "qab"], ["a", "qc"]
        spec["i2d"] = ["add", ["add", G.lincomb([["gau", ["mul", qab, nd]] for nd in nodes], 1.0, 0.5),
                               G.lincomb([["inv", ["mul", qc, nd]] for nd in nodes], 0.75, 0.25)],
                       ["mul", ["c", 0.2], qc]]
    else:
        qa, qb, qc = ["a", "qa"], ["a", "qb"], ["a", "qc"]
        spec["i2d"] = ["add", ["add", ["add", G.lincomb([["gau", ["mul", qa, nd]] for nd in nodes], 1.0, 0.5),
                                       G.lincomb([["inv", ["mul", qb, nd]] for nd in nodes], 0.75, 0.25)],
                               G.lincomb([["gau", ["mul", qc, nd]] for nd in nodes], 0.6, 0.2)],
                       ["add", ["mul", ["c", 0.2], qc], ["mul", ["c", 0.1], ["mul", qa, qb]]]]
    return spec


def write_oriented(spec, scratch, name):
    import os
    fn = "Iqac" if spec["sym"] == "ac" else "Iqabc"
    src = [G.HEADER % {"doc": "oriented C definition", "name": name}, G.table_source(G.par_rows(spec)),
           'Iq = """\n    return %s;\n"""\n' % G.render(spec["iq"], "c"),
           '%s = """\n    return %s;\n"""\n' % (fn, G.render(spec["i2d"], "c")),
           'form_volume = """\n    return %s;\n"""\n' % G.render(spec["volume"], "c")]
    path = os.path.join(scratch, name + ".py")
    with open(path, "w") as fh:
        fh.write("".join(src))
    return path


JITTER = {"theta": ["uniform", 3, 20.0], "phi": ["uniform", 2, 15.0], "psi": ["gaussian", 3, 12.0]}


def _rot(axis, deg):
    c, s = np.cos(np.radians(deg)), np.sin(np.radians(deg))
    if axis == "z":
        return np.array([[c, -s, 0], [s, c, 0], [0, 0, 1]], float)
    if axis == "x":
        return np.array([[1, 0, 0], [0, c, -s], [0, s, c]], float)
    return np.array([[c, 0, s], [0, 1, 0], [-s, 0, c]], float)


def oriented_point(spec, vals, Q, dim):
    """direct evaluation of an oriented definition at one parameter point (view angles only, no jitter)"""
    env = {}
    for p in G.kernel_pars(spec):
        if p["vector"]:
            env[p["name"]] = [vals[p["name"] + str(k)] for k in range(1, p["n"] + 1)]
        else:
            env[p["name"]] = vals[p["name"]]
    if dim == "1d":
        env["q"] = np.asarray(Q, float)
        F2 = G.evaluate(spec["iq"], env)
    else:
        Q = np.asarray(Q, float)
        psi = vals["psi"] if spec["sym"] == "abc" else 0.0
        V = _rot("z", vals["phi"]) @ _rot("y", vals["theta"]) @ _rot("z", psi)
        # orientation dispersity: jitter about the particle axes, R = V Rx(dphi) Ry(dtheta) Rz(dpsi)
        V = V @ _rot("x", vals.get("dphi", 0.0)) @ _rot("y", vals.get("dtheta", 0.0)) @ _rot("z", vals.get("dpsi", 0.0))
        q3 = np.zeros((len(Q), 3))
        q3[:, :2] = Q
        qabc = q3 @ V
        env["qa"], env["qb"], env["qc"] = qabc[:, 0], qabc[:, 1], qabc[:, 2]
        env["qab"] = np.sqrt(qabc[:, 0] ** 2 + qabc[:, 1] ** 2)
        F2 = G.evaluate(spec["i2d"], env)
    form = float(G.evaluate(spec["volume"], env))
    out = {"F2": np.asarray(F2, float), "F1": None, "form": form, "shell": form, "reff": 0.0}
    if dim == "2d":
        out["wfactor"] = abs(float(np.cos(np.radians(vals.get("dtheta", 0.0)))))    # equirectangular projection
    return out


def _run_oriented(case, ctx):
    from sasmodels import core
    from sasmodels.direct_model import call_kernel
    r = R()
    spec = make_oriented(case)
    label = "iq" + case["sym"] + ("+vector-%s-%s" % (case["vec"], case["vtype"] or "plain") if case["vec"] else "")
    fk0 = {"family": "oriented", "feature": label, "clause": "c-vs-formula"}
    r.branch("family:oriented")
    r.branch("oriented:" + ("vector-before-angles" if case["vec"] else "no-vector"))
    r.branch("oriented:" + case["sym"])
    path = write_oriented(spec, ctx.scratch, "vo%s" % case_id(case))
    try:
        with warnings.catch_warnings():
            warnings.simplefilter("ignore")
            model = core.load_model(path, dtype="double", platform="dll")
    except Exception as exc:  # noqa
        return r.fail("well-formed oriented C definition could not be loaded/built: %r\n%s" % (exc, open(path).read()),
                      dict(fk0, clause="build"), branches=["build-failed"])
    info = model.info
    cpars = {p.name: p for p in info.parameters.call_parameters}
    k1 = model.make_kernel([np.array(Q1)])
    k2 = model.make_kernel([np.array(Q2O)[:, 0].copy(), np.array(Q2O)[:, 1].copy()])
    dims = [("nominal", False, [True]), ("angles", 0, [1, 2, 3]), ("pd:r", None, PD_ALTS[:2])]
    if case["vec"] and case["vtype"] == "volume":
        dims.append(("pd:t1", None, PD_ALTS[1:2]))
    dims.append(("q", "2d", ["1d"]))
    angs = ["theta", "phi"] + (["psi"] if case["sym"] == "abc" else [])
    dims.append(("jitter", None, [list(c) for n in range(1, len(angs) + 1) for c in itertools.combinations(angs, n)]))
    for ndev, cfg in deviations(dims, 2):
        dim = cfg["q"]
        vals = {}
        for k, (nm, p) in enumerate(G.call_names(spec)):
            v = float(p["default"])
            if cfg["nominal"] and nm != "n" and p["type"] != "orientation":
                v *= ctx.factor(k)
            vals[nm] = v
        ang = ANGLES[cfg["angles"]]
        vals["theta"], vals["phi"] = ang[0], ang[1]
        if case["sym"] == "abc":
            vals["psi"] = ang[2]
        pars = dict(vals, scale=SCALE, background=BACKGROUND)
        disp = {}
        for key, alt in cfg.items():
            if key.startswith("pd:") and alt is not None:
                nm = key[3:]
                t, n, w = alt
                pars[nm + "_pd"], pars[nm + "_pd_n"], pars[nm + "_pd_type"] = w, n, t
                disp[nm] = refmodel.par_dist(cpars[nm], t, n, w, 3.0, vals[nm])
        for a in (cfg["jitter"] or []):
            t, n, w = JITTER[a]
            pars[a + "_pd"], pars[a + "_pd_n"], pars[a + "_pd_type"] = w, n, t
            if dim == "2d":           # orientation dispersity does not exist in 1-D
                disp["d" + a] = refmodel.par_dist(cpars[a], t, n, w, 3.0, vals[a])
        Q = Q1 if dim == "1d" else Q2O
        ref = G.mean_from_points(lambda pt: oriented_point(spec, pt, Q, dim), len(Q),
                                 dict(vals, scale=SCALE, background=BACKGROUND), disp, 0.0)
        br = ["oriented-dim:" + dim]
        if dim == "2d" and cfg["angles"]:
            br.append("oriented-nondefault-angles")
        if any(k in disp for k in ("r", "t1")):
            br.append("oriented-dispersed")
        if dim == "2d" and cfg["jitter"]:
            br.append("oriented-jitter:" + "+".join(cfg["jitter"]))
            if "theta" in cfg["jitter"] and "phi" in cfg["jitter"]:
                br.append("oriented-jitter-theta-and-phi")
        desc = "definition below; call: %s q=%s pars=%s" % (dim, Q, pars)
        try:
            with np.errstate(all="ignore"):
                got = call_kernel(k1 if dim == "1d" else k2, dict(pars), cutoff=0.0)
        except Exception as exc:  # noqa
            r.fail("%s raised %r\n%s" % (desc, exc, open(path).read()), dict(fk0, clause="raises"), sub={"cfg": cfg}, branches=br)
            continue
        ok, err = refmodel.close(got, ref["I"], ref["mag"], rtol=1e-11)
        if not ok:
            r.fail("%s\n  C kernel %s\n  formula at (qa,qb,qc) = (qx,qy,0).Rz(phi)Ry(theta)Rz(psi)Rx(dphi)Ry(dtheta)Rz(dpsi), weights w*|cos(dtheta)|: %s\n%s"
                   % (desc, np.asarray(got), ref["I"], open(path).read()), dict(fk0, input=dim), sub={"cfg": cfg},
                   nt=True, branches=br)
            continue
        r.ok(nt=(dim == "2d"), outcome="oriented:%s:%d" % (dim, min(ref["nqual"], 3)), branches=br)
    r.extra["programs"] += 1
    return r


# ------------------------------------------------------------------------------------------------
# P: placements of the orientation parameters

def placements():
    """
    EVERY table made of r (volume), b (plain) - in this order - and a non-empty subset of {theta, phi, psi}, the
    angles in every order and at every position relative to r and b: 9 + 36 + 60 = 105 tables (angles first /
    in the middle / last, adjacent or separated, psi without phi, phi without theta, psi at index 0, ...).
    """
    out = []
    for k in (1, 2, 3):
        for subset in itertools.combinations(["theta", "phi", "psi"], k):
            for perm in itertools.permutations(subset):
                for slots in itertools.combinations(range(k + 2), k):
                    angles, rest, row = list(perm), ["r", "b"], []
                    for i in range(k + 2):
                        row.append(angles.pop(0) if i in slots else rest.pop(0))
                    out.append(row)
    return out


PLACEMENT_VIEW = {"theta": 60.0, "phi": -35.0, "psi": 115.0}


def placement_spec(order, sym):
    entries = {"r": {"name": "r", "type": "volume", "default": 1.1, "lo": 0.0, "hi": INF},
               "b": {"name": "b", "type": "", "default": 1.2, "lo": -INF, "hi": INF}}
    for nm, d in (("theta", 30.0), ("phi", 20.0), ("psi", 10.0)):
        entries[nm] = {"name": nm, "units": "degrees", "type": "orientation", "default": d, "lo": -360.0, "hi": 360.0}
    ref = make_oriented({"sym": sym or "ac", "vec": None})      # Iq, Iqac / Iqabc and form_volume over (r, b)
    return dict(ref, pars=[dict(entries[nm]) for nm in order], sym=sym or "ac")


def _run_placement(case, ctx):
    """
    A table is either refused when the definition is loaded / built, or - if accepted - the model evaluates the
    definition's 2-D formula after the documented rotation with the view (and jitter) angles read BY NAME from the
    table; angles the table does not have are zero.  Accepted-and-different is the violation.
    """
    import os
    from sasmodels import core
    from sasmodels.direct_model import call_kernel
    r = R()
    order, sym, flavour = case["order"], case["sym"], case["flavour"]
    spec = placement_spec(order, sym)
    name = "vp%s" % case_id(case)
    pattern = ",".join(order)
    fk = {"clause": "illformed-accepted", "kind": "orientation-placement", "flavour": flavour, "table": pattern,
          "function": {"ac": "Iqac", "abc": "Iqabc", None: "Iq"}[sym]}
    r.branch("placement:" + flavour)
    if flavour == "c":
        path = write_oriented(spec, ctx.scratch, name)
    else:
        args = [p["name"] for p in spec["pars"] if p["type"] != "orientation"]
        path = os.path.join(ctx.scratch, name + ".py")
        with open(path, "w") as fh:
            fh.write(G.HEADER % {"doc": "orientation placement, Python flavour", "name": name}
                     + G.table_source(G.par_rows(spec))
                     + "def Iq(%s):\n    return %s\nIq.vectorized = True\n" % (", ".join(["q"] + args), G.render(spec["iq"], "py"))
                     + "def form_volume(r):\n    return %s\n" % G.render(spec["volume"], "py"))
    wellformed = (flavour == "c" and ((sym == "ac" and order == ["r", "b", "theta", "phi"])
                                      or (sym == "abc" and order == ["r", "b", "theta", "phi", "psi"])))
    try:
        with warnings.catch_warnings():
            warnings.simplefilter("ignore")
            model = core.load_model(path, dtype="double", platform="dll")
    except Exception as exc:  # noqa
        if wellformed:
            return r.fail("well-formed oriented definition (table %s, %s) was refused: %r\n%s"
                          % (pattern, fk["function"], exc, open(path).read()),
                          {"clause": "build", "feature": "placement-wellformed", "table": pattern}, branches=["build-failed"])
        return r.ok(nt=True, outcome="placement-refused:%s" % type(exc).__name__, branches=["placement-refused"])
    # accepted: it must compute the definition
    cpars = {p.name: p for p in model.info.parameters.call_parameters}
    Q = np.array(Q2O)
    kern = model.make_kernel([Q[:, 0].copy(), Q[:, 1].copy()])
    present = [a for a in ("theta", "phi", "psi") if a in order]
    bad = []
    for view, jit in ((False, False), (True, False), (True, True)):
        vals = {nm: float(p["default"]) for nm, p in G.call_names(spec)}
        if view:
            for a in present:
                vals[a] = PLACEMENT_VIEW[a]
        pars = dict(vals, scale=SCALE, background=BACKGROUND)
        disp = {}
        if jit:
            for a in present:
                t, n, w = JITTER[a]
                pars[a + "_pd"], pars[a + "_pd_n"], pars[a + "_pd_type"] = w, n, t
                disp["d" + a] = refmodel.par_dist(cpars[a], t, n, w, 3.0, vals[a])
        pspec = dict(spec, sym=("abc" if sym == "abc" else "ac"))
        if flavour == "py":
            ref = G.mean_from_points(lambda pt: oriented_point(pspec, pt, np.sqrt(Q[:, 0] ** 2 + Q[:, 1] ** 2), "1d"),
                                     len(Q), dict(vals, scale=SCALE, background=BACKGROUND), {}, 0.0)
        else:
            ref = G.mean_from_points(lambda pt: oriented_point(pspec, dict({"psi": 0.0, "theta": 0.0, "phi": 0.0}, **pt), Q, "2d"),
                                     len(Q), dict(vals, scale=SCALE, background=BACKGROUND), disp, 0.0)
        try:
            with np.errstate(all="ignore"):
                got = call_kernel(kern, dict(pars), cutoff=0.0)
        except Exception as exc:  # noqa
            bad.append("call 2-d pars=%s raised %r" % (pars, exc))
            continue
        ok, err = refmodel.close(got, ref["I"], ref["mag"], rtol=1e-11)
        if not ok:
            bad.append("call 2-d q=%s pars=%s:\n    model   %s\n    formula %s" % (Q2O, pars, np.asarray(got), ref["I"]))
    if bad:
        return r.fail("definition with parameter table [%s] and %s (%s flavour) was ACCEPTED, built and evaluated, but does "
                      "not compute its formula after the documented rotation (angles taken by name):\n  %s\n%s"
                      % (pattern, fk["function"], flavour, "\n  ".join(bad), open(path).read()), fk,
                      branches=["placement-accepted"])
    if not wellformed:
        r.branch("placement-accepted-unusual")
    return r.ok(nt=True, outcome="placement-accepted-correct", trans=3, branches=["placement-accepted"])


# ------------------------------------------------------------------------------------------------
# S: different files with the same basename

def _preload():
    """zygote: import the library, load and evaluate nothing"""
    import sasmodels.core, sasmodels.direct_model, sasmodels.kerneldll, sasmodels.kernelpy  # noqa
    import sasmodels.generate, sasmodels.weights, sasmodels.custom  # noqa


def setup(ctx):
    from .. import zygote
    zygote.start(ctx, "c09", _preload)


SAME_ORDERS = {2: ["ABA", "BAB", "ABAB"], 3: ["ABCA", "CBAC", "ABCABC"]}


def _same_specs():
    """three definitions over the same table (r volume, b plain) with different formulas"""
    trees = expr_trees(2)
    return [make_spec("vp"), make_spec("vp", trees[7]), make_spec("vp", trees[41])]


def _same_one(arg):
    """(fresh process) load + evaluate the files in the given order; one list of messages per step"""
    import tempfile
    from sasmodels import core
    from sasmodels.direct_model import call_kernel
    tempfile.tempdir = arg["scratch"]
    specs = _same_specs()
    out = []
    for step in arg["steps"]:
        spec, flavour, path = specs[step["spec"]], step["flavour"], step["path"]
        msgs = []
        with warnings.catch_warnings():
            warnings.simplefilter("ignore")
            model = core.load_model(path, dtype="double", platform="dll")
        engine = type(model).__name__
        if engine != ("PyModel" if flavour == "py" else "DllModel"):
            msgs.append("engine %s for a %s-flavour definition" % (engine, "Python" if flavour == "py" else "C"))
        cpars = {p.name: p for p in model.info.parameters.call_parameters}
        vals = {nm: float(p["default"]) for nm, p in G.call_names(spec)}
        for dim, pd in (("1d", False), ("1d", True), ("2d", False)):
            Q = np.array(Q1) if dim == "1d" else np.array(Q2)
            kern = model.make_kernel([Q] if dim == "1d" else [Q[:, 0].copy(), Q[:, 1].copy()])
            pars = dict(vals, scale=SCALE, background=BACKGROUND)
            disp = {}
            if pd:
                pars["r1_pd"], pars["r1_pd_n"], pars["r1_pd_type"] = 0.2, 3, "gaussian"
                disp["r1"] = refmodel.par_dist(cpars["r1"], "gaussian", 3, 0.2, 3.0, vals["r1"])
            ref = G.mean_from_points(lambda pt: G.point_eval(spec, pt, Q, 0, dim), len(Q),
                                     dict(vals, scale=SCALE, background=BACKGROUND), disp, 0.0)
            with np.errstate(all="ignore"):
                got = call_kernel(kern, dict(pars), cutoff=0.0)
            ok, err = refmodel.close(got, ref["I"], ref["mag"], rtol=1e-11)
            if not ok:
                msgs.append("%s%s pars=%s: got %s, the requested file's formula gives %s"
                            % (dim, " dispersed" if pd else "", pars, np.asarray(got), ref["I"]))
        out.append(msgs)
    return out


def _run_same_name(case, ctx):
    import os
    from .. import zygote
    r = R()
    flav = case["flavours"]
    base = "vs%s" % case_id(case)
    specs = _same_specs()
    files = []
    t0 = 1.7e9
    for k, fl in enumerate(flav):
        d = os.path.join(ctx.scratch, "%s_dir%d" % (base, k))
        os.makedirs(d, exist_ok=True)
        paths = G.write_pair(specs[k], d, base)
        path = os.path.join(d, base + ".py")
        os.replace(paths[fl], path)
        mt = t0 + {"equal": 0, "increasing": 10 * k, "decreasing": -10 * k}[case["mtime"]]
        os.utime(path, (mt, mt))
        files.append({"path": path, "flavour": fl, "spec": k, "letter": "ABC"[k]})
    fk0 = {"clause": "same-name", "flavours": "/".join(flav), "mtime": case["mtime"]}
    r.branch("same-name:%d-files" % len(flav))

    def show(order):
        return "\n".join("  %d. load_model(%r)   # file %s: %s flavour, mtime %+d s" % (
            i + 1, files["ABC".index(c)]["path"], c, files["ABC".index(c)]["flavour"],
            os.path.getmtime(files["ABC".index(c)]["path"]) - t0) for i, c in enumerate(order))
    for order in SAME_ORDERS[len(flav)]:
        steps = [files["ABC".index(c)] for c in order]
        out = zygote.call(ctx, "c09", "mc.props.c09:_same_one", {"steps": steps, "scratch": ctx.scratch})
        br = ["same-name-sequence"]
        if "value" not in out:
            r.fail("loading and evaluating in one fresh process, in this order:\n%s\nfailed: %s" % (show(order), out),
                   dict(fk0, what="raises"), trans=len(order), branches=br)
            continue
        bad = [(i, m) for i, m in enumerate(out["value"]) if m]
        if bad:
            i, m = bad[0]
            r.fail("loaded and evaluated in one fresh process, in this order:\n%s\nstep %d (file %s) is wrong (%d of %d "
                   "steps wrong):\n  %s\n--- file A ---\n%s--- file B ---\n%s"
                   % (show(order), i + 1, order[i], len(bad), len(order), "\n  ".join(m[:3]),
                      open(files[0]["path"]).read(), open(files[1]["path"]).read()),
                   dict(fk0, what="wrong-definition"), trans=len(order), branches=br)
            continue
        r.ok(nt=True, outcome="same-name:%s:ok" % order, trans=len(order), branches=br)
    return r


def finish(ctx, report):
    b = report.branches
    report.coverage = {"programs": int(report.extra.get("programs", 0))}
    report.require("family:expr", 100, "expression-tree programs")
    report.require("family:table4", 10, "four-parameter tables")
    report.require("family:intlit", len(INT_FUNCTIONS), "integer-literal math-call programs")
    report.require("family:feature", 50, "feature programs")
    for f in ("vector-ctl-last", "vector-ctl-first", "vector-fix", "shell", "reff", "valid", "iqxy", "sld",
              "no-volume-parameter-volume", "no-volume-parameter-reff"):
        report.require("feature:" + f, 1, "programs with feature " + f)
    if not b.get("build-failed"):
        # input-level guards; a definition that does not build is reported as a violation and evaluates nothing
        report.require("input:pd", 1000, "dispersed evaluations")
        report.require("input:mono-invalid", 5, "monodisperse point outside the validity region")
        report.require("input:pd-none-qualify", 5, "mesh without qualifying point")
        report.require("valid-excluded-part", 50, "validity predicate excluded part of a mesh")
        report.require("cutoff-excluded", 100, "cutoff excluded >= 1 mesh point")
        report.require("truncated", 100, "distribution truncated by the limits")
        report.require("two-dispersed", 100, "two simultaneously dispersed parameters")
        report.require("product-input:2-dispersed", 400, "two dispersed parameters x cutoff (full product)")
        report.require("product-input:3-dispersed", 60, "three dispersed parameters x cutoff (full product)")
        report.require("cutoff-dropped-point-whose-inner-weight-exceeds-cutoff", 300,
                       "cutoff dropped a point whose inner weight alone exceeds the cutoff")
        report.require("dispersed-vector-element", 20, "dispersity on an element of a vector parameter")
        report.require("dim:2d", 100, "2-D q")
        report.require("reff-mode", 50, "effective-radius modes")
    report.require("placement:c", 210, "orientation placements, C flavour (105 tables x Iqac/Iqabc)")
    report.require("placement:py", 105, "orientation placements, Python flavour")
    report.require("placement-refused", 250, "ill-placed orientation parameters refused")
    report.require("placement-accepted", 2, "well-placed orientation parameters accepted and evaluated")
    report.require("family:oriented", 50, "oriented C definitions")
    report.require("oriented:vector-before-angles", 48, "oriented definitions with a vector parameter before theta")
    report.require("oriented:ac", 25, "Iqac definitions")
    report.require("oriented:abc", 25, "Iqabc definitions")
    if not b.get("build-failed"):
        report.require("oriented-dim:2d", 500, "2-D evaluations of oriented definitions")
        report.require("oriented-nondefault-angles", 300, "non-default view angles")
        report.require("oriented-dispersed", 200, "size dispersity in oriented definitions")
        for j in ("theta", "phi", "psi", "theta+phi", "theta+psi", "phi+psi", "theta+phi+psi"):
            report.require("oriented-jitter:" + j, 50, "orientation dispersity on " + j)
        report.require("oriented-jitter-theta-and-phi", 200, "mesh points with both dtheta and dphi non-zero")
    report.require("same-name:2-files", 12, "two files with the same basename")
    report.require("same-name:3-files", 3, "three files with the same basename")
    report.require("same-name-sequence", 45, "load/evaluate sequences over same-named files")
    report.require("control-judged", len(CONTROLS) + 2, "well-formed controls of the ill-formed list")
    report.require("py-oriented-judged", 1, "refusal of oriented python models")
    n_ill = sum(len(v) for v in ILLFORMED.values()) * 2
    if b.get("illformed-rejected", 0) + b.get("illformed-accepted", 0) < n_ill:
        report.vacuous.append("ill-formed list incomplete: %d of %d judged"
                              % (b.get("illformed-rejected", 0) + b.get("illformed-accepted", 0), n_ill))

"""
C20 - legacy parameter sets convert to valid parameter sets of the current model.

Space: every entry of the 3.1.2 conversion table (74) and of the 5.0.4 table (1) x model_version tag x
use_underscore x parameter subsets (the empty set, every single old name, every pair, the full set) x
attribute-suffix sets (none, .width, .npts+.nsigmas+.type, .lower+.upper, all).  Old names are the
table's values; vector parameters are expanded as old+str(k), k = 1..length; the multiplicity control is
given under the key the table documents; the table's own old magnetic names (M0_sld_..., M_theta_...,
Up_...) are ordinary old names of the five models that were magnetic in SasView.

Oracle: an independent reading of the table (see `Entry`): the returned model name is the table's key
with the ':1' variant tag stripped and must load; every returned key, stripped of a dispersity / limit
suffix, is a parameter of that model; each given value (and attribute) is found under the final name the
table (chained through later tables, magnetic prefix forms rewritten as the current suffix forms) maps
it to, x1e6 iff the final parameter is an SLD or a magnetic amplitude and the set went through the 3.1.2
table; scale and background exist afterwards and are untouched when given.  For the hand-converted
models the parameters the hand conversion recomputes are exempt from value transport (validity of the
returned keys and "no exception" still apply).

Every defect gets its own finding key: crash(exception, site), model-name, unknown-parameter(name),
magnetic-rename(prefix), control-rename, value-transport(...), limit-rescale, defaults(name).
"""
import functools
import itertools
import traceback

from ..engine import R, HarnessError

ID = "C20"
TITLE = "Legacy parameter sets convert to valid parameter sets of the current model"
LEVEL = "model_checking"
ENGINE = "E1"
TECHNIQUE = ("exhaustive enumeration of (table entry x version tag x naming scheme x parameter subset of size 0,1,2,n x "
             "attribute-suffix set) on the real convert_model against an independent re-implementation of the table semantics")
RULE = ("full product of entry x model_version x use_underscore x subset in {empty, singles, pairs, full} x attribute set; "
        "a case is non-trivial when at least one given old name is renamed by the table; distinct = distinct "
        "(entry, version, scheme, subset, attribute set) tuples")
ASSUMPTIONS = [
    "the conversion tables' {new: old} dictionaries are the specification of the mapping (the code that applies them is under test); "
    "rows that the SOURCE of conversion_table.py spells out individually (read with ast) belong to the table even when the "
    "expression assembling the dictionary loses or overrides them",
    "the saved-set model name is element [0] of a table entry (the optional third element is the name of the old plug-in module, "
    "not of a saved set, and is not explored)",
    "the forms 'name:k' of a table key denote variants of the model 'name'",
    "M0:/mtheta:/mphi:/up: names produced by the 3.1.2 table denote today's name_M0/_mtheta/_mphi/up_ parameters; 'up:angle' is up_phi",
    "in the product blocks sasmodels.convert.load_model_info is memoised by the harness (a pure look-up; 200x faster); the 'plain' "
    "cases run the unmodified function",
    "3.x model names carrying a 4.x/5.0 version tag never occur in saved sets: for them only 'no exception' and "
    "'converted as 3.1.2 or returned unchanged' is required",
    "parameter values are fixed recognisable numbers (one per old name); value-dependent arithmetic of the hand conversions is "
    "exercised at one realistic point (plus the SasView 3.1.2 defaults of TeubnerStreyModel)",
]
BOUNDS = {
    "quick": {"entries": "all 75", "subsets": "empty, all singles, all pairs, full set",
              "attribute_sets": "all 5 on empty/singles/full; {none, all} on pairs",
              "model_version": [[3, 1, 2], [4, 0, 0], [4, 2, 0], [5, 0, 4], [5, 1, 0]], "use_underscore": [False, True]},
    "thorough": {"entries": "all 75", "subsets": "empty, all singles, all pairs, full set", "attribute_sets": "all 5 everywhere",
                 "model_version": [[3, 1, 2], [4, 0, 0], [4, 2, 0], [5, 0, 4], [5, 1, 0]], "use_underscore": [False, True]},
}
CASE_TIMEOUT = 600

VERSIONS = [(3, 1, 2), (4, 0, 0), (4, 2, 0), (5, 0, 4), (5, 1, 0)]
ATTR_SETS = {
    "none": [],
    "width": [".width"],
    "pd3": [".npts", ".nsigmas", ".type"],
    "limits": [".lower", ".upper"],
    "all": [".width", ".npts", ".nsigmas", ".type", ".lower", ".upper"],
}
PD_ATTRS = (".width", ".npts", ".nsigmas", ".type")
UNDERSCORE = {".width": "_pd", ".npts": "_pd_n", ".nsigmas": "_pd_nsigma", ".type": "_pd_type"}
SUFFIXES = ["_pd_nsigma", "_pd_type", "_pd_n", "_pd", ".nsigmas", ".width", ".npts", ".type", ".lower", ".upper",
            ".fittable", ".std", ".units"]
MAG_PREFIX = {"M0:": "_M0", "mtheta:": "_mtheta", "mphi:": "_mphi"}

# old names whose VALUE the 3.1.2 hand conversion recomputes (exempt from value transport), per table key
HAND_TOUCHED = {
    "core_shell_parallelepiped": {"rimA.width", "rimB.width", "rimC.width"},
    "core_shell_ellipsoid:1": {"equat_shell", "polar_core", "polar_shell"},
    "hollow_cylinder": {"radius", "radius.width"},
    "multilayer_vesicle": {"scale", "scale.lower", "scale.upper"},
    "polymer_micelle": {"ndensity", "ndensity.lower", "ndensity.upper"},
    "rpa": {p + s for p in ("La", "Lb", "Lc", "Ld") for s in ("", ".lower", ".upper")},
    "spherical_sld": {"n_shells"} | {"func_inter%d" % k for k in range(0, 11)},
    "teubner_strey": {"scale", "c1", "c2", "volfraction_a", "xi", "d", "sld_a", "sld_b"},
    "pearl_necklace": set(),
}
# old names a hand conversion reads although the table does not list them
HAND_EXTRA = {"teubner_strey": ["c1", "c2"]}
FUNC_INTER = ["Erf(|nu|*z)", "RPower(z^|nu|)", "LPower(z^|nu|)", "RExp(-|nu|*z)", "LExp(-|nu|*z)"]


# ------------------------------------------------------------------------------------------------
# independent reading of the tables

@functools.lru_cache(maxsize=None)
def explicit_rows():
    """
    {(version, table key): [(new, old), ...]} - the rows that the SOURCE of conversion_table.py names one by one
    (string: string entries of dict displays and name="old" keyword arguments inside an entry), read with ast and
    not from the evaluated dictionaries: a row that the author spells out is part of the table even if the
    expression that assembles the dictionary loses or overrides it.
    """
    import ast
    from sasmodels import conversion_table
    with open(conversion_table.__file__.replace(".pyc", ".py")) as fh:
        tree = ast.parse(fh.read())
    table = None
    for node in tree.body:
        if isinstance(node, ast.Assign) and any(getattr(t, "id", None) == "CONVERSION_TABLE" for t in node.targets):
            table = node.value
    if not isinstance(table, ast.Dict):
        raise HarnessError("conversion_table.py: CONVERSION_TABLE is no longer a dict display")
    out = {}
    for vnode, models in zip(table.keys, table.values):
        try:
            version = tuple(ast.literal_eval(vnode))
        except Exception:  # noqa
            raise HarnessError("conversion_table.py: version key is not a literal")
        if not isinstance(models, ast.Dict):
            raise HarnessError("conversion_table.py: the %r table is no longer a dict display" % (version,))
        for knode, entry in zip(models.keys, models.values):
            if not (isinstance(knode, ast.Constant) and isinstance(knode.value, str) and isinstance(entry, (ast.List, ast.Tuple))
                    and len(entry.elts) >= 2):
                raise HarnessError("conversion_table.py: unexpected entry shape in the %r table" % (version,))
            rows = []
            for sub in ast.walk(entry.elts[1]):
                if isinstance(sub, ast.Dict):
                    for k, v in zip(sub.keys, sub.values):
                        if (isinstance(k, ast.Constant) and isinstance(k.value, str) and isinstance(v, ast.Constant)
                                and (v.value is None or isinstance(v.value, str))):
                            rows.append((k.value, v.value))
                elif isinstance(sub, ast.Call):
                    for kw in sub.keywords:
                        if kw.arg is not None and isinstance(kw.value, ast.Constant) and isinstance(kw.value.value, str):
                            rows.append((kw.arg, kw.value.value))
            out[(version, knode.value)] = rows
    return out


class Item(object):
    __slots__ = ("old", "final", "sld", "dispersible", "touched", "kind", "exists", "renamed")


class Entry(object):
    """what one table entry promises, derived from the raw table and the current model definition only"""

    def __init__(self, version, key):
        from sasmodels.conversion_table import CONVERSION_TABLE
        from sasmodels.core import load_model_info
        self.version, self.key = tuple(version), key
        ent = CONVERSION_TABLE[self.version][key]
        self.old_model = ent[0]
        self.current = key.split(":")[0]
        self.info = load_model_info(self.current)
        P = self.info.parameters
        self.par = {p.name: p for p in P.call_parameters}
        self.vectors = {p.id: p.length for p in P.kernel_parameters if p.length > 1}
        self.control = ([p.id for p in P.kernel_parameters if p.is_control] or [None])[0]
        self.tables = [self.version]
        mapping = ent[1]
        pairs = []
        self.vector_olds = set()
        for new, old in mapping.items():
            if old is None:
                continue
            if new in self.vectors:
                for k in range(1, self.vectors[new] + 1):
                    if new + str(k) not in mapping:
                        pairs.append((old + str(k), new + str(k)))
                        self.vector_olds.add(old + str(k))
            else:
                pairs.append((old, new))
        # rows spelt out in the source of the table that the evaluated dictionary does not contain (lost / overridden)
        self.explicit_lost = []
        have = set(pairs)
        for new, old in explicit_rows().get((self.version, key), []):
            if old is None:
                continue
            expanded = ([(old + str(k), new + str(k)) for k in range(1, self.vectors[new] + 1)]
                        if new in self.vectors else [(old, new)])
            for pair in expanded:
                if pair not in have and pair[0] not in [o for o, _ in pairs]:
                    pairs.append(pair)
                    have.add(pair)
                    self.explicit_lost.append(pair)
        # chain through the tables of later releases (today: 3.1.2 BroadPeakModel -> broad_peak -> 5.0.4 names)
        for later in sorted(v for v in CONVERSION_TABLE if v > self.version):
            for new2, ent2 in CONVERSION_TABLE[later].items():
                if ent2[0] == self.current:
                    back = {o: n for n, o in ent2[1].items() if o is not None}
                    pairs = [(o, back.get(n, n)) for o, n in pairs]
                    self.tables.append(later)
        if self.version == (3, 1, 2):
            pairs += [(o, None) for o in HAND_EXTRA.get(key, [])]
        olds = [o for o, _ in pairs]
        news = [n for _, n in pairs]
        for common in ("scale", "background"):
            if common not in olds and common not in news and mapping.get(common, common) is not None:
                pairs.append((common, common))
        touched = HAND_TOUCHED.get(key, set()) if self.version == (3, 1, 2) else set()
        self.hand = self.version == (3, 1, 2) and key in HAND_TOUCHED
        self.touched = touched
        self.items = []
        for old, new in pairs:
            it = Item()
            it.old, it.kind = old, "plain"
            if new is None:     # consumed by the hand conversion
                it.kind, new = "consumed", old
            final = new
            for prefix, suffix in MAG_PREFIX.items():
                if new.startswith(prefix):
                    final, it.kind = new[len(prefix):] + suffix, "magnetic"
            if new.startswith("up:"):
                final, it.kind = ("up_phi", "up_angle") if new == "up:angle" else ("up_" + new[3:], "magnetic")
            if new == self.control:
                it.kind = "control"
            it.final = final
            p = self.par.get(final)
            it.exists = p is not None
            it.sld = bool(p is not None and (p.type == "sld" or final.endswith("_M0")))
            it.dispersible = bool(p is not None and p.polydisperse and it.kind == "plain")
            it.touched = old in touched
            it.renamed = final != old
            self.items.append(it)
        self.by_old = {it.old: it for it in self.items}
        if len(self.by_old) != len(self.items):
            raise HarnessError("duplicate old names in table entry %r" % key)
        self.rescale = (3, 1, 2) in self.tables and not self.info.structure_factor

    def valid_key(self, k):
        if k in self.par:
            return True
        for s in SUFFIXES:
            if k.endswith(s) and k[:-len(s)] in self.par:
                return True
        return False


@functools.lru_cache(maxsize=None)
def entry(version, key):
    return Entry(version, key)


def _teubner_old(f):
    """a 3.1.2 TeubnerStrey set for which the inverse transformation is defined (derived from new-style values)"""
    import math
    phi, xi, d, drho = 0.5, 30.0 * f, 100.0 * f, 1.0
    k = 2.0 * math.pi * xi / d
    a2 = (1.0 + k ** 2) ** 2
    c1 = 2.0 * xi ** 2 * (1.0 - k ** 2)
    c2 = xi ** 4
    scale = 1e-4 * 8.0 * math.pi * phi * (1.0 - phi) * drho ** 2 * c2 / xi
    return {"scale": a2 / scale, "c1": c1 / scale, "c2": c2 / scale}


def values_for(ent, f):
    """one recognisable value per old name (and per attribute); realistic where the hand conversion does arithmetic"""
    vals = {}
    for i, it in enumerate(ent.items):
        v = (1.25 + i) * f
        if it.sld and ent.rescale:
            v = v * 1e-6
        if it.kind == "control":
            v = 2
        vals[it.old] = v
        vals[it.old + ".width"] = 0.01 * (i + 1)
        vals[it.old + ".npts"] = 10 + i
        vals[it.old + ".nsigmas"] = 2.0 + 0.03125 * (i % 7 + 1)
        vals[it.old + ".type"] = ("gaussian", "schulz", "lognormal")[i % 3]
        vals[it.old + ".lower"] = v * 0.5 if not isinstance(v, int) else 1
        vals[it.old + ".upper"] = v * 2.0 if not isinstance(v, int) else 4
    if ent.version == (3, 1, 2):
        if ent.key == "hollow_cylinder":
            vals.update(radius=30.0 * f, core_radius=20.0 * f)
        elif ent.key == "core_shell_ellipsoid:1":
            vals.update(equat_core=200.0 * f, equat_shell=250.0 * f, polar_core=20.0 * f, polar_shell=30.0 * f)
        elif ent.key == "teubner_strey":
            vals.update(_teubner_old(f))
        elif ent.key == "polymer_micelle":
            vals["ndensity"] = 8.94e15 * f
        elif ent.key == "spherical_sld":
            for k in range(0, 11):
                if "func_inter%d" % k in vals:
                    vals["func_inter%d" % k] = FUNC_INTER[k % 5]
    return vals


def attr_list(it, aset):
    """the attribute suffixes that a saved set can carry for this old name"""
    out = []
    for a in ATTR_SETS[aset]:
        if a in PD_ATTRS and not it.dispersible:
            continue      # dispersity attributes only where the current parameter is dispersible
        if a in (".lower", ".upper") and it.kind in ("control", "consumed"):
            continue
        out.append(a)
    return out


def build_set(ent, olds, aset, vals):
    pars = {}
    for o in olds:
        it = ent.by_old[o]
        pars[o] = vals[o]
        for a in attr_list(it, aset):
            pars[o + a] = vals[o + a]
    return pars


# ------------------------------------------------------------------------------------------------

def setup(ctx):
    from sasmodels.conversion_table import CONVERSION_TABLE
    rows = explicit_rows()
    nrows = sum(len(v) for v in rows.values())
    if set(rows) != set((v, k) for v in CONVERSION_TABLE for k in CONVERSION_TABLE[v]) or nrows < 300:
        raise HarnessError("the source of conversion_table.py could not be read row by row (%d entries, %d rows)"
                           % (len(rows), nrows))
    ctx.notes["explicit_rows"] = nrows
    if (3, 1, 2) not in CONVERSION_TABLE or (5, 0, 4) not in CONVERSION_TABLE:
        raise HarnessError("conversion tables changed: versions %r" % (sorted(CONVERSION_TABLE),))


def cases(ctx):
    from sasmodels.conversion_table import CONVERSION_TABLE
    out = []
    for version in sorted(CONVERSION_TABLE):
        for key in CONVERSION_TABLE[version]:
            out.append({"kind": "plain", "version": list(version), "entry": key})
            for mv in VERSIONS:
                for us in (False, True):
                    out.append({"kind": "block", "version": list(version), "entry": key, "mv": list(mv), "underscore": us})
            if version == (3, 1, 2) and key == "teubner_strey":
                out.append({"kind": "teubner-defaults", "version": list(version), "entry": key})
    return out


def subsets(ent, ctx, kind):
    olds = [it.old for it in ent.items]
    yield "empty", []
    for o in olds:
        yield "single", [o]
    if kind == "block":
        for a, b in itertools.combinations(olds, 2):
            yield "pair", [a, b]
    if len(olds) > 1:
        yield "full", olds


def run_case(case, ctx):
    from sasmodels import convert
    r = R()
    ent = entry(tuple(case["version"]), case["entry"])
    f = 1.0 if ctx.seed == 0 else ctx.factor(1)
    vals = values_for(ent, f)
    if case["kind"] == "teubner-defaults":
        pars = {"scale": 0.1, "c1": -30.0, "c2": 5000.0, "background": 0.0}
        _one(r, convert, ent, pars, ["scale", "c1", "c2", "background"], (3, 1, 2), False, "strict", "defaults-3.1.2")
        return r
    if case["kind"] == "plain":
        orig = convert.load_model_info
        if hasattr(orig, "cache_info"):
            convert.load_model_info = orig.__wrapped__
        try:
            for skind, olds in subsets(ent, ctx, "plain"):
                for us in (False, True):
                    pars = build_set(ent, olds, "all" if skind != "empty" else "none", vals)
                    _one(r, convert, ent, pars, olds, ent.version if ent.version == (3, 1, 2) else (5, 0, 4), us,
                         "strict", skind, extra=["unmemoised"])
        finally:
            convert.load_model_info = orig
        return r
    # product block
    if not hasattr(convert.load_model_info, "cache_info"):
        convert.load_model_info = functools.lru_cache(maxsize=None)(convert.load_model_info)
    mv, us = tuple(case["mv"]), case["underscore"]
    from sasmodels.conversion_table import CONVERSION_TABLE
    if mv > max(CONVERSION_TABLE):
        mode = "identity"
    elif ent.version == (3, 1, 2) and mv != (3, 1, 2):
        mode = "weak"
    else:
        mode = "strict"
    for skind, olds in subsets(ent, ctx, "block"):
        asets = list(ATTR_SETS) if (skind != "pair" or not ctx.quick) else ["none", "all"]
        if skind == "empty":
            asets = ["none"]
        for aset in asets:
            pars = build_set(ent, olds, aset, vals)
            if aset != "none" and len(pars) == len(olds):
                continue     # no attribute applies to these names: same call as aset == none
            _one(r, convert, ent, pars, olds, mv, us, mode, skind + ":" + aset)
    return r


def _site(exc):
    tb = traceback.extract_tb(exc.__traceback__)
    site = "?"
    for fr in tb:
        if fr.filename.endswith("convert.py"):
            site = fr.name
    return site


def _close(a, b):
    if isinstance(a, str) or isinstance(b, str):
        return a == b
    try:
        a, b = float(a), float(b)
    except (TypeError, ValueError):
        return a == b
    return abs(a - b) <= 1e-12 * max(abs(a), abs(b))


def _find(result, v):
    return sorted(k for k, w in result.items() if not isinstance(w, (list, dict)) and type(w) == type(v) and _close(w, v))


def _one(r, convert, ent, pars, olds, mv, us, mode, label, extra=()):
    """one call of convert_model, judged"""
    call = "convert_model(%r, %r, use_underscore=%r, model_version=%r)" % (ent.old_model, pars, us, mv)
    branches = list(extra)
    its = [ent.by_old[o] for o in olds]
    renamed = [it for it in its if it.renamed]
    nt = bool(renamed)
    if renamed:
        branches.append("renamed")
    if any(it.sld for it in its) and ent.rescale:
        branches.append("sld-in-3x-set")
    if any(it.old in ent.vector_olds for it in its):
        branches.append("vector-expanded")
    if any(it.kind in ("magnetic", "up_angle") for it in its):
        branches.append("magnetic")
    if any(it.kind == "control" for it in its):
        branches.append("control")
    if ent.hand:
        branches.append("hand-converted")
    if any((it.old, it.final) in ent.explicit_lost for it in its):
        branches.append("explicit-row-missing-from-evaluated-table")
    if len(ent.tables) > 1:
        branches.append("chained-tables")
    if any(k.endswith(PD_ATTRS) for k in pars):
        branches.append("dispersity-attributes" + ("-underscore" if us else "-dotted"))
    if any(k.endswith((".lower", ".upper")) for k in pars):
        branches.append("fit-limits")
    if "scale" in pars or "background" in pars:
        branches.append("common-given")
    else:
        branches.append("common-absent")
    branches.append("mode-" + mode)
    sub = {"set": olds, "attrs": label}
    fails = []

    def bad(detail, fkey):
        fails.append((detail, fkey))

    given = dict(pars)
    try:
        name, result = convert.convert_model(ent.old_model, dict(pars), use_underscore=us, model_version=mv)
    except Exception as exc:  # noqa - "completes without error"
        site = _site(exc)
        fk = {"clause": "crash", "exception": type(exc).__name__, "site": site}
        if site.startswith("_hand_convert_3"):
            fk["model"] = ent.current
            fk["given"] = ("sasview-3.1.2-defaults" if label.startswith("defaults") else
                           "complete" if len(olds) == len(ent.items) else "subset")
        _finish(r, [("%s raised %s: %s" % (call, type(exc).__name__, exc), fk)], sub, nt, branches, "crash")
        return

    if mode == "identity":
        # a set newer than every table: nothing to convert, nothing may be lost or renamed
        if name != ent.old_model:
            bad("%s: model name %r changed to %r although no table applies" % (call, ent.old_model, name),
                {"clause": "identity", "what": "name"})
        for k, v in given.items():
            if k not in result or not _close(result[k], v):
                bad("%s: %r=%r not preserved (got %r) although no table applies" % (call, k, v, result.get(k)),
                    {"clause": "identity", "what": "value"})
                break
        _finish(r, fails, sub, nt, branches, "identity")
        return

    _judge(ent, call, given, olds, us, name, result, bad)
    if mode == "weak" and fails:
        # a 3.x name with a later version tag: either converted as a 3.1.2 set or left alone
        if name == ent.old_model and all(k in result and _close(result[k], v) for k, v in given.items()):
            fails[:] = []
            branches.append("weak-returned-unchanged")
    _finish(r, fails, sub, nt, branches, "converted" if mode == "strict" else "weak")


def _finish(r, fails, sub, nt, branches, outcome):
    if fails:
        # one evaluation; every distinct finding key is written out once per block (the smallest set first, since
        # subsets are enumerated by size), further occurrences are only counted
        if not hasattr(r, "_reported"):
            r._reported = set()
        r.evals += 1
        r.nt += 1 if nt else 0
        r.trans += 1
        r.outcomes.add("FAIL")
        for b in branches:
            r.branches[b] += 1
        for detail, fk in fails:
            key = tuple(sorted(fk.items()))
            r.extra["failed-clause:" + fk.get("clause", "?")] += 1
            if key in r._reported:
                continue
            r._reported.add(key)
            r.fail(detail, fk, sub, nt=nt, count_eval=False)
        return
    r.ok(nt=nt, outcome="%s:%s" % (outcome, ",".join(sorted(b for b in branches if not b.startswith("mode-")))[:60]),
         branches=branches)
    if nt and not r.samples and len(sub["set"]) >= 2:
        r.sample({"set": sub["set"], "attrs": sub["attrs"], "outcome": outcome})


def _judge(ent, call, given, olds, us, name, result, bad):
    from sasmodels.core import load_model_info
    model = ent.current
    # --- model name
    if name != model:
        bad("%s returned model name %r, expected %r" % (call, name, model),
            {"clause": "model-name", "returned": str(name)})
    else:
        try:
            load_model_info(name)
        except Exception as exc:  # noqa
            bad("%s returned model name %r which does not load: %r" % (call, name, exc),
                {"clause": "model-name", "returned": str(name)})
    # --- every returned key names a parameter of the model
    invalid = set()
    old_control = [it.old for it in ent.items if it.kind == "control"]
    table_names = set(it.old for it in ent.items) | set(it.final for it in ent.items)
    for k in result:
        if ent.valid_key(k):
            continue
        invalid.add(k)
        base = k
        for s in SUFFIXES:
            if k.endswith(s):
                base = k[:-len(s)]
                break
        prefix = next((p for p in list(MAG_PREFIX) + ["up:"] if base.startswith(p)), None)
        if prefix is not None or base == "up_angle":
            bad("%s: returned key %r is not a parameter of %s (old-style magnetic name; today's name is %s)"
                % (call, k, model, (base[len(prefix):] + MAG_PREFIX.get(prefix, "") if prefix and prefix != "up:"
                                    else "up_" + base[3:] if prefix else "up_phi")),
                {"clause": "magnetic-rename", "prefix": prefix or "up_angle"})
        elif base in old_control:
            bad("%s: the multiplicity control given under the table's name %r is returned as %r, not as %r"
                % (call, base, k, ent.control), {"clause": "control-rename", "model": model, "name": base})
        else:
            fk = {"clause": "unknown-parameter", "name": base}
            if base in table_names:
                fk["model"] = model
            bad("%s: returned key %r is not a parameter of %s" % (call, k, model), fk)
    # --- value transport
    for o in olds:
        it = ent.by_old[o]
        for a in [""] + [s for s in SUFFIXES if o + s in given]:
            src = o + a
            if src not in given:
                continue
            if src in ent.touched or (it.touched and a == ""):
                continue
            v = given[src]
            tgt = it.final + (UNDERSCORE.get(a, a) if us else a)
            scaled = ent.rescale and it.sld and a in ("", ".lower", ".upper")
            want = v * 1e6 if scaled else v
            if not it.exists:
                continue        # reported as unknown-parameter above (the table maps to a name the model lacks)
            got = result.get(tgt, None)
            if tgt in result and _close(got, want):
                continue
            if scaled and a in (".lower", ".upper") and tgt in result and _close(got, v):
                bad("%s: fit limit %r of the SLD %r returned as %r = %r although the value is rescaled by 1e6 (expected %r)"
                    % (call, src, it.final, tgt, got, want), {"clause": "limit-rescale"})
                continue
            where = [k for k in _find(result, want) + _find(result, v) if k != tgt]
            if where and any(k in invalid for k in where):
                continue        # arrived under a key already reported as invalid (magnetic / control / unknown)
            if it.kind == "up_angle" and not where and tgt not in result:
                what = "missing"
            elif tgt not in result:
                what = "missing"
            elif scaled and (_close(got, v) or _close(got, v * 1e-6)):
                what = "sld-scale"
            elif (not scaled) and isinstance(v, float) and (_close(got, v * 1e6) or _close(got, v * 1e-6)):
                what = "sld-scale"
            else:
                what = "value"
            fk = {"clause": "value-transport", "what": what, "attr": a or "value"}
            if it.old in ("scale", "background") and not it.renamed:
                fk = {"clause": "defaults", "name": it.old, "what": "given value not kept"}
            else:
                fk.update(model=model, old=o, new=it.final)
            bad("%s: old %r=%r expected under %r=%r, got %r%s"
                % (call, src, v, tgt, want, got if tgt in result else "<absent>",
                   (" (value found under %s)" % where) if where else ""), fk)
    # --- scale and background exist afterwards
    for common in ("scale", "background"):
        if common not in result:
            bad("%s: %r absent from the result" % (call, common), {"clause": "defaults", "name": common, "what": "absent"})


def finish(ctx, report):
    report.coverage["explicit_source_rows_read"] = int(ctx.notes.get("explicit_rows", 0))
    report.require("renamed", 1000, "sets with a renamed parameter")
    report.require("sld-in-3x-set", 500, "SLD values in 3.x sets")
    report.require("vector-expanded", 200, "expanded vector parameters")
    report.require("magnetic", 100, "old magnetic names of the five magnetic SasView models")
    report.require("control", 50, "multiplicity control under the table's name")
    report.require("hand-converted", 100, "hand-converted models")
    report.require("chained-tables", 50, "3.1.2 -> 5.0.4 chained conversion")
    report.require("dispersity-attributes-dotted", 500, "dispersity attributes, dotted result")
    report.require("dispersity-attributes-underscore", 500, "dispersity attributes, underscore result")
    report.require("fit-limits", 500, "fit limits")
    report.require("common-given", 200, "scale/background given")
    report.require("common-absent", 1000, "scale/background absent")
    report.require("mode-identity", 75, "sets newer than every table")
    report.require("mode-strict", 1000, "strictly judged conversions")
    report.require("unmemoised", 300, "calls with the unmodified load_model_info")

"""
C11 - results do not depend on call history; inputs are not modified (E2, histories).

All operation sequences up to a depth over a fixed alphabet of public entry points are executed on the
real implementation in ONE process lineage (the process is forked at every node of the DFS, so the
live kernels, result buffers, Python scratch vectors, class-level caches are exactly those the history
produced).  Every evaluation in every history is compared BIT-FOR-BIT with the value the same request
returns as the first call of a fresh process (oracle table built once from a pristine process), and
after every operation the caller's dictionaries and arrays are compared with deep copies taken before.
"""
import copy
import json
import os
import sys
import traceback

import numpy as np

from .. import build
from ..engine import R, Report, HarnessError, pool_map, case_id

ID = "C11"
TITLE = "Results do not depend on call history and inputs are not modified"
LEVEL = "model_checking"
ENGINE = "E2"
TECHNIQUE = ("explicit enumeration of all operation histories up to a depth on the real objects (process forked at "
             "every node), each evaluation compared bit-for-bit with a fresh-process oracle; inputs compared with copies")
RULE = ("all sequences over the operation alphabet up to the depth bound, no de-duplication; non-trivial = the history "
        "contains >=2 evaluations with different requests; distinct = distinct operation sequences")
ASSUMPTIONS = [
    "the oracle value of a request is its value as the first call in a fresh process (forked from a pristine parent "
    "that has imported sasmodels but never loaded a model)",
    "requests on stateful objects (SasView-style model) are identified by the object's declared parameter state, "
    "tracked by the harness",
    "DLL and pure-Python drivers only; single-threaded histories",
]
BOUNDS = {"quick": {"depth": 3}, "thorough": {"depth": 4}}
CASE_TIMEOUT = 3000

Q1 = [0.01, 0.05, 0.2]
Q2 = [0.02, 0.11]
Q1B = [0.02, 0.11, 0.3]      # as many points as Q1
QX = [0.05, -0.1, 0.013]
QY = [0.02, 0.13, -0.3]

PYPLUG = '''
import numpy as np
from numpy import inf
name = "verif_pyvol"
title = "python plug-in with a volume parameter"
description = "exercises the PyKernel scratch vector"
category = "shape-independent"
parameters = [
    ["rg", "Ang", 30.0, [0, inf], "volume", ""],
    ["expo", "", 2.0, [0, inf], "", ""],
]
def form_volume(rg):
    return rg**3
def Iq(q, rg, expo):
    return np.exp(-(q*rg)**expo/3.0) * rg**6
Iq.vectorized = True
'''

PYPLUG_NV = '''
from math import exp
from numpy import inf
name = "verif_pynv"
title = "python plug-in whose Iq is written per q value (not vectorised)"
description = "exercises the automatic vectorisation wrapper"
category = "shape-independent"
parameters = [
    ["rg", "Ang", 30.0, [0, inf], "", ""],
]
def Iq(q, rg):
    return exp(-(q*rg)**2/3.0) + 0.5*float(q)
'''

BASE_MODELS = ["sphere", "cylinder", "core_shell_sphere", "hardsphere", "power_law"]


class Live(object):
    """the live objects of one lineage; everything is created lazily and deterministically"""

    def __init__(self, plug, reuse_buffers=True):
        self.plug = plug
        self.reuse_buffers = reuse_buffers
        self.models = {}
        self.kernels = {}
        self.qsel = 1
        self.sv = None
        self.sv_radius = None     # declared state of the SasView-style object
        self.sv_pd = False
        self.svps = None
        self.svarr = None
        self.dm = None

    def model(self, name):
        from sasmodels import core
        if name not in self.models:
            path = {"@py": self.plug, "@pynv": self.plug.replace("verif_pyvol", "verif_pynv")}.get(name, name)
            self.models[name] = core.load_model(path, dtype="double", platform="dll")
        return self.models[name]

    def kernel(self, name, which):
        key = (name, which)
        if key not in self.kernels:
            q = {"q1": [np.array(Q1)], "q2": [np.array(Q2)], "2d": [np.array(QX), np.array(QY)]}[which]
            self.kernels[key] = self.model(name).make_kernel(q)
            # the caller reuses its own buffers afterwards: a kernel must not keep looking at them
            # (the fresh-process oracle leaves its buffers alone, so aliasing shows as a difference)
            if self.reuse_buffers:
                for arr in q:
                    arr[:] = 0.777
        return self.kernels[key]


P = {
    "mono": {"radius": 40.0, "scale": 1.3, "background": 0.01},
    "disp": {"radius": 40.0, "radius_pd": 0.2, "radius_pd_n": 7, "scale": 1.3, "background": 0.01},
    "big": {"radius": 400.0, "sld": 3.0, "scale": 0.7, "background": 0.0},
    "zero": {"radius": -10.0, "radius_pd": 0.1, "radius_pd_n": 5, "scale": 1.3, "background": 0.25},
    "mag": {"radius": 40.0, "sld_M0": 3.0, "sld_mtheta": 30.0, "sld_mphi": 50.0, "up_frac_i": 0.3, "scale": 1.0, "background": 0.0},
    "cyl": {"radius": 20.0, "length": 300.0, "radius_pd": 0.1, "radius_pd_n": 5, "length_pd": 0.2, "length_pd_n": 4},
    "cyl2": {"radius": 25.0, "length": 100.0},
    "css": {"radius": 30.0, "thickness": 12.0, "thickness_pd": 0.3, "thickness_pd_n": 6},
    "py1": {"rg": 25.0, "expo": 2.0},
    "py2": {"rg": 35.0, "rg_pd": 0.2, "rg_pd_n": 6, "expo": 1.5},
    "pl": {"power": 3.5, "scale": 2.0},
    "ps": {"radius": 35.0, "volfraction": 0.2, "radius_pd": 0.15, "radius_pd_n": 5, "radius_effective_mode": 1},
    "mix": {"A_radius": 30.0, "B_radius": 15.0, "B_length": 80.0, "A_scale": 0.4, "B_scale": 1.6, "B_radius_pd": 0.1, "B_radius_pd_n": 4},
    "fq": {"radius": 40.0, "radius_pd": 0.2, "radius_pd_n": 7, "radius_effective_mode": 1},
}


def _ev(value):
    """canonical bytes of an evaluation result (arrays, tuples with None)"""
    if isinstance(value, (tuple, list)):
        return "|".join(_ev(v) for v in value)
    if value is None:
        return "None"
    return np.asarray(value, dtype=float).tobytes().hex()


def _guarded(fn, pars, *arrays):
    """call fn(pars) and report whether the caller's dict / arrays were modified"""
    before = copy.deepcopy(pars)
    arrs = [a.copy() for a in arrays]
    value = fn(pars)
    changed = []
    if pars != before:
        changed.append("parameter dict changed from %r to %r" % (before, pars))
    for a, b in zip(arrays, arrs):
        if a.tobytes() != b.tobytes():
            changed.append("input array modified")
    return value, changed


# each op: (name, function(live) -> (request key | None, value | None, [input problems]))
def _ops():
    from sasmodels.direct_model import call_kernel, call_Fq, DirectModel
    from sasmodels import direct_model
    from sasmodels.data import empty_data1D

    def mk(which):
        def op(L):
            # (re)create the sphere kernel on another q vector
            L.kernels.pop(("sphere", "q1"), None)
            L.kernels.pop(("sphere", "q2"), None)
            L.qsel = 1 if which == "q1" else 2
            L.kernel("sphere", which)
            return None, None, []
        return op

    def sph(pname, cutoff=0.0):
        def op(L):
            which = "q%d" % L.qsel
            k = L.kernel("sphere", which)
            v, ch = _guarded(lambda p: call_kernel(k, p, cutoff=cutoff), dict(P[pname]))
            return "sphere:%s:%s:%g" % (which, pname, cutoff), v, ch
        return op

    def sph_monoflag(L):
        # mono=True must ignore the dispersity settings without touching the caller's dictionary
        which = "q%d" % L.qsel
        k = L.kernel("sphere", which)
        v, ch = _guarded(lambda p: call_kernel(k, p, mono=True), dict(P["disp"]))
        return "sphere:%s:disp-as-mono" % which, v, ch

    def cyl_mesh(L):
        # 40 x 40 mesh (16 kernel invocations) with 6-sigma tails and a cutoff: the whole first invocation (and the
        # last) lies below the cutoff, so the accumulators are carried through blocks that add nothing
        k = L.kernel("cylinder", "q1")
        pars = {"radius": 20.0, "length": 300.0, "radius_pd": 0.1, "radius_pd_n": 40, "radius_pd_nsigma": 6.0,
                "length_pd": 0.1, "length_pd_n": 40, "length_pd_nsigma": 6.0}
        v, ch = _guarded(lambda p: call_kernel(k, p, cutoff=1e-5), pars)
        return "cylinder:q1:mesh1600:1e-5", v, ch

    def cyl_ngauss(L):
        # a variant of the model with another quadrature size is built from its own info object;
        # the standard model loaded before or afterwards must not notice
        from sasmodels import core, generate
        info = core.load_model_info("cylinder")
        generate.set_integration_size(info, 20)
        m = core.build_model(info, dtype="double", platform="dll")
        k = m.make_kernel([np.array(Q1)])
        v, ch = _guarded(lambda p: call_kernel(k, p), dict(P["cyl2"]))
        L.kernels.pop(("cylinder", "q1"), None)
        L.models.pop("cylinder", None)          # the next cylinder request loads the standard model again
        return "cylinder@gauss20:q1:cyl2", v, ch

    def pynv(L):
        # every call loads the plug-in anew (a second load in one process must behave like the first)
        L.kernels.pop(("@pynv", "q1"), None)
        L.models.pop("@pynv", None)
        k = L.kernel("@pynv", "q1")
        v, ch = _guarded(lambda p: call_kernel(k, p), {"rg": 25.0})
        return "@pynv:q1", v, ch

    def sph2d(pname):
        def op(L):
            k = L.kernel("sphere", "2d")
            v, ch = _guarded(lambda p: call_kernel(k, p), dict(P[pname]))
            return "sphere:2d:%s" % pname, v, ch
        return op

    def fq(L):
        which = "q%d" % L.qsel
        k = L.kernel("sphere", which)
        v, ch = _guarded(lambda p: call_Fq(k, p), dict(P["fq"]))
        return "sphereFq:%s" % which, v, ch

    def generic(mname, kname, pname, fqmode=False):
        def op(L):
            k = L.kernel(mname, kname)
            v, ch = _guarded(lambda p: (call_Fq if fqmode else call_kernel)(k, p), dict(P[pname]))
            return "%s:%s:%s:%d" % (mname, kname, pname, fqmode), v, ch
        return op

    def direct(L):
        if L.dm is None:
            L.dm = DirectModel(empty_data1D(np.array(Q1)), L.model("sphere"), cutoff=1e-5)
        pars = dict(P["disp"])
        before = dict(pars)
        v = L.dm(**pars)
        return "DirectModel:disp", v, ([] if pars == before else ["DirectModel changed the keyword dict"])

    def iq_fn(L):
        q = np.array(Q2)
        q0 = q.copy()
        L.model("cylinder")       # (library already in the cache)
        v = direct_model.Iq("cylinder", q, **dict(P["cyl"]))   # Iq() takes a model NAME
        return "Iq:cylinder", v, ([] if q.tobytes() == q0.tobytes() else ["Iq() modified q"])

    def sv_new(L):
        from sasmodels.sasview_model import _make_standard_model
        if L.sv is None:
            L.sv = _make_standard_model("sphere")()
            L.sv_radius, L.sv_pd = None, False

    def sv_set(L):
        sv_new(L)
        L.sv.setParam("radius", 33.0)
        L.sv_radius = 33.0
        return None, None, []

    def sv_pd(L):
        sv_new(L)
        L.sv.setParam("radius.width", 0.25)
        L.sv.setParam("radius.npts", 6)
        L.sv_pd = True
        return None, None, []

    def sv_eval(L):
        sv_new(L)
        q = np.array(Q1)
        q0 = q.copy()
        params0 = copy.deepcopy(L.sv.params)
        disp0 = copy.deepcopy(L.sv.dispersion)
        v = L.sv.evalDistribution(q)
        ch = []
        if q.tobytes() != q0.tobytes():
            ch.append("evalDistribution modified q")
        if L.sv.params != params0 or L.sv.dispersion != disp0:
            ch.append("evalDistribution changed the model's own parameter tables")
        return "sv:%r:%r" % (L.sv_radius, L.sv_pd), v, ch

    def sv_eval_near(L):
        # q values that agree with Q1 to 2e-6 (relative) but are not Q1: another request, another answer
        sv_new(L)
        q = np.array(Q1) * (1.0 + 2e-6)
        v = L.sv.evalDistribution(q)
        return "svnear:%r:%r" % (L.sv_radius, L.sv_pd), v, []

    def sv_eval_f32(L):
        # the same grid handed over as float32 (values differ from Q1 in the 8th digit)
        sv_new(L)
        q = np.array(Q1, dtype="float32")
        v = L.sv.evalDistribution(q)
        return "svf32:%r:%r" % (L.sv_radius, L.sv_pd), v, []

    def sv_clone_eval(L):
        sv_new(L)
        c = L.sv.clone()
        v = c.evalDistribution(np.array(Q1))
        # a clone is a new object: evaluating it must not disturb the original's later results
        return "sv:%r:%r" % (L.sv_radius, L.sv_pd), v, []

    def sv_clone_mut(L):
        # work on a clone (other width, point count and radius): the original must not notice
        sv_new(L)
        params0 = copy.deepcopy(L.sv.params)
        disp0 = copy.deepcopy(L.sv.dispersion)
        c = L.sv.clone()
        c.setParam("radius.width", 0.4)
        c.setParam("radius.npts", 5)
        c.setParam("radius", 51.0)
        v = c.evalDistribution(np.array(Q1))
        ch = []
        if L.sv.params != params0 or L.sv.dispersion != disp0:
            ch.append("setParam on a clone changed the original's tables: params %r -> %r, dispersion[radius] %r -> %r"
                      % (params0.get("radius"), L.sv.params.get("radius"), disp0.get("radius"), L.sv.dispersion.get("radius")))
        return "svclone:51:0.4:5", v, ch

    def sv_2d(L):
        sv_new(L)
        v = L.sv.evalDistribution([np.array(QX), np.array(QY)])
        return "sv2d:%r:%r" % (L.sv_radius, L.sv_pd), v, []

    def svps_comp(L):
        from sasmodels.sasview_model import _make_standard_model, MultiplicationModel
        if L.svps is None:
            L.svps = MultiplicationModel(_make_standard_model("sphere")(), _make_standard_model("hardsphere")())
        v1 = L.svps.evalDistribution(np.array(Q1))
        pq, sq = L.svps.calc_composition_models(np.array(Q1))
        return "svps", (v1, pq, sq), []

    def rel_pair(L):
        # an explicitly released (and then dropped) kernel, followed by TWO live kernels of the same model with the
        # same number of q points: the older one must still answer for its own q values
        import gc
        m = L.model("sphere")
        ka = m.make_kernel([np.array(Q1)])
        call_kernel(ka, dict(P["mono"]))
        ka.release()
        del ka
        gc.collect()
        kb = m.make_kernel([np.array(Q1)])
        kc = m.make_kernel([np.array(Q1B)])
        v, ch = _guarded(lambda p: call_kernel(kb, p, cutoff=0.0), dict(P["disp"]))
        call_kernel(kc, dict(P["mono"]))
        # the request is the elementary one of sph_disp on q1: same key, hence the same fresh-process oracle value
        # (an oracle obtained by running THIS compound operation first would contain the defect it looks for)
        return "sphere:q1:disp:0", v, ch

    def fq_refused(L):
        # a request that is refused (misspelt parameter) must leave the caller's dictionary exactly as it was
        which = "q%d" % L.qsel
        k = L.kernel("sphere", which)
        pars = dict(P["fq"], radius_effective_mode=0, raduis=3.0)
        before = copy.deepcopy(pars)
        try:
            call_Fq(k, pars)
        except Exception:  # noqa - whether a misspelt name is refused is C10's business
            pass
        ch = [] if (pars == before and list(pars) == list(before)) else [
            "a refused call_Fq changed the caller's dictionary from %r to %r" % (before, pars)]
        return None, None, ch

    def sv_array(L):
        # a tabulated distribution supplied by the caller (weights deliberately not normalised): the caller's two
        # arrays are inputs like any other and every repetition of the request must return the same bits
        from sasmodels.sasview_model import _make_standard_model
        from sasmodels.weights import ArrayDispersion
        if L.svarr is None:
            m = _make_standard_model("sphere")()
            values, wts = np.array([31.0, 40.0, 52.0, 60.5, 77.0]), np.array([0.7, 3.0, 2.2, 1.1, 0.3])
            disp = ArrayDispersion()
            disp.set_weights(values, wts)
            m.set_dispersion("radius", disp)
            L.svarr = (m, values, wts, values.copy(), wts.copy())
        m, values, wts, v0, w0 = L.svarr
        v = m.evalDistribution(np.array(Q1))
        ch = []
        if values.tobytes() != v0.tobytes() or wts.tobytes() != w0.tobytes():
            ch.append("evaluating a model with a tabulated distribution rewrote the caller's arrays: values %s -> %s, "
                      "weights %s -> %s" % (v0, values, w0, wts))
        return "svarr", v, ch

    def release(L):
        # API protocol: kernels made before release() are dead
        for name, m in list(L.models.items()):
            if getattr(m, "_dll", None) is not None:
                for key in [k for k in L.kernels if k[0] == name]:
                    del L.kernels[key]
                m.release()
        for key in [k for k in L.kernels if k[0] in ("sphere@hardsphere", "sphere+cylinder")]:
            del L.kernels[key]
        L.dm = None
        return None, None, []

    def reload(L):
        from sasmodels import core
        L.kernels = {k: v for k, v in L.kernels.items() if k[0] != "sphere"}
        L.models["sphere"] = core.load_model("sphere", dtype="double", platform="dll")
        L.dm = None
        return None, None, []

    ops = [
        ("mk_q1", mk("q1")), ("mk_q2", mk("q2")),
        ("sph_mono", sph("mono")), ("sph_disp", sph("disp")), ("sph_big", sph("big")),
        ("sph_zero", sph("zero")), ("sph_cut", sph("disp", 0.02)), ("sph_monoflag", sph_monoflag), ("cyl_mesh", cyl_mesh), ("cyl_ngauss", cyl_ngauss),
        ("sph2d_mono", sph2d("mono")), ("sph2d_mag", sph2d("mag")),
        ("sph_fq", fq),
        ("cyl_disp", generic("cylinder", "q1", "cyl")), ("cyl_fq", generic("cylinder", "q1", "cyl2", True)),
        ("css", generic("core_shell_sphere", "q1", "css")),
        ("py_1", generic("@py", "q1", "py1")), ("py_2", generic("@py", "q1", "py2")), ("py_nv", pynv),
        ("pl", generic("power_law", "q1", "pl")),
        ("prod", generic("sphere@hardsphere", "q1", "ps")),
        ("mix", generic("sphere+cylinder", "q1", "mix")),
        ("direct", direct), ("iq_fn", iq_fn),
        ("sv_set", sv_set), ("sv_pd", sv_pd), ("sv_eval", sv_eval), ("sv_eval_near", sv_eval_near), ("sv_eval_f32", sv_eval_f32), ("sv_clone", sv_clone_eval), ("sv_clone_mut", sv_clone_mut), ("sv_2d", sv_2d),
        ("sv_array", sv_array), ("rel_pair", rel_pair), ("fq_refused", fq_refused), ("svps", svps_comp),
        ("release", release), ("reload", reload),
    ]
    return ops


QUICK_OPS = ["mk_q2", "sph_monoflag", "sph_disp", "sph_zero", "sph2d_mag", "sph2d_mono", "sph_fq", "cyl_fq", "cyl_mesh", "cyl_ngauss", "py_nv", "py_2",
             "prod", "mix", "direct", "sv_set", "sv_eval", "sv_eval_near", "sv_clone_mut", "sv_array", "rel_pair", "fq_refused", "svps", "release", "reload"]


def _op_table(ctx_quick):
    ops = _ops()
    if ctx_quick:
        ops = [(n, f) for n, f in ops if n in QUICK_OPS]
    return ops


def _apply(L, opname, fn, hist, agg, oracle):
    agg["trans"] += 1
    try:
        key, value, changed = fn(L)
    except Exception as exc:  # noqa
        agg["nfails"] += 1
        if len(agg["fails"]) < 40:
            agg["fails"].append({"clause": "raises", "op": opname, "history": list(hist),
                                 "detail": "history %s: %s raised %r\n%s" % (" ".join(hist), opname, exc, traceback.format_exc()[-600:])})
        return None
    for msg in changed:
        agg["nfails"] += 1
        if len(agg["fails"]) < 40:
            agg["fails"].append({"clause": "input-modified", "op": opname, "history": list(hist),
                                 "detail": "history %s: %s: %s" % (" ".join(hist), opname, msg)})
    # results handed out earlier belong to the caller: no later call may rewrite them
    for (h0, op0, arr, snap) in getattr(L, "handed_out", []):
        if arr.tobytes() != snap:
            agg["nfails"] += 1
            if len(agg["fails"]) < 40:
                agg["fails"].append({"clause": "returned-array-overwritten", "op": op0, "history": list(hist),
                                     "detail": "history %s: the array returned by %s (step %d) was %s and reads %s after %s"
                                               % (" ".join(hist), op0, h0, np.frombuffer(snap, dtype=arr.dtype)[:4], arr.ravel()[:4], opname)})
            L.handed_out = [t for t in L.handed_out if t[2] is not arr]
    if key is not None:
        if not hasattr(L, "handed_out"):
            L.handed_out = []
        for a in (value if isinstance(value, (tuple, list)) else [value]):
            if isinstance(a, np.ndarray) and a.size:
                L.handed_out.append((len(hist), opname, a, a.tobytes()))
        L.handed_out = L.handed_out[-12:]
        agg["evals"] += 1
        got = _ev(value)
        if oracle is not None:
            want = oracle.get(key)
            if want is None:
                raise HarnessError("no oracle value for request %r (history %s)" % (key, hist))
            if got != want:
                agg["nfails"] += 1
                if len(agg["fails"]) < 40:
                    agg["fails"].append({"clause": "history-dependent", "op": opname, "history": list(hist),
                                         "detail": "history %s: request %s returned %s; the same request first in a fresh process returns %s"
                                                   % (" ".join(hist), key, _decode(got), _decode(want))})
                agg["outcomes"].add("differs:" + opname)
            else:
                agg["outcomes"].add("same:" + opname)
        return key, got
    return None


def _decode(hexes):
    out = []
    for part in hexes.split("|"):
        if part == "None":
            out.append(None)
        else:
            out.append([float(v) for v in np.frombuffer(bytes.fromhex(part), dtype=float)])
    return out


def _new_agg():
    return {"histories": 0, "trans": 0, "evals": 0, "nt": 0, "nfails": 0, "fails": [], "outcomes": set()}


def _merge(a, b):
    for k in ("histories", "trans", "evals", "nt", "nfails"):
        a[k] += b[k]
    a["fails"].extend(b["fails"][:max(0, 40 - len(a["fails"]))])
    a["outcomes"].update(b["outcomes"])


def _dfs(L, ops, hist, keys, depth_left, agg, oracle):
    agg["histories"] += 1
    if len(set(keys)) >= 2:
        agg["nt"] += 1
    if depth_left == 0:
        return
    for name, fn in ops:
        r, w = os.pipe()
        sys.stdout.flush()
        sys.stderr.flush()
        pid = os.fork()
        if pid == 0:
            os.close(r)
            code = 0
            try:
                sub = _new_agg()
                h2 = hist + [name]
                res = _apply(L, name, fn, h2, sub, oracle)
                k2 = keys + ([res[0]] if res else [])
                _dfs(L, ops, h2, k2, depth_left - 1, sub, oracle)
                sub["outcomes"] = sorted(sub["outcomes"])
                with os.fdopen(w, "w") as fh:
                    json.dump(sub, fh)
            except BaseException:  # noqa
                code = 7
                try:
                    with os.fdopen(w, "w") as fh:
                        json.dump({"crash": traceback.format_exc()[-1500:]}, fh)
                except Exception:  # noqa
                    pass
            os._exit(code)
        os.close(w)
        with os.fdopen(r) as fh:
            data = fh.read()
        _, st = os.waitpid(pid, 0)
        if not data:
            agg["nfails"] += 1
            agg["fails"].append({"clause": "process-died", "op": name, "history": hist + [name],
                                 "detail": "history %s: process ended with wait status %r (crash in the implementation)" % (" ".join(hist + [name]), st)})
            continue
        sub = json.loads(data)
        if "crash" in sub:
            raise HarnessError("explorer node crashed: %s" % sub["crash"])
        sub["outcomes"] = set(sub["outcomes"])
        _merge(agg, sub)


STATE = {}


def _oracle_one(arg):
    """fresh process: minimal set-up operations, then the request itself, as first evaluation"""
    setup_ops, opname = arg
    ops = dict(_ops())
    L = Live(STATE["plug"], reuse_buffers=False)
    agg = _new_agg()
    for s in setup_ops:
        _apply(L, s, ops[s], [s], agg, None)
    res = _apply(L, opname, ops[opname], setup_ops + [opname], agg, None)
    if agg["fails"] and any(f["clause"] == "raises" for f in agg["fails"]):
        return {"error": agg["fails"][0]["detail"]}
    return {"key": res[0], "value": res[1]}


def _build_oracle(ctx, ops):
    names = [n for n, _ in ops]
    reqs = []
    for n in names:
        if n in ("mk_q1", "mk_q2", "sv_set", "sv_pd", "release", "reload", "fq_refused"):
            continue
        if n.startswith("sph_") or n == "sph_fq":
            variants = [[], ["mk_q2"]] if "mk_q2" in names else [[]]
        elif n in ("sv_eval", "sv_eval_near", "sv_eval_f32", "sv_clone", "sv_2d"):   # (sv_clone_mut: its request does not depend on the original's state)
            variants = [[]]
            if "sv_set" in names:
                variants.append(["sv_set"])
            if "sv_pd" in names:
                variants.append(["sv_pd"])
                if "sv_set" in names:
                    variants.append(["sv_set", "sv_pd"])
        else:
            variants = [[]]
        for v in variants:
            reqs.append((v, n))
    res = pool_map(ctx, _oracle_one, reqs, timeout=300)
    oracle = {}
    for (setup_ops, n), (st, payload) in zip(reqs, res):
        if st != "done":
            raise HarnessError("oracle request %s %s failed: %s %s" % (setup_ops, n, st, str(payload)[-800:]))
        if "error" in payload:
            # a request that raises even as the very first call: reported as a violation by the explorer
            continue
        prev = oracle.get(payload["key"])
        if prev is not None and prev != payload["value"]:
            # the very same request, each time as first evaluation of a fresh process, gives two answers
            STATE.setdefault("conflicts", []).append(
                {"clause": "fresh-process-disagree", "op": n, "history": setup_ops + [n],
                 "detail": "request %s evaluated first in two fresh processes returned %s and %s"
                           % (payload["key"], _decode(prev), _decode(payload["value"]))})
            continue
        oracle[payload["key"]] = payload["value"]
    return oracle


def _run_prefixes(arg):
    prefixes, depth, quick = arg
    ops = _op_table(quick)
    table = dict(ops)
    total = _new_agg()
    for prefix in prefixes:
        r, w = os.pipe()
        pid = os.fork()
        if pid == 0:
            os.close(r)
            try:
                L = Live(STATE["plug"])
                agg = _new_agg()
                hist, keys = [], []
                for name in prefix:
                    hist.append(name)
                    res = _apply(L, name, table[name], hist, agg, STATE["oracle"])
                    if res:
                        keys.append(res[0])
                _dfs(L, ops, hist, keys, depth - len(prefix), agg, STATE["oracle"])
                agg["outcomes"] = sorted(agg["outcomes"])
                with os.fdopen(w, "w") as fh:
                    json.dump(agg, fh)
            except BaseException:  # noqa
                try:
                    with os.fdopen(w, "w") as fh:
                        json.dump({"crash": traceback.format_exc()[-1500:]}, fh)
                except Exception:  # noqa
                    pass
            os._exit(0)
        os.close(w)
        with os.fdopen(r) as fh:
            data = fh.read()
        os.waitpid(pid, 0)
        if not data:
            total["nfails"] += 1
            total["fails"].append({"clause": "process-died", "op": prefix[-1], "history": prefix,
                                   "detail": "history %s: process died" % " ".join(prefix)})
            continue
        sub = json.loads(data)
        if "crash" in sub:
            raise HarnessError(sub["crash"])
        sub["outcomes"] = set(sub["outcomes"])
        _merge(total, sub)
    total["outcomes"] = sorted(total["outcomes"])
    return total


def explore(ctx):
    bad = build.prebuild(ctx, BASE_MODELS)
    if bad:
        raise HarnessError("models failed to build: %r" % bad)
    plug = os.path.join(ctx.scratch, "verif_pyvol.py")
    with open(plug, "w") as fh:
        fh.write(PYPLUG)
    with open(plug.replace("verif_pyvol", "verif_pynv"), "w") as fh:
        fh.write(PYPLUG_NV)
    STATE["plug"] = plug
    import sasmodels.core  # noqa - the pristine parent imports the library but never loads a model
    ops = _op_table(ctx.quick)
    names = [n for n, _ in ops]
    STATE["oracle"] = _build_oracle(ctx, ops)
    depth = BOUNDS[ctx.tier]["depth"]
    prefixes = [[a, b] for a in names for b in names]
    k = ctx.seed % len(prefixes)
    prefixes = prefixes[k:] + prefixes[:k]
    jobs = ctx.jobs
    chunks = [prefixes[i::jobs * 4] for i in range(jobs * 4)]
    chunks = [c for c in chunks if c]
    res = pool_map(ctx, _run_prefixes, [(c, depth, ctx.quick) for c in chunks], timeout=CASE_TIMEOUT)
    total = _new_agg()
    for st, payload in res:
        if st == "harness":
            raise HarnessError(payload)
        if st != "done":
            raise HarnessError("explorer worker %s: %s" % (st, str(payload)[-1500:]))
        payload["outcomes"] = set(payload["outcomes"])
        _merge(total, payload)
    n_hist = total["histories"] + 1 + len(names)
    closed = sum(len(names) ** d for d in range(depth + 1))
    if n_hist != closed:
        raise HarnessError("explored %d histories, closed form %d" % (n_hist, closed))
    report = Report()
    report.evals = n_hist
    report.states = n_hist
    report.trans = total["trans"]
    report.nt = total["nt"]
    report.outcomes = set(total["outcomes"])
    report.branches["evaluations-compared"] = total["evals"]
    report.coverage.update({"depth": depth, "operations": names, "oracle_requests": len(STATE["oracle"]),
                            "closed_form_histories": closed})
    report.samples = [{"history": ["sph_disp", "sph_zero", "sph_mono"],
                       "meaning": "dispersed call, empty-mesh call, then a monodisperse call on the same kernel"}]
    for f in STATE.get("conflicts", []) + total["fails"]:
        case = {"history": f["history"]}
        report.fails.append({"detail": f["detail"], "fkey": {"clause": f["clause"], "op": f["op"]},
                             "case": case, "cid": case_id(case), "sub": None})
    if total["nfails"] > len(total["fails"]):
        report.coverage["violating_steps_total"] = total["nfails"]
    report.generated = n_hist
    return report


def finish(ctx, report):
    report.require("evaluations-compared", 1000, "evaluations compared with the fresh-process oracle")


def replay(case, ctx):
    bad = build.prebuild(ctx, BASE_MODELS)
    if bad:
        raise HarnessError("models failed to build: %r" % bad)
    plug = os.path.join(ctx.scratch, "verif_pyvol.py")
    with open(plug, "w") as fh:
        fh.write(PYPLUG)
    with open(plug.replace("verif_pyvol", "verif_pynv"), "w") as fh:
        fh.write(PYPLUG_NV)
    STATE["plug"] = plug
    import sasmodels.core  # noqa
    ops = _op_table(False)
    STATE["oracle"] = _build_oracle(ctx, ops)
    hist = case["history"]
    (st, payload), = pool_map(ctx, _run_prefixes, [([hist], len(hist), False)], jobs=1, timeout=600)
    if st != "done":
        raise HarnessError("%s %s" % (st, payload))
    r = R()
    for f in payload["fails"]:
        r.fail(f["detail"], {"clause": f["clause"], "op": f["op"]})
    if not payload["fails"]:
        r.ok(nt=True, outcome="ok", trans=len(hist))
    return r

"""
C04 - smeared values converge to the documented resolution integrals.

Space (full product, nothing sampled):

  1-D : resolution class/shape in {pinhole, slit length-only, slit width-only, slit both}
        x 3 width sets x 5 smooth test intensities; every case smears a three-point data set on four
        user-supplied uniform calculation grids of spacing 4h0, 2h0, h0, h0/2, offset by a fraction of h (1/3 for seed 0)
        so that no window edge is commensurate with the grid
  2-D : 3 even quadratic forms x 4 anisotropic width sets x 4 accuracy levels, 12 directions (all quadrants
        and the axes) x 2 radii per case

Oracle: scipy.integrate.quad of the documented integrals (pinhole: Gaussian truncated to [-2.5, +3] sigma
and renormalised; slit: (1/L) int_0^L f(sqrt(q^2+u^2)) du, (1/2W) int_-W^W f(|q+v|) dv, their double
integral); 2-D: closed form for quadratic forms, f(q) + (H_rr s_par^2 + H_tt s_perp^2) m2/4 with m2 the
second radial moment of the unit 2-D Gaussian truncated at 3.  The error bound at each h is derived from the
midpoint rule the code documents (see `pinhole_bound`, `slit_*_bound`) and is proportional to h.
"""
import math
import warnings

import numpy as np

from .. import res_helpers as H
from ..engine import R, HarnessError

ID = "C04"
TITLE = "Smeared values converge to the documented resolution integrals"
LEVEL = "model_checking"
ENGINE = "E1"
TECHNIQUE = ("exhaustive enumeration of (resolution class, width set, smooth test intensity, grid refinement) "
             "against adaptive quadrature of the documented integrals with an error bound proportional to the grid step")
RULE = ("full product of the alphabet; one evaluation = one data point at one refinement; non-trivial = the exact "
        "smeared value differs from the unsmeared one by > 1e-6 relative; distinct = distinct "
        "(class, widths, intensity, refinement | accuracy) tuples")
ASSUMPTIONS = [
    "scipy.integrate.quad (epsrel 1e-12) of the documented integrand is the reference; a reference whose error "
    "estimate exceeds 1e-9 relative is counted inconclusive",
    "the stated bound is that of a midpoint rule with exact bin masses whose end bins are selected by their "
    "midpoint: interior O(h^2) plus a window-edge term of h/2 times the integrand at the window edge",
    "slit with both length and width: the documented 61-point equal-weight rule across the width is part of the "
    "definition; its distance from the continuous double integral is bounded by 1.5/61 of the variation across the width",
    "pinhole windows with q < 2.5 sigma reach below zero: the reference folds I(|q'|) with the Gaussian weight of q'; "
    "the 0.02*q_min cut of |q_calc| permits no deficit for pinhole (the Gaussian mass of the gap is kept by the "
    "neighbouring bins and columns are renormalised) but evaluates that mass up to cut+h away from its own |q'|, which "
    "is a stated non-shrinking term M1 (c+h)(2c+3h) max g in the bound; slit windows with W >= q are folded at q = 0 (|q+v|) and the "
    "reference integrates only |q'| >= c = 0.02*q_min, the documented lower limit of q_calc: the permitted deficit "
    "against the uncut integral is the measure of the window below c (width-only: (c - max(q-W,0))^+ plus min(c, W-q) "
    "for the folded part, over 2W); the first bin edge lies within h/2 of c, which adds h/2 times the integrand at c "
    "(twice when folded) to the bound; with length the same edge maps to sqrt(h(c+h/4)) in u for the <= 61 c/W + 2 "
    "width points with |q+v| < c + h/2",
    "2-D: second-moment error bounds 3.5 % (low), 1.5 % (med, high), 0.5 % (xhigh) as stated in DESIGN.md",
]
REFINE = [4.0, 2.0, 1.0, 0.5]
ACCURACIES = ["low", "med", "high", "xhigh"]
M2_BOUND = {"low": 0.035, "med": 0.015, "high": 0.015, "xhigh": 0.005}
BOUNDS = {
    "quick": {"q_points": "qref*(1, 2.3, 6), qref = 0.01 x seed factor", "refinements_of_h0": REFINE,
              "h0": "min(narrowest window / 40, q_min / 20)",
              "pinhole_sigma_over_q": [0.02, 0.1, 0.3],
              "slit_length_over_qmid": [0.1, 0.8, 5.0], "slit_width_over_qmin": [0.05, 0.3, 0.7],
              "slit_both": "(L/qmid, W/qmin) in (0.8, 0.1), (0.1, 0.5), (5, 0.3)",
              "slit_width_folded_over_qmin": [5.0, 2.3, 1.2, 1.0],
              "pinhole_folded_q_over_sigma": [0.4, 1.0, 2.0, 2.5],
              "p2d_pixel_patterns": "uniform widths, and per-pixel cycles (ordinary / radial width 0 / tangential width 0), the same "
                                    "shifted by one pixel, and with a fourth state (both 0)",
              "copy_round_trip": "copy.deepcopy and pickle of every resolution object, then apply: bit-identical",
              "second_use": "every apply(): the theory array is compared bit for bit with its copy and applied a second time",
              "storage_order": "every 1-D case of the intensities linear and dampedcos also with the data points stored "
                               "descending, rotated (cyclic shift n//3) and interleaved (two banks)",
              "pinhole_default_grid": "data = linspace(qref, 6 qref, n), n = 31, 61, 121, sigma = q/ratio for the folded "
                                      "ratios, q_calc=None (default extension); 7 data points judged per n",
              "slit_both_folded": "(L/qmid, W/qmin) in (0.8, 5), (0.3, 1.2), (2, 1), (0.1, 2.3)",
              "intensities": ["const", "linear", "quadratic", "lorentz2", "dampedcos"],
              "accuracy": ACCURACIES, "sigma2d_over_q": [[0.1, 0.03], [0.03, 0.1], [0.2, 0.05], [0.08, 0.08]],
              "forms2d": ["radial", "cross", "aniso"]},
}
BOUNDS["thorough"] = dict(BOUNDS["quick"], refinements_of_h0=REFINE + [0.25],
                          pinhole_sigma_over_q=[0.02, 0.05, 0.1, 0.2, 0.3],
                          slit_length_over_qmid=[0.1, 0.3, 0.8, 2.0, 5.0], slit_width_over_qmin=[0.05, 0.15, 0.3, 0.5, 0.7],
                          slit_both="quick + (2, 0.6), (0.3, 0.05), (0.05, 0.7)")
CASE_TIMEOUT = 600

QREL = np.array([1.0, 2.3, 6.0])
PIN_SETS = [0.02, 0.1, 0.3]
LEN_SETS = [0.1, 0.8, 5.0]
WID_SETS = [0.05, 0.3, 0.7]
BOTH_SETS = [(0.8, 0.1), (0.1, 0.5), (5.0, 0.3)]
# folded windows: W exceeds some of the data q (q = qref*(1, 2.3, 6)): 5q0 folds two points, 2.3q0 is exactly q[1]
# and folds q[0], 1.2q0 folds q[0] only, 1.0q0 is exactly q[0] (window ends on q = 0)
FOLD_WID_SETS = [5.0, 2.3, 1.2, 1.0]
# folded pinhole windows: q/sigma < 2.5 puts part of [q-2.5s, q+3s] below zero; 2.5 ends the window on q = 0
FOLD_PIN_RATIOS = [0.4, 1.0, 2.0, 2.5]
P2D_PATTERNS = ["one-zero", "one-zero-shifted", "with-both-zero"]     # per-pixel zero widths mixed with ordinary pixels
ORDER_FNS = ["linear", "dampedcos"]       # intensities for which every 1-D case is repeated in the other storage orders
FOLD_BOTH_SETS = [(0.8, 5.0), (0.3, 1.2), (2.0, 1.0), (0.1, 2.3)]
FN_NAMES = ["const", "linear", "quadratic", "lorentz2", "dampedcos"]
SIG2D = [(0.1, 0.03), (0.03, 0.1), (0.2, 0.05), (0.08, 0.08)]
FORMS2D = ["radial", "cross", "aniso"]
DIRS = [0, 45, 90, 135, 180, 225, 270, 315, 20, 110, 200, 290]


def _qref(ctx):
    return 0.01 * (1.0 if ctx.seed == 0 else ctx.factor(0))


def _off(ctx):
    return OFFSETS[ctx.seed % len(OFFSETS)]


def cases(ctx):
    qref = _qref(ctx)
    off = _off(ctx)
    out = []
    more = not ctx.quick
    for fn in FN_NAMES:
        for rel in PIN_SETS + ([0.05, 0.2] if more else []):
            out.append({"kind": "pinhole", "rel": rel, "fn": fn, "qref": qref, "offset": off})
        for ratio in FOLD_PIN_RATIOS:
            out.append({"kind": "pinhole", "rel": 1.0 / ratio, "fn": fn, "qref": qref, "offset": off})
            out.append({"kind": "pinhole-default", "ratio": ratio, "fn": fn, "qref": qref})
        for L in LEN_SETS + ([0.3, 2.0] if more else []):
            out.append({"kind": "slit-length", "L": L, "W": 0.0, "fn": fn, "qref": qref, "offset": off})
        for W in WID_SETS + ([0.15, 0.5] if more else []):
            out.append({"kind": "slit-width", "L": 0.0, "W": W, "fn": fn, "qref": qref, "offset": off})
        for L, W in BOTH_SETS + ([(2.0, 0.6), (0.3, 0.05), (0.05, 0.7)] if more else []):
            out.append({"kind": "slit-both", "L": L, "W": W, "fn": fn, "qref": qref, "offset": off})
        for W in FOLD_WID_SETS:
            out.append({"kind": "slit-width", "L": 0.0, "W": W, "fn": fn, "qref": qref, "offset": off})
        for L, W in FOLD_BOTH_SETS:
            out.append({"kind": "slit-both", "L": L, "W": W, "fn": fn, "qref": qref, "offset": off})
    # storage order: every 1-D case of two intensities again with the data points stored descending / rotated /
    # interleaved (the reference of a data point does not depend on where the point is stored)
    for c in [c for c in out if c["fn"] in ORDER_FNS]:
        for order in H.ORDERS[1:]:
            out.append(dict(c, order=order))
    for acc in ACCURACIES:
        for s in range(len(SIG2D)):
            for form in FORMS2D:
                out.append({"kind": "p2d", "acc": acc, "set": s, "form": form, "qref": qref})
                for pattern in P2D_PATTERNS:
                    out.append({"kind": "p2d", "acc": acc, "set": s, "form": form, "qref": qref, "pattern": pattern})
    return out


# ----------------------------------------------------------------------------------------------
# helpers

def _fn(name, qmid):
    for t in H.test_functions(qmid):
        if t.name == name:
            return t
    raise HarnessError("unknown test function %r" % name)


OFFSETS = (1 / 3.0, 0.41, 0.23, 0.37, 0.29, 0.43, 0.19, 0.31)   # fraction of h, rotated by the seed


def _grid(lo, hi, h, off=1 / 3.0):
    start = lo - 3 * h + h * off
    n = int(math.ceil((hi + 3 * h - start) / h)) + 1
    return start + h * np.arange(n)


def _quad(fun, a, b, **kw):
    from scipy import integrate
    with warnings.catch_warnings():
        warnings.simplefilter("ignore")
        val, err = integrate.quad(fun, a, b, epsabs=0.0, epsrel=1e-12, limit=400, **kw)
    return val, err


def _levels(ctx):
    return REFINE if ctx.quick else REFINE + [0.25]


class Conv(object):
    """records |error| / bound per refinement for the 'proportional to h' evidence"""

    def __init__(self, r, fk, desc):
        self.r, self.fk, self.desc = r, fk, desc
        self.failed = set()

    def bad(self, clause, msg, **extra):
        if clause == "inputs-modified":
            # Not a violation of this property: its statement says what the smeared values are, not that the objects
            # handed in stay untouched (on the unchanged tree Pinhole2D(data, index=None) clamps zero widths of the
            # caller's dqx_data/dqy_data to 1e-10 in place).  Consequences that the statement does cover are judged
            # by the second-use / shared-state clauses; the modification itself is only counted in the evidence.
            self.r.branches["observation:inputs-modified:%s" % extra.get("what", "?")] += 1
            return
        key = (clause, tuple(sorted(extra.items())))
        if key in self.failed:
            return
        self.failed.add(key)
        self.r.fail("%s: %s" % (self.desc, msg), dict(self.fk, clause=clause, **extra), count_eval=False)


def _apply_twice(cv, r, res, theory):
    """
    the smeared values that are judged against the integrals are those of apply() on a theory array that is then used
    again: apply() must leave the array it was given bit-identical, and a second apply() on the SAME array must return
    bit-identical values (otherwise the value depends on how often the theory was used, not on the integral)
    """
    th = np.ascontiguousarray(theory, float)
    keep = th.copy()
    first = np.array(res.apply(th), float)
    if not np.array_equal(th, keep, equal_nan=True):
        k = int(np.argmax(th != keep))
        cv.bad("inputs-modified", "apply() changed the theory array it was given: element %d was %r, is %r"
               % (k, keep.ravel()[k], th.ravel()[k]), what="theory")
    second = np.array(res.apply(th), float)
    if second.shape != first.shape or not np.array_equal(first, second, equal_nan=True):
        k = int(np.argmax(first != second)) if second.shape == first.shape else 0
        cv.bad("second-use", "apply() on the same theory array gives %r the first time and %r the second time (data point %d)"
               % (first[k] if second.shape == first.shape else first.shape, second[k] if second.shape == first.shape else second.shape, k),
               what="apply")
    r.branch("apply-twice")
    # copy round trip (deepcopy / pickle, as a parallel fit does): the copy gives the judged values bit for bit
    for how, twin, refusal in H.copy_round_trips(res):
        if twin is None:
            cv.bad("copy", "%s of the resolution object failed: %s" % (how, refusal), how=how, what="refused")
            continue
        third = np.array(twin.apply(keep.copy()), float)
        if third.shape != first.shape or not np.array_equal(first, third, equal_nan=True):
            k = int(np.argmax(first != third)) if third.shape == first.shape else 0
            cv.bad("copy", "the %s copy gives %r at data point %d, the original %r"
                   % (how, third[k] if third.shape == first.shape else third.shape, k, first[k]), how=how, what="result")
        r.branch("copy:" + how)
    return first


def _judge(cv, r, i, qi, h, got, exact, bound, unsmeared, ref_err, what):
    """one data point at one refinement"""
    scale = abs(exact) + 1e-300
    if not np.isfinite(got):
        cv.bad("finite", "h=%r: %s[%d] (q=%r) is %r" % (h, what, i, qi, got))
        r.ok(nt=True, outcome="nonfinite")
        return None
    if ref_err > 1e-9 * scale:
        r.inconc("reference-quadrature-not-converged")
        return None
    err = abs(got - exact)
    tol = bound + 1e-12 * scale + 10 * ref_err
    nt = abs(exact - unsmeared) > 1e-6 * abs(unsmeared)
    if err > tol:
        cv.bad("bound", "h=%r: %s[%d] at q=%r is %.15g, documented integral %.15g (unsmeared %.15g): "
               "|error| %.3g exceeds the midpoint-rule bound %.3g" % (h, what, i, qi, got, exact, unsmeared, err, tol))
    r.ok(nt=nt, outcome="ok" if err <= tol else "FAILED", branches=["nontrivial"] if nt else [])
    return err


def _finish_levels(cv, r, errs, bounds, hs, what, limit=0.3):
    """errs[level][point]; the bound at the finest level must be below 0.3 x the bound at the coarsest
    (i.e. the envelope that was verified really shrinks with h) - a guard on the oracle, not on the code"""
    b = np.array(bounds, float)
    if b.size and np.all(np.isfinite(b)):
        shrink = np.max(b[-1] / np.where(b[0] > 0, b[0], np.inf))
        if shrink > limit:
            raise HarnessError("%s: error envelope does not shrink with h (%r)" % (what, shrink))
        r.extra["refinement_ladders_checked"] += 1


# ----------------------------------------------------------------------------------------------
# pinhole

def pinhole_exact(t, qi, si):
    """truncated, renormalised Gaussian times I(|q'|) over [q-2.5s, q+3s] (the part below zero is folded, keeping
    the weight of q')"""
    lo, hi = qi - H.NSIG_LOW * si, qi + H.NSIG_HIGH * si
    g = lambda x: math.exp(-0.5 * ((x - qi) / si) ** 2) / (si * math.sqrt(2 * math.pi))
    num, e1 = _quad(lambda x: float(t.f(abs(x))) * g(x), lo, hi, points=[qi] + ([0.0] if lo < 0 < hi else []))
    den = 0.5 * (math.erf(H.NSIG_HIGH / math.sqrt(2)) + math.erf(H.NSIG_LOW / math.sqrt(2)))
    return num / den, e1 / den


def _abs_range(lo, hi):
    """range of |x| for x in [lo, hi]"""
    if lo >= 0:
        return lo, hi
    return 0.0, max(-lo, hi)


def pinhole_bound(t, qi, si, h, exact, cut=0.0, junctions=0):
    """
    midpoint rule with exact Gaussian bin masses over the bins whose midpoint lies in W = [lo, hi]; h = largest
    spacing of the (signed) calculation grid:
      interior:  [M1 h^2/12 (2 g(0) + 4 h max|g'|) + M2 h^2/8] / m          (Taylor about each midpoint)
      edges:     d [max_{|x-lo|<=d} |f - B| g + max_{|x-hi|<=d} |f - B| g] / m,  d = h/2   (B = exact value)
      near zero: the code evaluates nothing at |q'| < cut = 0.02 q_min; the Gaussian mass of the gap is kept (the
                 neighbouring bins grow over it), so no deficit is permitted, but the mass within
                 [-cut-1.5h, cut+1.5h] is evaluated up to cut+h away from its own |q'| (and I(|q'|) has a kink at 0):
                 M1 (cut+h) (2 cut+3h) max g / m; a window edge inside the gap is located to cut+h instead of h/2
      junctions: a default grid changes its spacing at the ends of the data, where the sample is not the bin
                 centre: M1 (h/4) h g(0) per junction bin (2 bins per junction)
    with m >= 0.97 the mass of the selected bins; inflated by 10 %.
    """
    lo, hi = qi - H.NSIG_LOW * si, qi + H.NSIG_HIGH * si
    a, b = _abs_range(lo - h, hi + h)
    m1 = H.sup_abs(t.d1, a, b)
    m2 = H.sup_abs(t.d2, a, b)
    g0 = 1.0 / (si * math.sqrt(2 * math.pi))
    g1 = math.exp(-0.5) * g0 / si
    gauss = lambda x: np.exp(-0.5 * ((x - qi) / si) ** 2) * g0
    interior = (m1 * h * h / 12.0 * (2 * g0 + 4 * h * g1) + m2 * h * h / 8.0)

    def edge(c):
        d = cut + h if (cut > 0 and abs(c) < cut + h) else 0.5 * h
        x = np.linspace(c - d, c + d, 41)
        return d * float(np.max(np.abs(t.f(np.abs(x)) - exact) * gauss(x)))
    edges = edge(lo) + edge(hi)
    zero = 0.0
    if cut > 0 and lo - h < cut:
        x = np.linspace(-cut - 1.5 * h, cut + 1.5 * h, 41)
        zero = H.sup_abs(t.d1, 0.0, cut + 2 * h, 41) * (cut + h) * (2 * cut + 3 * h) * float(np.max(gauss(x)))
    junc = junctions * 2 * m1 * 0.25 * h * h * g0
    return 1.1 * (interior + edges + zero + junc) / 0.97


def run_pinhole(case, ctx, r):
    from sasmodels import resolution
    qa = case["qref"] * QREL
    order = case.get("order")
    q = qa[H.order_perm(order, 3)] if order else qa          # storage order; per-point widths travel with the points
    rel = case["rel"]
    sig = rel * q
    t = _fn(case["fn"], qa[1])
    fk = {"class": "Pinhole1D", "fn": case["fn"], "widths": "sigma=%gq" % rel}
    if order:
        fk["order"] = order
        r.branch("order:" + order)
    desc = "Pinhole1D(q=%r, q_width=%r*q, q_calc=uniform(h))  f=%s" % (list(q), rel, case["fn"])
    cv = Conv(r, fk, desc)
    ex = [pinhole_exact(t, q[i], sig[i]) for i in range(3)]
    h0 = min(sig.min() * 5.5 / 40.0, q.min() / 20.0)
    lo, hi = float(np.min(q - H.NSIG_LOW * sig)), float(np.max(q + H.NSIG_HIGH * sig))
    c = H.MIN_ABS_Q * q.min()
    low = lo - 4 * h0 * max(_levels(ctx)) <= c          # some window (or its grid margin) reaches the cut / folds
    errs, bnds, hs = [], [], []
    for lev in _levels(ctx):
        h = h0 * lev
        if low:
            # uniform signed grid h*(offset + k), k from negative values: contains negative q
            k0 = int(math.floor((lo - 3 * h) / h))
            qc = h * (case.get("offset", 1 / 3.0) + np.arange(k0, int(math.ceil((hi + 3 * h) / h)) + 1))
        else:
            qc = _grid(lo, hi, h, case.get("offset", 1 / 3.0))
        res = resolution.Pinhole1D(q.copy(), sig.copy(), q_calc=qc)
        with np.errstate(all="ignore"):
            got = _apply_twice(cv, r, res, t.f(np.asarray(res.q_calc, float)))
        e, b = [], []
        for i in range(3):
            bound = pinhole_bound(t, q[i], sig[i], h, ex[i][0], cut=c if low else 0.0)
            if q[i] - H.NSIG_LOW * sig[i] < 0:
                r.branch("pinhole-window-folded")
            e.append(_judge(cv, r, i, q[i], h, got[i], ex[i][0], bound, float(t.f(q[i])), ex[i][1], "Pinhole1D.apply(f)"))
            b.append(bound)
        errs.append(e)
        bnds.append(b)
        hs.append(h)
        r.trans += 1
    if case["fn"] not in ("const",):
        _finish_levels(cv, r, errs, bnds, hs, desc)
    r.branch("pinhole")
    if low:
        r.branch("pinhole:folded")
    if not r.samples:
        r.sample({"call": desc, "h": hs, "abs_error_point0": [None if e[0] is None else float(e[0]) for e in errs],
                  "bound_point0": [float(b[0]) for b in bnds], "exact_point0": float(ex[0][0])})


# ----------------------------------------------------------------------------------------------
# slit

def slit_length_exact(t, qi, L, cut=0.0):
    """(1/L) int_0^L f(sqrt(q^2+u^2)) du restricted to sqrt(q^2+u^2) >= cut"""
    u0 = math.sqrt(max(cut * cut - qi * qi, 0.0))
    if u0 >= L:
        return 0.0, 0.0
    val, err = _quad(lambda u: float(t.f(math.sqrt(qi * qi + u * u))), u0, L)
    return val / L, err / L


def slit_width_exact(t, qi, W, cut=0.0):
    """(1/2W) int_-W^W f(|q+v|) dv restricted to |q+v| >= cut: [max(q-W,0), q+W] once and, when q < W, the
    folded part [0, W-q] once more"""
    f = lambda x: float(t.f(x))
    a = max(qi - W, 0.0, cut)
    val, err = _quad(f, a, qi + W)
    if qi < W and W - qi > cut:
        v2, e2 = _quad(f, cut, W - qi)
        val, err = val + v2, err + e2
    return val / (2 * W), err / (2 * W)


def slit_both_exact(t, qi, L, W, cut=0.0):
    """(61-point documented average, continuous double integral, quadrature error, variation across the width)"""
    vk = np.array([k * W / 30.0 for k in range(-30, 31)])
    Fk, ek = zip(*[slit_length_exact(t, abs(qi + v), L, cut) for v in vk])
    Fk = np.array(Fk)
    avg61 = float(np.mean(Fk))
    pts = [p for p in (-qi - cut, -qi, -qi + cut) if -W < p < W] if qi - W < cut else None
    dbl, e2 = _quad(lambda v: slit_length_exact(t, abs(qi + v), L, cut)[0], -W, W, points=pts)
    return avg61, dbl / (2 * W), max(max(ek), e2 / (2 * W)), float(Fk.max() - Fk.min())


def run_pinhole_default(case, ctx, r):
    """default-extended q_calc (q_calc=None): a uniform data set with per-point sigma = q/ratio; the extension uses
    the data spacing, so the largest spacing of the signed grid is the data spacing h"""
    from sasmodels import resolution
    q0, ratio = case["qref"], case["ratio"]
    t = _fn(case["fn"], 2.3 * q0)
    fk = {"class": "Pinhole1D", "fn": case["fn"], "widths": "sigma=q/%g" % ratio, "qcalc": "default"}
    order = case.get("order")
    if order:
        fk["order"] = order
        r.branch("order:" + order)
    desc = ("Pinhole1D(q=linspace(%r, %r, n)%s, q_width=q/%r, q_calc=None)  f=%s"
            % (q0, 6 * q0, " stored %s" % order if order else "", ratio, case["fn"]))
    cv = Conv(r, fk, desc)
    c = H.MIN_ABS_Q * q0
    cache = {}
    errs, bnds, hs = [], [], []
    for n in ([31, 61, 121] if ctx.quick else [31, 61, 121, 241]):
        qa = np.linspace(q0, 6 * q0, n)
        h = float(qa[1] - qa[0])
        perm = H.order_perm(order, n) if order else np.arange(n)
        inv = np.argsort(perm)                     # ascending index -> stored position
        q = qa[perm]
        sig = q / ratio
        with warnings.catch_warnings():
            warnings.simplefilter("ignore")
            res = resolution.Pinhole1D(q.copy(), sig.copy())
        with np.errstate(all="ignore"):
            got = _apply_twice(cv, r, res, t.f(np.asarray(res.q_calc, float)))
        e, b = [], []
        for frac in range(7):
            i = int(inv[frac * (n - 1) // 6])      # stored position of the judged (ascending-indexed) point
            if frac not in cache:
                cache[frac] = pinhole_exact(t, q[i], sig[i])
            exact, qerr = cache[frac]
            bound = pinhole_bound(t, q[i], sig[i], h, exact, cut=c, junctions=2)
            if q[i] - H.NSIG_LOW * sig[i] < 0:
                r.branch("pinhole-window-folded")
            e.append(_judge(cv, r, i, q[i], h, got[i], exact, bound, float(t.f(q[i])), qerr,
                            "Pinhole1D(default q_calc).apply(f)"))
            b.append(bound)
        errs.append(e)
        bnds.append(b)
        hs.append(h)
        r.trans += 1
    if case["fn"] != "const":
        _finish_levels(cv, r, errs, bnds, hs, desc, 0.45)
    r.branch("pinhole-default")
    if not r.samples:
        r.sample({"call": desc, "h": hs, "abs_error_point0": [None if e[0] is None else float(e[0]) for e in errs],
                  "bound_point0": [float(b[0]) for b in bnds]})


def run_slit(case, ctx, r):
    from sasmodels import resolution
    qa = case["qref"] * QREL
    kind = case["kind"]
    L, W = case["L"] * qa[1], case["W"] * qa[0]      # length relative to the middle q, width to the smallest
    t = _fn(case["fn"], qa[1])
    order = case.get("order")
    q = qa[H.order_perm(order, 3)] if order else qa  # storage order of the three data points
    fk = {"class": "Slit1D", "shape": kind[5:] + "-only" if kind != "slit-both" else "both", "fn": case["fn"],
          "widths": "L=%gqmid,W=%gqmin" % (L / qa[1], W / qa[0])}
    if order:
        fk["order"] = order
        r.branch("order:" + order)
    desc = "Slit1D(q=%r, q_length=%r, q_width=%r, q_calc=uniform(h))  f=%s" % (list(q), L, W, case["fn"])
    cv = Conv(r, fk, desc)
    wins = [H.slit_window(qi, L, W) for qi in q]
    lo, hi = min(w[0] for w in wins), max(w[1] for w in wins)
    c = H.MIN_ABS_Q * q.min()                 # documented lower limit of q_calc
    low = lo <= 2 * c                          # some window reaches the cut (W >= q: folded at q = 0)
    if low and kind == "slit-length":
        raise HarnessError("length-only slit window reaches the low-q cut")
    cut = c if low else 0.0
    h0 = min(min(w[1] - w[0] for w in wins) / 40.0, q.min() / 20.0)
    if kind == "slit-length":
        ex = [slit_length_exact(t, qi, L) for qi in q]
    elif kind == "slit-width":
        ex = [slit_width_exact(t, qi, W, cut) for qi in q]
    else:
        ex4 = [slit_both_exact(t, qi, L, W, cut) for qi in q]
    vk = np.array([k * W / 30.0 for k in range(-30, 31)])
    errs, bnds, hs = [], [], []
    for lev in _levels(ctx):
        h = h0 * lev
        if low:
            # positive uniform grid from (offset x h); the code drops the points below c, so the first bin
            # edge lies within h/2 of c (or is clipped at 0 when h > 2c)
            qc = h * (case.get("offset", 1 / 3.0) + np.arange(int(math.ceil((hi + 3 * h) / h)) + 1))
        else:
            qc = _grid(lo, hi, h, case.get("offset", 1 / 3.0))
        res = resolution.Slit1D(q.copy(), q_length=L, q_width=W, q_calc=qc)
        with np.errstate(all="ignore"):
            got = _apply_twice(cv, r, res, t.f(np.asarray(res.q_calc, float)))
        e, b = [], []
        for i in range(3):
            wl, wh = wins[i]
            m1 = H.sup_abs(t.d1, max(wl - h, 0.0) if low else wl - h, wh + h)
            folded = W > q[i]
            at_cut = low and q[i] - W < c + h
            f_c = H.sup_abs(t.f, max(c - h, 0.0), c + h, 41) if at_cut else 0.0
            if folded:
                r.branch("folded-window")
            if at_cut:
                r.branch("window-at-cut")
            if kind == "slit-length":
                # every u in [0, L] is assigned to the bin that contains sqrt(q^2+u^2), evaluated at its midpoint
                bound = 1.05 * 0.5 * h * m1
                e.append(_judge(cv, r, i, q[i], h, got[i], ex[i][0], bound, float(t.f(q[i])), ex[i][1], "Slit1D.apply(f)"))
            elif kind == "slit-width":
                # bins selected by midpoint (or clipped to the window): interior midpoint error + the two end bins
                m2 = H.sup_abs(t.d2, wl - h, wh + h)
                f_lo = H.sup_abs(t.f, wl - h / 2, wl + h / 2, 41)
                f_hi = H.sup_abs(t.f, wh - h / 2, wh + h / 2, 41)
                bound = 1.05 * ((2 * W + h) * m2 * h * h / 24.0 + max(0.5 * h * (f_lo + f_hi), m1 * h * h)) / (2 * W)
                if low:
                    # every bin is clipped to the (folded) window and evaluated within h/2 of each of its points;
                    # the first edge is within h/2 of the cut c, counted twice where the folded part covers it
                    bound = 1.05 * (0.5 * h * m1 + ((2 if folded else 1) * 0.5 * h * f_c / (2 * W) if at_cut else 0.0))
                e.append(_judge(cv, r, i, q[i], h, got[i], ex[i][0], bound, float(t.f(q[i])), ex[i][1], "Slit1D.apply(f)"))
            else:
                avg61, dbl, qerr, var = ex4[i]
                inner = 1.05 * 0.5 * h * m1
                if at_cut:
                    # width points with |q+v_k| < c + h/2 lose/gain at most sqrt(|e0^2 - c^2|) <= sqrt(h (c + h/4)) in u
                    nk = int(np.sum(np.abs(q[i] + vk) < c + 0.5 * h))
                    inner += 1.05 * (nk / 61.0) * min(1.0, math.sqrt(h * (c + 0.25 * h)) / L) * f_c
                e.append(_judge(cv, r, i, q[i], h, got[i], avg61, inner, float(t.f(q[i])), qerr,
                                "Slit1D.apply(f) vs the documented 61-point average of the length integral"))
                # and against the continuous double integral, with the stated floor of the 61-point rule
                floor = (3.0 if folded or at_cut else 1.5) * var / 61.0     # F(|q+v|) has a kink at v = -q when folded
                if at_cut:
                    # the continuous integral loses the part of the window below c even when none of the 61 width
                    # points falls there: at most 2c of the 2W wide v range, each losing at most min(1, c/L)
                    floor += 1.05 * (c / W) * min(1.0, c / L) * f_c
                if np.isfinite(got[i]) and qerr <= 1e-9 * abs(dbl) and abs(got[i] - dbl) > inner + floor + 1e-12 * abs(dbl):
                    cv.bad("double-integral", "h=%r: point %d q=%r: %.15g vs double integral %.15g; |error| %.3g exceeds "
                           "inner bound %.3g + width-rule floor %.3g" % (h, i, q[i], got[i], dbl, abs(got[i] - dbl), inner, floor))
                bound = inner
            b.append(bound)
        errs.append(e)
        bnds.append(b)
        hs.append(h)
        r.trans += 1
    if case["fn"] != "const":
        _finish_levels(cv, r, errs, bnds, hs, desc, 0.45 if low else 0.3)
    r.branch(kind)
    if low:
        r.branch(kind + ":folded")
    if not r.samples:
        r.sample({"call": desc, "h": hs, "abs_error_point0": [None if e[0] is None else float(e[0]) for e in errs],
                  "bound_point0": [float(b[0]) for b in bnds]})


# ----------------------------------------------------------------------------------------------
# 2-D

def m2_exact(rmax=3.0):
    """second radial moment of the unit 2-D Gaussian truncated at rmax: int r^3 e^{-r^2/2} / int r e^{-r^2/2}"""
    e = math.exp(-0.5 * rmax * rmax)
    return (2.0 - (rmax * rmax + 2.0) * e) / (1.0 - e)


def _form(name, qref):
    """even quadratic forms a qx^2 + b qx qy + c qy^2 + d -> (a, b, c, d)"""
    s = 1.0 / qref ** 2
    if name == "radial":
        return (0.7 * s, 0.0, 0.7 * s, 1.0)
    if name == "cross":
        return (0.2 * s, 0.9 * s, 0.5 * s, 2.0)
    if name == "aniso":
        return (1.1 * s, -0.4 * s, 0.1 * s, 0.5)
    raise ValueError(name)


def run_p2d(case, ctx, r):
    from sasmodels import resolution2d
    from sasmodels.data import Data2D
    qref = case["qref"]
    ang = np.radians(np.array(DIRS + DIRS, float))
    rad = np.concatenate([np.full(len(DIRS), qref), np.full(len(DIRS), 3.1 * qref)])
    qx, qy = rad * np.cos(ang), rad * np.sin(ang)
    for k, d in enumerate(DIRS + DIRS):
        if d in (90, 270):
            qx[k] = 0.0
        if d in (0, 180):
            qy[k] = 0.0
    qr = np.sqrt(qx ** 2 + qy ** 2)
    rp, rt = SIG2D[case["set"]]
    spar, sperp = rp * qr, rt * qr
    pattern = case.get("pattern", "uniform")
    if pattern != "uniform":
        # per-pixel widths: ordinary pixels mixed with pixels that have exactly ONE of the two widths zero, both ways round
        # (and, in "with-both-zero", pixels with no width at all); the phase of the cycle is part of the pattern name
        cyc = {"one-zero": 3, "one-zero-shifted": 3, "with-both-zero": 4}[pattern]
        k = (np.arange(len(qr)) + (1 if pattern == "one-zero-shifted" else 0)) % cyc
        spar = np.where((k == 1) | (k == 3), 0.0, spar)        # k = 1: radial width 0, tangential > 0
        sperp = np.where((k == 2) | (k == 3), 0.0, sperp)      # k = 2: tangential width 0, radial > 0; k = 3: both 0
    a, b, c, d = _form(case["form"], qref)
    fk = {"class": "Pinhole2D", "form": case["form"], "accuracy": case["acc"], "widths": "par=%gq,perp=%gq" % (rp, rt)}
    if pattern != "uniform":
        fk["pattern"] = pattern
        r.branch("p2d-pattern:" + pattern)
        r.branch("p2d:radial-zero-only", int(np.sum((spar == 0) & (sperp > 0))))
        r.branch("p2d:tangential-zero-only", int(np.sum((sperp == 0) & (spar > 0))))
    desc = ("Pinhole2D(Data2D(ring(%r, %r) x directions %s deg, dx=%r*q, dy=%r*q%s), accuracy=%r).apply(Q), "
            "Q = %r qx^2 + %r qx qy + %r qy^2 + %r"
            % (qref, 3.1 * qref, DIRS, rp, rt, "" if pattern == "uniform" else
               "; per pixel <%s>: dx=%s..., dy=%s..." % (pattern, np.round(spar[:4], 7), np.round(sperp[:4], 7)),
               case["acc"], a, b, c, d))
    cv = Conv(r, fk, desc)
    data = Data2D(x=qx.copy(), y=qy.copy(), dx=spar.copy(), dy=sperp.copy())
    with warnings.catch_warnings():
        warnings.simplefilter("ignore")          # qy/qx on the qx = 0 axis
        with np.errstate(all="ignore"):
            res = resolution2d.Pinhole2D(data=data, index=None, nsigma=3.0, accuracy=case["acc"])
    cx, cy = [np.asarray(v, float) for v in res.q_calc]
    Q = lambda x, y: a * x * x + b * x * y + c * y * y + d
    with np.errstate(all="ignore"):
        got = _apply_twice(cv, r, res, Q(cx, cy))
    m2 = m2_exact(3.0)
    frac = M2_BOUND[case["acc"]]
    for i in range(len(qx)):
        ux, uy = qx[i] / qr[i], qy[i] / qr[i]
        # Hessian [[2a, b], [b, 2c]] in the (radial, tangential) frame
        hrr = 2 * a * ux * ux + 2 * b * ux * uy + 2 * c * uy * uy
        htt = 2 * a * uy * uy - 2 * b * ux * uy + 2 * c * ux * ux
        corr = 0.25 * m2 * (hrr * spar[i] ** 2 + htt * sperp[i] ** 2)
        # the bound is on the second radial moment, applied to each of the two terms separately
        bound = frac * 0.25 * m2 * (abs(hrr) * spar[i] ** 2 + abs(htt) * sperp[i] ** 2)
        unsm = Q(qx[i], qy[i])
        exact = unsm + corr
        _judge(cv, r, i, (qx[i], qy[i]), case["acc"], got[i], exact, bound, unsm, 0.0, "Pinhole2D.apply(Q)")
    r.trans += 1
    r.branch("p2d:" + case["acc"])
    r.extra["p2d_points"] += len(qx)
    if not r.samples:
        r.sample({"call": desc, "point": [float(qx[8]), float(qy[8])], "got": float(got[8]),
                  "unsmeared": float(Q(qx[8], qy[8])), "m2_exact": m2})


def run_case(case, ctx):
    np.set_printoptions(legacy="1.25")     # plain floats in failure details
    r = R()
    kind = case["kind"]
    try:
        if kind == "pinhole":
            run_pinhole(case, ctx, r)
        elif kind == "pinhole-default":
            run_pinhole_default(case, ctx, r)
        elif kind.startswith("slit"):
            run_slit(case, ctx, r)
        elif kind == "p2d":
            run_p2d(case, ctx, r)
        else:
            raise HarnessError("unknown case kind %r" % kind)
    except HarnessError:
        raise
    return r


def finish(ctx, report):
    for b in ("pinhole", "slit-length", "slit-width", "slit-both"):
        report.require(b, 15, "1-D class explored with every intensity and width set")
    for a in ACCURACIES:
        report.require("p2d:" + a, len(SIG2D) * len(FORMS2D), "2-D accuracy level")
    report.require("nontrivial", 500, "smeared value differs from the unsmeared one")
    for pat in P2D_PATTERNS:
        report.require("p2d-pattern:" + pat, len(ACCURACIES) * len(SIG2D) * len(FORMS2D), "per-pixel zero-width pattern")
    report.require("p2d:radial-zero-only", 500, "pixels with radial width 0 and tangential width > 0")
    report.require("p2d:tangential-zero-only", 500, "pixels with tangential width 0 and radial width > 0")
    for how in ("deepcopy", "pickle"):
        report.require("copy:" + how, 500, "copy round trip of the resolution object")
    report.require("apply-twice", 500, "apply() twice on the same theory array, array compared with its copy")
    for o in H.ORDERS[1:]:
        report.require("order:" + o, 40, "1-D cases with the data points stored in another order")
    report.require("pinhole:folded", 20, "pinhole width sets whose windows reach q <= 0 (user grids with negative q)")
    report.require("pinhole-default", 20, "pinhole with the default-extended grid")
    report.require("pinhole-window-folded", 300, "pinhole data points with q < 2.5 sigma (window folded at q = 0)")
    report.require("slit-width:folded", 15, "width-only slit with W >= q (window folded at q = 0)")
    report.require("slit-both:folded", 15, "width+length slit with W >= q (window folded at q = 0)")
    report.require("folded-window", 100, "data points whose window is folded at q = 0 (q < W)")
    report.require("window-at-cut", 100, "data points whose window reaches the 0.02*q_min cut")
    if report.inconclusive > 0.05 * max(report.evals, 1):
        report.vacuous.append("%d of %d evaluations inconclusive" % (report.inconclusive, report.evals))

"""
C01 - dispersity-averaged I(q) is the volume-normalised weighted mean.

Part A (E1): deviation-bounded enumeration over (model, per-parameter distribution, cutoff, nominal
scale, q-shape) + the mesh-size family around the 100-point chunk boundary + the "too many
dispersed parameters" refusal.  Oracle: refmodel.weighted_mean from single-point evaluations.

Part B (E2): the raw <model>_Iq symbol is driven through ctypes with EVERY composition of [0, N)
into successive (pd_start, pd_stop) invocations (N <= 12), and all one- and two-cut splits for larger
meshes; final buffers must be bit-identical.  A generated probe plug-in whose Iq is 2^(mesh index)
decodes the set of visited mesh points exactly (sum must be 2^N - 1).
"""
import itertools
import os
import textwrap

import numpy as np

from .. import build, refmodel
from ..engine import R, HarnessError
from ..space import deviations

ID = "C01"
TITLE = "Dispersity-averaged I(q) is the documented volume-normalised weighted mean"
LEVEL = "model_checking"
ENGINE = "E1"
TECHNIQUE = ("deviation-bounded exhaustive enumeration of dispersity configurations against a single-point "
             "reference mean; explicit enumeration of all (pd_start,pd_stop) partitions of the mesh on the raw kernel")
RULE = ("every combination of <=D dimensions off default (per-parameter distribution alternatives, cutoff, nominal "
        "scale, 1-D/2-D) per model, plus the mesh-size family and all partitions; non-trivial = >=2 qualifying mesh "
        "points and the reference differs from the nominal-point value by >1e-6 relative (partitions: >=2 invocations)")
ASSUMPTIONS = [
    "the model's own single-point F^2, volumes and validity verdict (monodisperse call of the same library) are the reference",
    "weights.get_weights supplies (values, weights) per parameter (decided separately by C02)",
    "DLL driver only (no OpenCL/CUDA in the image)",
    "parameter values are drawn from the finite alphabet in coverage.bounds",
]
QUICK_MODELS = ["dab", "sphere", "cylinder", "barbell", "capped_cylinder", "hollow_cylinder", "vesicle",
                "core_shell_sphere", "lamellar", "fractal", "core_multi_shell", "triaxial_ellipsoid",
                "core_shell_parallelepiped", "hayter_msa"]
# triaxial models with >= 5 size parameters, 2-D only (cheap there): with 4-5 dispersed sizes the orientation
# angles lose their loop slots, which is a different code path of the kernel (seeded change C01-f2)
MESH_MODELS_2D = ["core_shell_parallelepiped", "core_shell_bicelle_elliptical"]
MESH_MODELS_QUICK = ["sphere", "cylinder", "triaxial_ellipsoid", "multilayer_vesicle", "core_shell_bicelle", "hollow_cylinder", "vesicle"]
BOUNDS = {
    "quick": {"models": QUICK_MODELS, "D": 2, "mesh_models": MESH_MODELS_QUICK,
              "partitions": "all 2^(N-1) compositions for prod(lengths)<=12; 1-/2-cut + production schedule for N<=243"},
    "thorough": {"models": "all compiled models", "D": "2 with the full alternative set, 3 with the reduced set",
                 "mesh_models": "all with enough dispersible parameters",
                 "partitions": "all 2^(N-1) compositions for prod(lengths)<=12; 1-/2-cut + production schedule for N<=243"},
}
CASE_TIMEOUT = 600

Q1 = [0.011, 0.07, 0.31]
Q2 = [[0.05, 0.02], [-0.1, 0.13], [0.013, -0.3]]
SCALE, BACKGROUND = 1.7, 0.25

A_FULL = ([["gaussian", 3, 0.1], ["rectangle", 3, 0.1], ["uniform", 3, 0.2], ["lognormal", 3, 0.1],
           ["schulz", 3, 0.1], ["boltzmann", 3, 0.1]]
          + [["gaussian", n, 0.1] for n in (2, 5, 10, 11)]
          + [["gaussian", 1, 0.1]]
          + [["cut3"], ["cut2"], ["cut1"], ["cut0"], ["cut0n1"], ["onlim"]])
# cut0n1: ONE requested point with non-zero width about a centre outside the limits (no qualifying point: the
# background), the single-point twin of cut0 (seeded change C01-e2 short-cut npts <= 1 past the limits)
# onlim: a gaussian grid whose outermost point falls EXACTLY on a finite hard limit (limits are inclusive); its
# reference grid is built here, independently of weights.py (seeded change C01-f1 dropped the point on the limit)
A_SMALL = [["gaussian", 3, 0.1], ["schulz", 5, 0.1], ["rectangle", 2, 0.1], ["cut1"], ["cut0"], ["cut0n1"], ["onlim"]]
CUTOFFS = [1e-5, 0.05, 0.999, 1.5, "eqmin"]
# single-precision builds of the same loop (the statement says "every compiled model", not "in double"): the whole
# generated source is converted, so weights, cutoff and every accumulator are float32.  Judged against single-point
# evaluations of the SAME single-precision library; bound: (mesh points + 10) x float32 unit round-off x sum|terms|
# <= 210 x 6e-8 = 1.3e-5, used with a margin of 8.  Requests with a mesh weight within 1e-5 (relative) of the cutoff
# are not generated (float32 and double could disagree on the comparison itself).
SINGLE_MODELS = ["sphere", "cylinder", "core_shell_sphere"]
SINGLE_RTOL = 1e-4
A_SINGLE = A_SMALL + [["gaussian", 10, 0.1]]

MESH_FAMILY = {
    1: [[99], [100], [101], [200], [201]],
    2: [[10, 10], [10, 11], [11, 10], [2, 100], [101, 2]],
    3: [[5, 5, 4], [5, 5, 5], [4, 5, 5]],
    4: [[3, 3, 3, 3], [4, 3, 3, 3]],
    5: [[3, 3, 3, 3, 2], [3, 3, 3, 3, 3], [2, 3, 3, 3, 3]],
}


def disp_names(info, positive_only=False):
    """dispersible (1-D) scalar parameters in table order; vector parameters contribute their first two elements"""
    P = info.parameters
    out = []
    for p in P.call_parameters:
        if positive_only and not p.default > 0:
            continue     # a relative width about 0 is no distribution at all
        if p.name in P.pd_1d:
            # expanded vector parameters are named base+index: keep index 1, 2 only
            digits = "".join(ch for ch in p.name if ch.isdigit())
            if digits and p.name.rstrip("0123456789") != p.name and int(digits) > 2:
                continue
            out.append(p.name)
    return out


def par_by_name(info, name):
    for p in info.parameters.call_parameters:
        if p.name == name:
            return p
    raise KeyError(name)


def setup(ctx):
    names = QUICK_MODELS + MESH_MODELS_QUICK + MESH_MODELS_2D if ctx.quick else build.compiled_models()
    bad = build.prebuild(ctx, names)
    if bad:
        raise HarnessError("models failed to build: %r" % bad)
    bad = build.prebuild(ctx, SINGLE_MODELS, dtype="single")
    if bad:
        raise HarnessError("single-precision models failed to build: %r" % bad)
    ctx.notes["probe"] = write_probe(ctx.scratch)
    build_probe = build.prebuild  # noqa
    from sasmodels import core
    # compile the probe plug-in once, serially
    core.load_model(ctx.notes["probe"], dtype="double", platform="dll")


def cases(ctx):
    out = []
    models = QUICK_MODELS if ctx.quick else build.compiled_models()
    for m in models:
        info = build.info(m)
        names = disp_names(info)
        dims = [("pd:" + n, None, A_FULL) for n in names]
        dims.append(("cutoff", 0.0, CUTOFFS))
        dims.append(("nominal", 1.0, [ctx.factor(0)]))
        dims.append(("q", "1d", ["2d"]))
        # a NON-dispersed size parameter outside its limits (negated): nothing excludes the point, the volume may
        # be negative, and the statement's formula still applies (seeded change C01-g2 replaced a negative mean
        # volume by 1)
        dims.append(("neg", None, disp_names(info, positive_only=True)[:2]))
        for k, c in deviations(dims, 2):
            if c.get("neg") and c.get("pd:" + c["neg"]) is not None:
                continue
            out.append({"kind": "mean", "model": m, "dev": k, "cfg": c})
        if not ctx.quick and len(names) >= 3:
            dims3 = [("pd:" + n, None, A_SMALL) for n in names]
            dims3.append(("cutoff", 0.0, [0.05, "eqmin"]))
            dims3.append(("q", "1d", ["2d"]))
            for k, c in deviations(dims3, 3):
                if k == 3:
                    c["nominal"] = 1.0
                    out.append({"kind": "mean", "model": m, "dev": k, "cfg": c})
        # refusal / acceptance at the loop-slot limit
        if len(info.parameters.pd_1d) > info.parameters.max_pd:
            out.append({"kind": "toomany", "model": m, "n": info.parameters.max_pd + 1})
            out.append({"kind": "toomany", "model": m, "n": info.parameters.max_pd})
    for m in SINGLE_MODELS:
        names = disp_names(build.info(m))[:3]
        dims = [("pd:" + n, None, A_SINGLE) for n in names]
        dims.append(("cutoff", 0.0, [1e-5, 0.05, 0.3]))
        dims.append(("q", "1d", ["2d"]))
        for k, c in deviations(dims, 2 if ctx.quick else 3):
            c["dtype"] = "single"
            out.append({"kind": "mean", "model": m, "dev": k, "cfg": c})
    mesh_models = MESH_MODELS_QUICK if ctx.quick else models
    for m in mesh_models:
        names = disp_names(build.info(m))
        for k, fam in MESH_FAMILY.items():
            if len(names) >= k and k <= build.info(m).parameters.max_pd:
                for lengths in fam:
                    out.append({"kind": "mesh", "model": m, "lengths": lengths})
                    # the 2-D kernels are separate instantiations of the loop (never the <F>,<F^2> variant)
                    out.append({"kind": "mesh", "model": m, "lengths": lengths, "q": "2d"})
    for m in (MESH_MODELS_2D if ctx.quick else []):
        names = disp_names(build.info(m))
        for k, fam in MESH_FAMILY.items():
            if len(names) >= k and k <= build.info(m).parameters.max_pd:
                for lengths in fam:
                    out.append({"kind": "mesh", "model": m, "lengths": lengths, "q": "2d"})
    # Part B: partitions on the raw kernel
    # bit-identity does not need expensive kernels: cheap analytic models + the probe (unit and non-unit weights)
    part_models = ["cylinder", "multilayer_vesicle"]
    if not ctx.quick:
        part_models += ["sphere", "core_multi_shell", "hollow_cylinder", "vesicle", "triaxial_ellipsoid",
                        "core_shell_sphere", "lamellar_hg", "fuzzy_sphere", "raspberry"]
    small = [lv for k in range(1, 6) for lv in _length_vectors(k, 12)]
    for m in part_models + ["@probe", "@probew"]:
        nd = 5 if m.startswith("@probe") else min(len(disp_names(build.info(m))), build.info(m).parameters.max_pd)
        for lv in small:
            if len(lv) <= nd:
                out.append({"kind": "split", "model": m, "lengths": lv, "mode": "all"})
        for lv in ([101], [200], [10, 11], [5, 5, 5], [3, 3, 3, 3, 3], [2, 3, 3, 3, 3]):
            if len(lv) <= nd:
                if m.startswith("@probe") and int(np.prod(lv)) > 52:
                    continue
                out.append({"kind": "split", "model": m, "lengths": lv, "mode": "cuts"})
    for lv in ([52], [13, 4], [4, 13], [2, 2, 13], [3, 4, 4], [2, 2, 2, 2, 3], [3, 2, 2, 2, 2], [1, 3, 1, 4, 2]):
        out.append({"kind": "split", "model": "@probe", "lengths": lv, "mode": "cuts"})
        out.append({"kind": "split", "model": "@probew", "lengths": lv, "mode": "cuts"})
    return out


def _length_vectors(k, maxprod):
    """all length vectors (each >= 2) of k loops with product <= maxprod"""
    out = []
    for lv in itertools.product(range(2, maxprod + 1), repeat=k):
        if int(np.prod(lv)) <= maxprod:
            out.append(list(lv))
    return out


# ------------------------------------------------------------------------------------------------
def _trunc(par, v, which):
    """(type, npts, width, value) realising a truncation of a uniform distribution by the hard limits"""
    lo, hi = par.limits
    if not v > 0:
        return None      # relative widths about a non-positive centre: no truncation alternative
    if np.isfinite(lo) and v > lo:
        d = v - lo
        if which == "cut3":
            return "uniform", 4, 2.0 * d / v, v
        if which == "cut2":
            return "uniform", 4, 4.0 * d / v, v
        if which == "cut1":
            return "uniform", 2, 3.0 * d / v, v
        if which == "cut0":
            return "gaussian", 3, 0.1, lo - abs(v) - 1.0
        if which == "cut0n1":
            return "gaussian", 1, 0.1, lo - abs(v) - 1.0
    elif np.isfinite(hi) and v < hi and v > 0:
        d = hi - v
        if which == "cut3":
            return "uniform", 4, 2.0 * d / v, v
        if which == "cut2":
            return "uniform", 4, 4.0 * d / v, v
        if which == "cut1":
            return "uniform", 2, 3.0 * d / v, v
        if which == "cut0":
            return "gaussian", 3, 0.1, hi + abs(v) + 1.0
        if which == "cut0n1":
            return "gaussian", 1, 0.1, hi + abs(v) + 1.0
    return None


VIEW = {"theta": 35.0, "phi": 20.0, "psi": 50.0}


def _defaults(info, factor=1.0, qkind="1d"):
    pars = {}
    for p in info.parameters.call_parameters:
        if p.name in ("scale", "background"):
            continue
        v = p.default
        if qkind == "2d" and p.type == "orientation" and p.name in VIEW:
            # a generic view: no angle is 0, so an angle that is applied twice or not at all shows (the reference
            # is made of single-point evaluations at the same view)
            v = VIEW[p.name]
        if p.type == "volume" and factor != 1.0 and np.isfinite(v):
            lo, hi = p.limits
            w = v * factor
            if lo <= w <= hi:
                v = w
        pars[p.name] = v
    pars["scale"], pars["background"] = SCALE, BACKGROUND
    return pars


def _q(kind):
    if kind == "2d":
        q = np.array(Q2, float)
        return [q[:, 0].copy(), q[:, 1].copy()]
    return [np.array(Q1, float)]


def run_case(case, ctx):
    kind = case["kind"]
    if kind == "mean":
        return _run_mean(case, ctx)
    if kind == "mesh":
        return _run_mesh(case, ctx)
    if kind == "toomany":
        return _run_toomany(case, ctx)
    if kind == "split":
        return _run_split(case, ctx)
    raise HarnessError("unknown case kind %r" % kind)


def _compare(r, case, m, qkind, base, spec, cutoff, fk, extra_branches=(), dtype="double"):
    """spec: {name: (type, npts, width, nsigmas)} with base[name] the nominal value"""
    from sasmodels.direct_model import call_kernel, call_Fq
    info = m.info
    k_impl = m.make_kernel(_q(qkind))
    k_ref = m.make_kernel(_q(qkind))
    pars = dict(base)
    disp = {}
    single = False
    on_limit = False
    for name, (t, n, w, ns) in spec.items():
        pars[name + "_pd"] = w
        pars[name + "_pd_n"] = n
        pars[name + "_pd_type"] = t
        pars[name + "_pd_nsigma"] = ns
        par = par_by_name(info, name)
        x, wt = refmodel.par_dist(par, t, n, w, ns, base[name])
        if t == "gaussian" and ns == 2.0 and n == 5 and w > 0 and par.type != "orientation":
            # the on-limit alternative: documented grid and density written out here, limits inclusive
            c, sig = base[name], w * base[name]
            gx = np.linspace(c - ns * sig, c + ns * sig, n)
            gw = np.exp(-0.5 * ((gx - c) / sig) ** 2)
            keep = (gx >= par.limits[0]) & (gx <= par.limits[1])
            gx, gw = gx[keep], gw[keep]
            if len(gx) and (gx[0] == par.limits[0] or gx[-1] == par.limits[1]):
                on_limit = True
            x, wt = gx, (gw / gw.sum() if len(gw) else gw)
        disp[name] = (x, wt)
        if len(x) == 1 and x[0] != base[name]:
            single = True
    if cutoff == "eqmin":
        ws = [wt for (_, wt) in disp.values() if len(wt)]
        cutoff = float(np.prod([w_.min() for w_ in ws])) if ws and len(ws) == 1 else 0.0
    desc = "%s%s %s pars=%s cutoff=%r" % (case["model"], "" if dtype == "double" else " [dtype=%s]" % dtype, qkind,
                                          {k: v for k, v in pars.items() if "_pd" in k or k in spec}, cutoff)
    rtol = 1e-11
    br = list(extra_branches)
    if dtype != "double":
        rtol = SINGLE_RTOL
        fk = dict(fk, dtype=dtype)
        if str(k_impl.dtype) != "float32":
            raise HarnessError("%s built with dtype=%s runs in %s" % (case["model"], dtype, k_impl.dtype))
        if cutoff > 0:
            prods = [float(np.prod(c)) for c in itertools.product(*[wt for (_, wt) in disp.values()])]
            if any(abs(pw - cutoff) <= 1e-5 * cutoff for pw in prods):
                return r.ok(outcome="skipped: a mesh weight within float32 rounding of the cutoff")
        br.append("single-precision")
    ref = refmodel.weighted_mean(k_ref, base, disp, cutoff, mode=0)
    if ref["npoints"] > 100:
        br.append("chunk-boundary-crossed")
    if ref["ncut"]:
        br.append("cutoff-excluded")
    if ref["ninvalid"]:
        br.append("valid-excluded")
    if single:
        br.append("single-point-not-nominal")
    if on_limit:
        br.append("point-on-a-hard-limit")
    if ref["nqual"] == 0:
        br.append("zero-point")
    if ref["verdict_mismatch"]:
        r.fail("%s: at %d mesh point(s) a monodisperse evaluation reports a total weight that contradicts the model's "
               "own validity clause %r (an invalid point must contribute nothing - neither F^2 nor volume nor weight)"
               % (desc, ref["verdict_mismatch"], info.valid), dict(fk, clause="validity-verdict"), branches=br)
        return
    try:
        impl = call_kernel(k_impl, pars, cutoff=cutoff)
    except Exception as exc:  # noqa
        r.fail("%s: call_kernel raised %r" % (desc, exc), dict(fk, clause="raises"), branches=br,
               trans=ref["npoints"])
        return
    # the same request on a kernel that has already served another request (non-initial state)
    try:
        k_used = m.make_kernel(_q(qkind))
        call_kernel(k_used, dict(_defaults(info), scale=0.5, background=3.0), cutoff=0.0)
        impl2 = call_kernel(k_used, pars, cutoff=cutoff)
    except Exception as exc:  # noqa
        r.fail("%s: call_kernel on a previously used kernel raised %r" % (desc, exc), dict(fk, clause="raises"), branches=br)
        return
    if np.asarray(impl2).tobytes() != np.asarray(impl).tobytes():
        r.fail("%s: a kernel that served another request before returns %s, a fresh kernel %s" % (desc, impl2, impl),
               dict(fk, clause="used-kernel"), branches=br)
        return
    ok, err = refmodel.close(impl, ref["I"], ref["mag"], rtol=rtol)
    nominal = refmodel.raw_point(k_ref, dict(base, scale=1.0, background=0.0))
    if nominal["w"] > 0:
        shell = nominal["shell"] if nominal["shell"] != 0 else 1.0
        I_nom = SCALE * nominal["F2"] / shell + BACKGROUND
    else:
        I_nom = np.full(len(impl), BACKGROUND)
    nt = bool(ref["nqual"] >= 2 and np.any(np.abs(ref["I"] - I_nom) > 1e-6 * np.abs(I_nom)))
    if not ok:
        clause = ("zero-point" if ref["nqual"] == 0 else "single-point" if single else "mean")
        r.fail("%s\n  impl=%s\n  ref =%s (mesh %d points, %d qualifying, %d cut, %d invalid)\n  nominal-point value=%s"
               % (desc, impl, ref["I"], ref["npoints"], ref["nqual"], ref["ncut"], ref["ninvalid"], I_nom),
               dict(fk, clause=clause), branches=br, trans=ref["npoints"], nt=nt)
        return
    # amplitude outputs (1-D): <F>, <F^2>, R_eff, V_shell, V_form/V_shell
    if qkind == "1d" and ref["nqual"] > 0:
        mode = 1 if info.radius_effective_modes else 0
        ref_m = refmodel.weighted_mean(k_ref, base, disp, cutoff, mode=mode) if mode else ref
        try:
            F1, F2, reff, vshell, vratio = call_Fq(k_impl, dict(pars, radius_effective_mode=mode), cutoff=cutoff)
        except Exception as exc:  # noqa
            r.fail("%s: call_Fq raised %r" % (desc, exc), dict(fk, clause="Fq-raises"), branches=br)
            return
        checks = [("F2", F2, ref_m["F2"]), ("vshell", vshell, ref_m["vshell"]), ("vratio", vratio, ref_m["vratio"])]
        if mode:
            checks.append(("reff", reff, ref_m["reff"]))
        if F1 is not None and ref_m["F1"] is not None:
            checks.append(("F1", F1, ref_m["F1"]))
        for nm, a, b in checks:
            mag = None
            if nm == "F1":
                mag = np.sqrt(np.abs(ref_m["F2"]))  # <F> can cancel; bound by sqrt<F^2>
            ok2, err2 = refmodel.close(a, b, mag, rtol=rtol)
            if not ok2:
                r.fail("%s: call_Fq %s impl=%s ref=%s" % (desc, nm, a, b), dict(fk, clause="Fq-" + nm),
                       branches=br, nt=nt)
                return
    r.ok(nt=nt, outcome="%s:q%d:c%d:i%d" % (qkind, min(ref["nqual"], 3), min(ref["ncut"], 1), min(ref["ninvalid"], 1)),
         trans=ref["npoints"] + 1, branches=br)
    if nt and not r.samples:
        r.sample({"call": desc, "impl": [float(v) for v in impl], "reference": [float(v) for v in ref["I"]],
                  "mesh_points": ref["npoints"], "qualifying": ref["nqual"]})


def _run_mean(case, ctx):
    r = R()
    cfg = case["cfg"]
    dtype = cfg.get("dtype", "double")
    m = build.model(case["model"], dtype)
    info = m.info
    base = _defaults(info, cfg.get("nominal", 1.0), cfg.get("q", "1d"))
    spec = {}
    fk = {"model": case["model"]}
    extra = []
    if cfg.get("neg"):
        base[cfg["neg"]] = -abs(base[cfg["neg"]])
        extra.append("negated-size-parameter")
    for key, alt in cfg.items():
        if not key.startswith("pd:") or alt is None:
            continue
        name = key[3:]
        par = par_by_name(info, name)
        if alt[0] == "onlim":
            lo, hi = par.limits
            v = base[name]
            if not (v > 0 and np.isfinite(v)):
                continue
            if np.isfinite(lo) and v > lo:
                w = (v - lo) / (2.0 * v)
            elif np.isfinite(hi) and v < hi:
                w = (hi - v) / (2.0 * v)
            else:
                continue
            spec[name] = ("gaussian", 5, w, 2.0)
            continue
        if alt[0].startswith("cut"):
            tr = _trunc(par, base[name], alt[0])
            if tr is None:
                continue
            t, n, w, v = tr
            base[name] = v
            spec[name] = (t, n, w, 3.0)
        else:
            t, n, w = alt
            spec[name] = (t, n, w, 3.0 if t not in ("lognormal", "schulz") else 3.0)
    if len(spec) > info.parameters.max_pd:
        return r.ok(outcome="skipped: more dispersed than loop slots")
    _compare(r, case, m, cfg.get("q", "1d"), base, spec, cfg.get("cutoff", 0.0), fk, dtype=dtype, extra_branches=extra)
    return r


def _run_mesh(case, ctx):
    r = R()
    m = build.model(case["model"])
    info = m.info
    names = disp_names(info, positive_only=True)[:len(case["lengths"])]
    if len(names) < len(case["lengths"]):
        return r.ok(outcome="skipped: not enough dispersible parameters with a positive default")
    base = _defaults(info, 1.0, case.get("q", "1d"))
    spec = {n: ("gaussian", L, 0.05, 2.0) for n, L in zip(names, case["lengths"])}
    _compare(r, case, m, case.get("q", "1d"), base, spec, 0.0,
             {"model": case["model"], "mesh": "x".join(map(str, case["lengths"]))},
             extra_branches=["mesh-family", "mesh-family-" + case.get("q", "1d")])
    return r


def _run_toomany(case, ctx):
    from sasmodels.direct_model import call_kernel
    r = R()
    m = build.model(case["model"])
    info = m.info
    names = disp_names(info)
    allnames = [p.name for p in info.parameters.call_parameters if p.name in info.parameters.pd_1d]
    use = (names + [n for n in allnames if n not in names])[:case["n"]]
    base = _defaults(info)
    pars = dict(base)
    for n in use:
        pars[n + "_pd"], pars[n + "_pd_n"], pars[n + "_pd_type"] = 0.05, 2, "gaussian"
    kernel = m.make_kernel(_q("1d"))
    fk = {"model": case["model"], "clause": "toomany"}
    max_pd = info.parameters.max_pd
    try:
        impl = call_kernel(kernel, pars, cutoff=0.0)
    except ValueError as exc:
        if case["n"] > max_pd:
            return r.ok(nt=True, outcome="refused", branches=["refusal"])
        return r.fail("%s: %d dispersed parameters (<= max_pd=%d) refused: %r" % (case["model"], case["n"], max_pd, exc), fk)
    except Exception as exc:  # noqa
        return r.fail("%s: %d dispersed parameters raised %r" % (case["model"], case["n"], exc), fk)
    if case["n"] > max_pd:
        return r.fail("%s: %d simultaneously dispersed parameters accepted although the model supports %d; result %s"
                      % (case["model"], case["n"], max_pd, impl), fk)
    spec = {n: ("gaussian", 2, 0.05, 3.0) for n in use}
    _compare(r, case, m, "1d", base, spec, 0.0, {"model": case["model"]}, extra_branches=["max-pd-accepted"])
    return r


# ------------------------------------------------------------------------------------------------
# Part B: partitions on the raw kernel

PROBE = '''
r"""verif probe: Iq = 2^(sum_i p_i * m_i); with unit weights the mesh sum decodes the visited set"""
from numpy import inf
name = "verif_probe"
title = "verif probe"
description = "visited-set decoding probe"
category = "shape-independent"
parameters = [
    ["p0", "", 0, [-inf, inf], "volume", ""],
    ["p1", "", 0, [-inf, inf], "volume", ""],
    ["p2", "", 0, [-inf, inf], "volume", ""],
    ["p3", "", 0, [-inf, inf], "volume", ""],
    ["p4", "", 0, [-inf, inf], "volume", ""],
    ["m0", "", 1, [-inf, inf], "", ""],
    ["m1", "", 1, [-inf, inf], "", ""],
    ["m2", "", 1, [-inf, inf], "", ""],
    ["m3", "", 1, [-inf, inf], "", ""],
    ["m4", "", 1, [-inf, inf], "", ""],
]
source = []
form_volume = """
    return 1.0;
"""
Iq = """
    return exp2(p0*m0 + p1*m1 + p2*m2 + p3*m3 + p4*m4);
"""
'''


def write_probe(scratch):
    path = os.path.join(scratch, "verif_probe.py")
    with open(path, "w") as fh:
        fh.write(textwrap.dedent(PROBE))
    return path


def _raw_invoke(kernel, call_details, values, magnetic, cutoff, schedule):
    """drive the compiled kernel symbol with an explicit list of (pd_start, pd_stop) invocations"""
    fn = kernel.kernel[1 if magnetic else 0]
    args = [kernel.q_input.nq, None, None, call_details.buffer.ctypes.data, values.ctypes.data,
            kernel.q_input.q.ctypes.data, kernel.result.ctypes.data, kernel._as_dtype(cutoff), 0]
    for start, stop in schedule:
        args[1:3] = [start, stop]
        fn(*args)
    return kernel.result.copy()


def _compositions(n):
    """all 2^(n-1) ways to cut [0,n) into consecutive non-empty pieces"""
    for mask in range(1 << (n - 1)):
        cuts = [0] + [i + 1 for i in range(n - 1) if mask >> i & 1] + [n]
        yield [(a, b) for a, b in zip(cuts[:-1], cuts[1:])]


def _cut_schedules(n):
    yield [(0, n)]
    yield [(a, min(a + 100, n)) for a in range(0, n, 100)]          # production schedule
    for a in range(1, n):
        yield [(0, a), (a, n)]
    step = max(1, n // 24)
    pts = sorted(set(list(range(1, n, step)) + [99, 100, 101, n - 1]) & set(range(1, n)))
    for a, b in itertools.combinations(pts, 2):
        yield [(0, a), (a, b), (b, n)]


def _run_split(case, ctx):
    from sasmodels.details import make_kernel_args
    from sasmodels import core
    r = R()
    probe = case["model"] == "@probe"          # unit weights: exact visited-set decoding
    probew = case["model"] == "@probew"        # non-unit weights: rounding-sensitive sums, bit-identity only
    lengths = case["lengths"]
    N = int(np.prod(lengths))
    fk = {"model": case["model"], "clause": "split"}
    if probe or probew:
        m = build.model(ctx.notes["probe"])
        info = m.info
        kernel = m.make_kernel([np.array([0.1, 0.2])])
        names = ["p0", "p1", "p2", "p3", "p4"][:len(lengths)]
        mult = np.cumprod([1] + list(lengths))[:-1]
        mesh = []
        for p in info.parameters.call_parameters:
            if p.name in names:
                L = lengths[names.index(p.name)]
                wts = np.ones(L) if probe else 1.0 / (1.0 + np.arange(L, dtype=float)) ** 1.5
                mesh.append((0.0, np.arange(L, dtype=float), wts))
            elif p.name.startswith("m") and p.name[1:].isdigit() and int(p.name[1:]) < len(lengths):
                v = float(mult[int(p.name[1:])])
                mesh.append((v, [v], [1.0]))
            elif p.name == "scale":
                mesh.append((1.0, [1.0], [1.0]))
            elif p.name == "background":
                mesh.append((0.0, [0.0], [1.0]))
            else:
                d = p.default if p.name.startswith("m") else 0.0
                mesh.append((d, [d], [1.0]))
    else:
        from sasmodels.direct_model import get_mesh
        m = build.model(case["model"])
        info = m.info
        kernel = m.make_kernel([np.array([0.07])])
        names = disp_names(info, positive_only=True)[:len(lengths)]
        if len(names) < len(lengths):
            return r.ok(outcome="skipped: not enough dispersible parameters with a positive default")
        pars = _defaults(info)
        for n, L in zip(names, lengths):
            pars[n + "_pd"], pars[n + "_pd_n"], pars[n + "_pd_type"], pars[n + "_pd_nsigma"] = 0.1, L, "gaussian", 2.0
        mesh = get_mesh(info, pars, dim="1d")
    call_details, values, magnetic = make_kernel_args(kernel, mesh)
    if call_details.num_eval != N:
        return r.fail("%s lengths %s: num_eval=%d, expected %d" % (case["model"], lengths, call_details.num_eval, N), fk)
    scheds = _compositions(N) if case["mode"] == "all" else _cut_schedules(N)
    nq = kernel.q_input.nq
    first = None
    count = 0
    outcomes = set()
    for sched in scheds:
        kernel.result[:] = np.nan      # stale content must never leak into the answer
        res = _raw_invoke(kernel, call_details, values, magnetic, 0.0, sched)
        count += 1
        key = res.tobytes()
        outcomes.add(key)
        if first is None:
            first = (sched, res)
            if probe:
                want = float(2 ** N - 1)
                if res[0] != want or res[1] != want or res[nq] != float(N):
                    return r.fail("probe lengths %s single invocation: sum 2^index = %r (expected %r), total weight %r "
                                  "(expected %d): some mesh point is not visited exactly once"
                                  % (lengths, res[0], want, res[nq], N), dict(fk, clause="visit"))
        elif key != first[1].tobytes():
            detail = ("%s lengths %s: result depends on how the mesh is split\n  schedule %s -> %s\n  schedule %s -> %s"
                      % (case["model"], lengths, first[0], first[1], sched, res))
            if probe:
                detail += "\n  visited-set decode: %s vs %s of %d points" % (bin(int(res[0])), bin(int(first[1][0])), N)
            return r.fail(detail, fk, trans=len(sched))
    r.ok(nt=count, outcome="N%d:%s" % (N, case["mode"]), trans=count * 2, n=count,
         branches=["partitions"] + (["probe-decoded"] if probe else []))
    r.extra["partition_schedules"] += count
    if not r.samples:
        r.sample({"model": case["model"], "lengths": lengths, "schedules": count, "example": first[0]})
    return r


def finish(ctx, report):
    report.require("chunk-boundary-crossed", 5, "mesh beyond the 100-point chunk")
    report.require("cutoff-excluded", 20, "cutoff excluded >=1 mesh point")
    report.require("valid-excluded", 5, "model validity excluded >=1 mesh point")
    report.require("single-point-not-nominal", 10, "distribution truncated to one point != nominal")
    report.require("zero-point", 10, "mesh with no qualifying point")
    report.require("refusal", 1, "more dispersed parameters than loop slots")
    report.require("negated-size-parameter", 50, "a non-dispersed size parameter outside its limits")
    report.require("point-on-a-hard-limit", 20, "a distribution point exactly on a finite hard limit")
    report.require("single-precision", 200, "single-precision builds of the dispersity loop")
    report.require("probe-decoded", 5, "visited-set probe")
    report.require("partitions", 20, "partition enumeration")

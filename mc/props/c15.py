"""
C15 - precision conversion changes only floating types and literals; dtype spellings select the stated type;
float32 / long-double kernels build and agree with double.

Spaces (all enumerated completely, nothing sampled)

 (i)   generated 'dll' source of every compiled builtin model x {float32, float64, long double}: token oracle, and
       the three libraries are built (one process per (model, dtype) in setup) and evaluated at 3 q points;
 (ii)  ALL sequences of length <= L over a 27-fragment alphabet joined by every separator of S that keeps adjacent
       fragments distinct (block cases: one case = one prefix, inner loops over the rest); a fixed list of snippets
       quoted in the property text; preprocessor-directive lines (#include "..", #include <..>, #line, #define, #if)
       with every fragment as payload;
 (iii) dtype request spellings x forced-library suffix x platform x model flags through core.parse_dtype, and the same
       spellings end-to-end through load_model.

Token oracle (mc.clex shares nothing with generate.py): comments are dropped on both sides; the output must start with
"#define FLOAT_SIZE <bytes>"; then, token by token: a type keyword double / double{2,4,8,16} / cdouble becomes
float.. / long double..; an unsuffixed decimal floating literal gains exactly f / L; an unsuffixed hexadecimal
floating literal is unchanged or correctly suffixed (known limitation, counted, not judged); an integer that is the
complete first argument of a listed math function may be promoted ("2" -> "2." + suffix); EVERY other token -
identifiers, suffixed literals, integers, other pp-numbers, string literals, header names, punctuators - is
byte-identical.
"""
import itertools
import re

import numpy as np

from .. import build, clex
from ..engine import R, HarnessError

ID = "C15"
TITLE = "Precision conversion changes only floating types and literals"
LEVEL = "model_checking"
ENGINE = "E1"
TECHNIQUE = ("exhaustive enumeration of all token sequences up to length L over a per-branch fragment alphabet (and of all "
             "builtin model sources, directive lines and dtype spellings), judged token-by-token with an independent C lexer")
RULE = ("every fragment sequence of length <= L with every separator assignment whose re-lexed text equals the intended "
        "token sequence; a string is non-trivial when it contains >= 1 token that must be converted and >= 1 that must not change")
ASSUMPTIONS = [
    "mc.clex implements C11 translation phases 2-3 (line splicing, preprocessing tokens); a text it cannot tokenise, or "
    "whose fragments merge into other tokens, is not a well-formed input and is skipped (counted)",
    "type keywords of the dialect: double, double2, double4, double8, double16 (documented vector widths) and cdouble",
    "cdouble under long double ('clong double') and hexadecimal floating literals are counted but not judged",
    "integer promotion is allowed (not required) exactly at: listed math function, '(', optional sign, decimal integer, then ',' or ')'",
    "numeric agreement bounds are 10x the worst case measured on the unchanged tree; no OpenCL/CUDA in the image: platform always resolves to 'dll'",
]
FRAGMENTS = ["double", "double4", "double16", "cdouble", "doubled", "mydouble",
             "1.0", "1.", "0.5", ".5", "1e3", "1.5e-3", "3.f", "1.0L", "x1e3", "a.b", "s.e3", "0x1.8p3",
             "37", "0", "03.05.67", "sin", "pow", "mysin", '"1.0 double"', "/* 1.0 double */", "// 2.5",
             '"a \\"double\\" 0.5"',        # a string literal containing escaped quotes
             # non-code regions that SPAN LINES: a block comment over three lines, a string literal continued with
             # backslash-newline, a // comment continued onto the next line by a backslash-newline
             "/* a double\n 1.0 sqrt(2)\n double */",
             '"1.0 \\\ndouble sqrt(2)"',
             "// 2.5 double \\\n1.0 double sqrt(2)"]
SPANNING = FRAGMENTS[-3:]
SEPS_ALL = ["", " ", ",", "(", ")", "*", "\n", ";", "-", "+"]
SEPS_3 = [" ", ",", "("]
SEPS_2 = [" ", ","]
BOUNDS = {
    "quick": {"fragments": FRAGMENTS, "length<=2": SEPS_ALL, "length 3": SEPS_3, "models": "all compiled x {f32,f64,f128}",
              "numeric": "float32 (single=True models) and long double (all) vs double at q=0.011,0.07,0.31, defaults"},
    "thorough": {"fragments": FRAGMENTS, "length<=3": SEPS_ALL, "length 4": SEPS_2, "models": "all compiled x {f32,f64,f128}",
                 "numeric": "float32 (single=True models) and long double (all) vs double at q=0.011,0.07,0.31, defaults"},
}
CASE_TIMEOUT = 900

# "built kernel vs its own single-point evaluations" with dispersity and a cutoff menu (every built precision)
CUTOFF_MODELS_QUICK = ["sphere", "core_shell_sphere", "cylinder", "ellipsoid", "hollow_cylinder"]
CUTOFFS = [0.0, 1e-5, 1e-2, "gap"]      # "gap": inside the widest gap between the sorted mesh weights near the median
PD_ONE = {"n": 40, "width": 0.2, "nsigma": 4.0}
PD_TWO = {"n": 10, "width": 0.2, "nsigma": 3.0}
# the floating-literal alphabet, generated from the C grammar (C11 6.4.4.2) instead of a hand list
LIT_DIGITS = ["", "0", "05", "5", "50", "123"]         # each digit sequence: empty / zero / leading zero / plain ...
LIT_EXP_CHARS = ["e", "E"]
LIT_EXP_SIGNS = ["", "+", "-"]
LIT_EXP_DIGITS = ["0", "3", "03", "10"]
LIT_SUFFIXES = ["", "f", "F", "l", "L"]                 # suffixed forms already have a precision: must be left alone
LIT_PRE = ["", " ", ",", "(", ")", "*", "\n", ";", "-", "+", "=", "x ", "1.0 ", "double ", "x=", "a["]
LIT_POST = ["", " ", ",", ")", "(", "*", "\n", ";", "-", "+", "]", " x", " 1.0", "/2"]
LIT_PRE_Q = ["", " ", "(", "-", "=", ","]
LIT_POST_Q = ["", ")", ";", "+", ","]
LIT_PRE_SUFFIXED_Q = ["", "("]
LIT_POST_SUFFIXED_Q = ["", ")"]
COMPOSITES = ["sphere@hardsphere", "cylinder@squarewell", "sphere+cylinder", "sphere*cylinder",
              "sphere@hardsphere+cylinder", "sphere+cylinder*lamellar", "sphere+sphere+sphere"]
# exact zeros: |q| = 0 and an ordinary q; 2-D points on the axes and at the origin.  (Tiny non-zero q is left out on
# purpose: q = 1e-40 is subnormal in float32, q^2 underflows and lamellar's 1/q^2 = 8e79 is not a float32 number -
# that is the range of the type, not a property of the conversion.)
ZERO_Q1 = [0.0, 0.011]
ZERO_Q2 = [[0.0, 0.0], [0.05, 0.0], [0.0, 0.05], [0.03, 0.04]]
ZERO_ANGLES = [None, 0.0, 90.0]         # None = the model's defaults; else every orientation angle at this value
U = {"float32": 2.0 ** -24, "float64": 2.0 ** -53, "longdouble": 2.0 ** -53}   # the reference itself sums in double

KEYWORDS = {"double": "", "double2": "2", "double4": "4", "double8": "8", "double16": "16"}
MATH = set("sin cos tan asin acos atan sinh cosh tanh asinh acosh atanh atan2 exp exp2 exp10 expm1 log log2 log10 log1p "
           "pow pown powr sqrt rsqrt rootn erf erfc tgamma fabs fmax fmin".split())
DTYPES = [("float32", "float", "f", 4), ("float64", "double", "", 8), ("longdouble", "long double", "L", 16)]
Q = [0.011, 0.07, 0.31]
# measured on the unchanged tree (61 models, defaults, q = 0.011, 0.07, 0.31, relative to max|I|):
# worst float32 deviation 8.4e-7 (single=True models), worst long double 5.5e-14;  bounds = 10x, rounded up
TOL32, TOL128 = 1e-5, 1e-12
SEP_NAME = {",": "after-comma", " ": "after-space", "(": "after-open-paren", ")": "after-close-paren", "*": "after-star",
            "\n": "after-newline", ";": "after-semicolon", "-": "after-minus", "+": "after-plus", "\t": "after-tab",
            "/": "after-comment", '"': "after-string", "": "at-start"}

_CONTINUED_LINE_COMMENT = re.compile(r"//[^\n]*\\\n")


def _ident_then_constant(toks):
    """identifier immediately followed (no white space) by a pp-number: only possible for '.digit...'"""
    for a, b in zip(toks, toks[1:]):
        if a.kind == "ident" and b.kind == "ppnum" and b.pos == a.pos + len(a.text):
            return True
    return False


SNIPPETS = [
    "void f(double,double);",
    "void f(double, double);",
    "double g(double*,double*);",
    "double (*fp)(double,double) = 0;",
    "x = (double)1;",
    "x = (double)(double)y + (double)1.0;",
    "y = struct3.e3 + a3.e2 - 0.;",
    "z = 3.75+-1.6e-7-27+13.2;",
    "w = 4*atan(1) + 4.*atan(1.) + pow(2,3) + pow(x,2) + sin( -2 ) + exp2(10) + log1p(0);",
    "/* version 1.0.8 double */ int v = 3; // 1.0 double\nint w = 4;",
    "double doubled = mydouble(double_x1, xdouble, 1.5);",
    "double4 v4; double16 v16; double2 v2; double8 v8; cdouble z;",
    "const double two_pi = 6.283185307179586, eps = 1e-16, half = .5, big = 1E+30, t = 1.e0;",
    'printf("x=1.0 double\\n");',
    'printf("%g %s\\n", 1.0, "double");',
    "char c = 'd'; double x = '1' + 1.0;",
    "#define SAS_DOUBLE dou ## ble\nSAS_DOUBLE x = 1.0;",
    "#line 3 \"my double.c\"\ndouble x;",
    "#include \"double.h\"\ndouble x;",
    "#include <double.h>\ndouble x;",
    "#include <math.h>\n#define M_PI_180 0.017453292519943295\n#if FLOAT_SIZE>4\ndouble x=1e-30;\n#endif",
    "#define square(x) ((x)*(x))\n#define HALF 0.5\ndouble f(double x) { return HALF*square(x); }",
    "double x = 1.0\\\n  + 2.0;",
    "for (int i=0; i<10; i++) { total += 0.5*w[i]*f(0.5*(z[i]+1.0)); }",
    "x = a.b + p->c + s.e3 + 1.f + 2.0F + 3.L + 0x1.8p3 + 0x10 + 017 + 10u + 1ul;",
    "double f(double x,double y);double g(double x){return x;}",
    "/* Version 1.0.8 of the helper.\n * Takes a double and returns 2.5 times its value (see eq. 3.1e-2), it's sqrt(2).\n */\n"
    "double helper(double x) { return 2.5*x; } /* one-line: double 1.5 */",
    'const char *msg = "a double is 8.0 bytes \\\nand stays a double with 1.0 here"; double y = 1.0;',
    "char c = '\\\n1'; double z = .5; // trailing double 1.0 \\\n still comment double 2.0\ndouble w = 2.0;",
    "#define TWO 2.0 /* a comment inside a directive\n   over two lines: double 1.0 */ + 1.0\ndouble t = TWO;",
]
DIRECTIVES = ['#include "%s"', "#include <%s>", '#line 3 "%s"', '# include "%s"', "#define X %s", "#define X(a) (a)+%s",
              "#if %s", "  #define Y %s"]
PAYLOAD_FILES = ["double.h", "my double.c", "1.0", "x 1.0.h", "sin(2).h", "cdouble4", "lib/double 1.5e-3.c"]

DTYPE_SPELLINGS = [None, "default", "single", "double", "quad", "half", "fast", "float32", "f", "d", "longdouble",
                   "float64", "float16"]
EXPECT_DTYPE = {"single": "float32", "double": "float64", "quad": "longdouble", "half": "float16", "fast": "float32",
                "float32": "float32", "f": "float32", "d": "float64", "longdouble": "longdouble",
                "float64": "float64", "float16": "float16", None: "float64", "default": "float64"}
PLATFORMS = [None, "ocl", "dll", "cuda"]


# ------------------------------------------------------------------------------------------------
def _frag_tokens():
    return {f: [t.text for t in clex.lex(f)] for f in FRAGMENTS}


def setup(ctx):
    names = build.compiled_models()
    fails = {}
    for dt in ("double", "float32", "longdouble"):
        bad = build.prebuild(ctx, names, dtype=dt)
        for n, res in bad.items():
            fails["%s:%s" % (n, dt)] = str(res[1])[-600:]
    ctx.notes["build_failures"] = fails


def cases(ctx):
    out = []
    for m in build.compiled_models():
        out.append({"kind": "model", "model": m})
    out.append({"kind": "snippets"})
    for d in range(len(DIRECTIVES)):
        out.append({"kind": "directive", "template": d})
    # token sequences: one case = one prefix
    out.append({"kind": "seq", "len": 1, "prefix": [], "seps": "all"})
    for f in FRAGMENTS:
        out.append({"kind": "seq", "len": 2, "prefix": [f], "seps": "all"})
    if ctx.quick:
        for f in FRAGMENTS:
            out.append({"kind": "seq", "len": 3, "prefix": [f], "seps": "three"})
    else:
        for f in FRAGMENTS:
            for s in SEPS_ALL:
                out.append({"kind": "seq", "len": 3, "prefix": [f], "sep0": s, "seps": "all"})
        for f in FRAGMENTS:
            for g in FRAGMENTS:
                out.append({"kind": "seq", "len": 4, "prefix": [f, g], "seps": "two"})
    for m in (CUTOFF_MODELS_QUICK if ctx.quick else _cutoff_models()):
        npd = len(_pd_names(build.info(m)))
        out.append({"kind": "cutoff", "model": m, "pd": "one"})
        if npd >= 2:
            out.append({"kind": "cutoff", "model": m, "pd": "two"})
    for mant in literal_mantissas():
        out.append({"kind": "literal", "mant": mant})
    for m in build.compiled_models():
        out.append({"kind": "zeros", "model": m})
    for expr in COMPOSITES:
        out.append({"kind": "composite", "model": expr})
    flagged = _flag_models()
    for key, m in sorted(flagged.items()):
        out.append({"kind": "dtype", "model": m, "flags": key})
    out.append({"kind": "e2e", "model": "sphere"})
    out.append({"kind": "e2e", "model": flagged.get("single=False,opencl=True", "sphere")})
    return out


def _pd_names(info):
    return [p.name for p in info.parameters.call_parameters
            if p.name in info.parameters.pd_1d and not p.name[-1].isdigit()]


def _cutoff_models():
    """every model declared safe for single precision that has a dispersible parameter"""
    return [m for m in build.compiled_models() if build.info(m).single and _pd_names(build.info(m))]


def _flag_models():
    """one builtin model per (single, opencl) flag combination that exists"""
    found = {}
    for m in build.compiled_models():
        info = build.info(m)
        key = "single=%s,opencl=%s" % (bool(info.single), bool(info.opencl))
        found.setdefault(key, m)
    return found


# ------------------------------------------------------------------------------------------------
# the token oracle

class Verdict(object):
    __slots__ = ("ok", "clause", "context", "msg", "convertible", "fixed", "notes")

    def __init__(self):
        self.ok, self.clause, self.context, self.msg = True, None, None, ""
        self.convertible = self.fixed = 0
        self.notes = []


def _promotable(toks, i):
    """is the integer token i the complete first argument of a listed math function?"""
    if i + 1 >= len(toks) or toks[i + 1].text not in (",", ")"):
        return False
    j = i - 1
    if j >= 0 and toks[j].text in ("+", "-"):
        j -= 1
    if j < 1 or toks[j].text != "(":
        return False
    return toks[j - 1].kind == "ident" and toks[j - 1].text in MATH


def expected(toks, type_name, suffix):
    """per input token: list of acceptable output token-text lists (first = preferred) + class"""
    out = []
    for i, t in enumerate(toks):
        if t.kind == "ident" and t.text in KEYWORDS:
            n = KEYWORDS[t.text]
            out.append(("keyword", [(type_name + n).split()]))
        elif t.kind == "ident" and t.text == "cdouble":
            if type_name == "long double":
                out.append(("cdouble-long", [["clong", "double"], ["cdouble"]]))
            else:
                out.append(("keyword", [["c" + type_name]]))
        elif t.kind == "ppnum" and clex.is_decimal_float(t.text):
            out.append(("literal", [[t.text + suffix]]))
        elif t.kind == "ppnum" and clex.is_hex_float(t.text):
            out.append(("hexfloat", [[t.text], [t.text + suffix]]))
        elif t.kind == "ppnum" and clex.is_decimal_int(t.text) and _promotable(toks, i):
            out.append(("promotable", [[t.text + "." + suffix], [t.text]]))
        else:
            out.append(("fixed", [[t.text]]))
    return out


def judge(src, toks, dtype_name, type_name, suffix, nbytes, convert):
    """compare convert_type(src, dtype) with the expectation; returns Verdict"""
    import numpy
    v = Verdict()
    try:
        res = convert(src, numpy.dtype(dtype_name))
    except Exception as exc:  # noqa
        v.ok, v.clause, v.context, v.msg = False, "raises", type(exc).__name__, "convert_type raised %r" % (exc,)
        return v
    head = "#define FLOAT_SIZE %d\n" % nbytes
    if not res.startswith(head):
        v.ok, v.clause, v.context = False, "float-size", dtype_name
        v.msg = "output does not start with %r: %r" % (head, res[:40])
        return v
    body = res[len(head):]
    try:
        outs = clex.lex(body)
    except clex.LexError as exc:
        v.ok, v.clause, v.context, v.msg = False, "output-not-lexable", dtype_name, "output cannot be tokenised: %s" % exc
        return v
    exp = expected(toks, type_name, suffix)
    k = 0
    for i, (cls, alts) in enumerate(exp):
        hit = None
        for alt in alts:
            if [o.text for o in outs[k:k + len(alt)]] == alt:
                hit = alt
                break
        if cls in ("keyword", "literal"):
            v.convertible += 1
        elif cls == "fixed":
            v.fixed += 1
        if hit is None:
            t = toks[i]
            got = outs[k].text if k < len(outs) else "<end of output>"
            v.ok = False
            prev = _prev_char(src, toks, i)
            if cls == "keyword":
                v.clause, v.context = "type-keyword", SEP_NAME.get(prev, "after-%r" % prev)
                if t.text == "cdouble" and prev == "":
                    v.context = "cdouble-at-start"
            elif cls == "cdouble-long":
                v.clause, v.context = "type-keyword", "cdouble-long-double"
            elif cls == "literal":
                v.clause, v.context = "float-literal", ("unconverted" if got == t.text else "mangled")
            elif cls == "hexfloat":
                v.clause, v.context = "hexfloat-corrupted", None
            elif cls == "promotable":
                v.clause, v.context = "promotion-mangled", None
            elif t.kind == "string":
                v.clause, v.context = "string-literal-rewritten", ("#" + t.directive if t.directive else "code")
            elif t.kind == "header":
                v.clause, v.context = "header-name-rewritten", None
            elif t.kind == "ppnum" and clex.is_decimal_int(t.text) and got.startswith(t.text + "."):
                v.clause, v.context = "integer-promoted", "not-a-listed-first-argument"
            else:
                v.clause, v.context = "token-changed", t.kind
            v.msg = "token #%d %r (%s) expected %s, got %r" % (i, t.text, cls, " or ".join(" ".join(a) for a in alts), got)
            return v
        if cls == "hexfloat" and hit == alts[0] and suffix:
            v.notes.append("hexfloat-left-double")
        if cls == "promotable":
            v.notes.append("promoted" if hit == alts[0] else "promotable-unpromoted")
        if cls == "cdouble-long":
            v.notes.append("cdouble-long-unjudged")
        k += len(hit)
    if k != len(outs):
        v.ok, v.clause, v.context = False, "extra-tokens", None
        v.msg = "output has %d extra token(s): %r" % (len(outs) - k, [o.text for o in outs[k:k + 5]])
    return v


def _prev_char(src, toks, i):
    """the character just before input token i in the (spliced) source, '' at the start"""
    text = src.replace("\\\n", "")
    at = toks[i].pos
    return text[at - 1] if at > 0 else ""


class Block(object):
    """accumulates the verdicts of many strings into one R without storing every failure"""

    def __init__(self, r):
        self.r = r
        self.first = {}
        self.n = self.nt = 0
        self.outcomes = set()

    def run(self, src, label=None, extra=None):
        from sasmodels import generate
        r = self.r
        try:
            toks = clex.lex(src)
        except clex.LexError:
            r.extra["skipped-not-lexable"] += 1
            return None
        allok = True
        conv = fixed = 0
        for dtype_name, type_name, suffix, nbytes in DTYPES:
            v = judge(src, toks, dtype_name, type_name, suffix, nbytes, generate.convert_type)
            conv, fixed = max(conv, v.convertible), max(fixed, v.fixed)
            for note in v.notes:
                r.branches[note] += 1
            if not v.ok:
                allok = False
                fk = {"clause": v.clause}
                if v.context is not None:
                    fk["context"] = v.context
                if _CONTINUED_LINE_COMMENT.search(src):
                    # C splices lines before it removes comments: the next physical line belongs to the // comment
                    fk["noncode"] = "continued-line-comment"
                if extra:
                    fk.update(extra)
                key = tuple(sorted(fk.items()))
                r.extra["violating-strings:" + v.clause] += 1
                if key not in self.first:
                    self.first[key] = True
                    head = "#define FLOAT_SIZE %d\n" % nbytes
                    try:
                        got = generate.convert_type(src, np.dtype(dtype_name))
                    except Exception as exc:  # noqa
                        got = repr(exc)
                    if isinstance(got, str) and got.startswith(head):
                        got = got[len(head):]
                    shown = src if len(src) < 300 else (label or src[:300] + "...")
                    r.fail("generate.convert_type(%r, np.dtype(%r)) -> %r\n  %s" % (shown, dtype_name, got[:300], v.msg),
                           fk, sub=label, count_eval=False)
        nt = conv > 0 and fixed > 0
        self.n += 1
        self.nt += 1 if nt else 0
        if conv:
            r.branches["has-convertible"] += 1
        self.outcomes.add("ok" if allok else "FAIL")
        return allok

    def close(self, outcome):
        self.r.ok(nt=self.nt, outcome=outcome, trans=3 * self.n, n=self.n)
        for o in self.outcomes:
            self.r.outcomes.add(o)


# ------------------------------------------------------------------------------------------------
def run_case(case, ctx):
    kind = case["kind"]
    if kind == "seq":
        return _run_seq(case, ctx)
    if kind == "model":
        return _run_model(case, ctx)
    if kind == "snippets":
        return _run_snippets(case, ctx)
    if kind == "directive":
        return _run_directive(case, ctx)
    if kind == "dtype":
        return _run_dtype(case, ctx)
    if kind == "e2e":
        return _run_e2e(case, ctx)
    if kind == "cutoff":
        return _run_cutoff(case, ctx)
    if kind == "zeros":
        return _run_zeros(case, ctx)
    if kind == "literal":
        return _run_literal(case, ctx)
    if kind == "composite":
        return _run_composite(case, ctx)
    raise HarnessError("unknown case kind %r" % kind)


def _run_seq(case, ctx):
    r = R()
    blk = Block(r)
    ftoks = _frag_tokens()
    L = case["len"]
    prefix = case["prefix"]
    seps = {"all": SEPS_ALL, "three": SEPS_3, "two": SEPS_2}[case["seps"]]
    rest = L - len(prefix)
    nseps = L - 1
    for tail in itertools.product(FRAGMENTS, repeat=rest):
        frags = list(prefix) + list(tail)
        intended = [x for f in frags for x in ftoks[f]]
        sep_choices = [seps] * nseps
        if "sep0" in case and nseps:
            sep_choices[0] = [case["sep0"]]
        for ss in itertools.product(*sep_choices):
            src = frags[0]
            for s, f in zip(ss, frags[1:]):
                src += s + f
            # the separators themselves are punctuators (except blank ones): intended = fragments interleaved
            want = list(ftoks[frags[0]])
            for s, f in zip(ss, frags[1:]):
                if s.strip():
                    want.append(s)
                want.extend(ftoks[f])
            try:
                htoks = clex.lex(src)
                have = [t.text for t in htoks]
            except clex.LexError:
                r.extra["skipped-not-lexable"] += 1
                continue
            if have != want:
                r.extra["skipped-fragments-merge"] += 1
                continue
            if _ident_then_constant(htoks):
                # identifier immediately followed by ".digit": lexically two tokens, but no C grammar rule accepts
                # an identifier followed by a constant (member names cannot start with a digit): not well-formed
                r.extra["skipped-identifier-then-constant"] += 1
                continue
            if any(f in SPANNING for f in frags):
                r.branches["noncode-spans-lines"] += 1
            blk.run(src)
    blk.close("seq%d" % L)
    if not r.samples and blk.n:
        r.sample({"prefix": prefix, "length": L, "strings": blk.n, "nontrivial": blk.nt})
    return r


def _run_snippets(case, ctx):
    r = R()
    blk = Block(r)
    for s in SNIPPETS:
        if blk.run(s) is None:
            raise HarnessError("snippet not lexable: %r" % s)
    blk.close("snippets")
    r.branches["snippets"] += blk.n
    return r


def _run_directive(case, ctx):
    r = R()
    blk = Block(r)
    tpl = DIRECTIVES[case["template"]]
    is_file = "include" in tpl or "line" in tpl
    payloads = PAYLOAD_FILES if is_file else (FRAGMENTS + ["%s %s" % (a, b) for a in FRAGMENTS for b in FRAGMENTS]
                                              + ["%s,%s" % (a, b) for a in FRAGMENTS for b in FRAGMENTS])
    for p in payloads:
        line = tpl % p
        for before in ("", "double x = 1.0;\n", "// 1.0 double\n"):
            for after in ("", "\ndouble y = .5;"):
                blk.run(before + line + after)
    blk.close("directive")
    r.branches["directive-lines"] += blk.n
    return r


def _run_model(case, ctx):
    from sasmodels import generate
    from sasmodels.direct_model import call_kernel
    r = R()
    name = case["model"]
    info = build.info(name)
    fk = {"model": name}
    src = generate.make_source(info)["dll"]
    blk = Block(r)
    okk = blk.run(src, label="make_source(%s)['dll']" % name)
    if okk is None:
        raise HarnessError("generated source of %s is not lexable by mc.clex" % name)
    # failures found in a model source carry the model name
    for f in r.fails:
        f["fkey"]["model"] = name
    blk.close("model-source")
    r.branches["model-sources"] += 1
    toks = clex.lex(src)
    _representable(r, name, toks)
    r.extra["model-type-keywords"] += sum(1 for t in toks if t.kind == "ident" and (t.text in KEYWORDS or t.text == "cdouble"))
    r.extra["model-float-literals"] += sum(1 for t in toks if t.kind == "ppnum" and clex.is_decimal_float(t.text))
    r.extra["model-tokens"] += len(toks)
    # builds
    fails = ctx.notes.get("build_failures", {})
    for dt in ("double", "float32", "longdouble"):
        if "%s:%s" % (name, dt) in fails:
            r.fail("load_model(%r, dtype=%r, platform='dll') does not build: %s" % (name, dt, fails["%s:%s" % (name, dt)]),
                   dict(fk, clause="build", dtype=dt))
    if any(k.startswith(name + ":") for k in fails):
        return r
    # numeric agreement
    q = np.array(Q)
    pars = {}
    vals = {}
    for dt in ("double", "float32", "longdouble"):
        m = build.model(name, dt)
        want = np.dtype(dt)
        if m.dtype != want:
            r.fail("load_model(%r, dtype=%r).dtype = %s" % (name, dt, m.dtype), dict(fk, clause="model-dtype", dtype=dt))
            continue
        k = m.make_kernel([q])
        with np.errstate(all="ignore"):
            res = call_kernel(k, dict(pars))
        if k.result.dtype != want:
            r.fail("load_model(%r, dtype=%r): kernel result buffer has dtype %s" % (name, dt, k.result.dtype),
                   dict(fk, clause="result-dtype", dtype=dt))
        vals[dt] = np.array(res, dtype=float)
    if len(vals) == 3:
        ref = vals["double"]
        scale = np.max(np.abs(ref))
        for dt, tol, judged in (("float32", TOL32, bool(info.single)), ("longdouble", TOL128, True)):
            with np.errstate(all="ignore"):
                err = float(np.max(np.abs(vals[dt] - ref)) / scale)
            if not judged:
                r.ok(outcome="f32-not-declared-safe", branches=["single=False:not-judged"])
                continue
            if not (err <= tol):
                r.fail("%s defaults q=%s: %s kernel gives %s, double kernel gives %s (max deviation %.3g of max|I|, bound %g)"
                       % (name, Q, dt, vals[dt], ref, err, tol), dict(fk, clause="numeric", dtype=dt))
            else:
                r.ok(nt=True, outcome="agree:" + dt, branches=["numeric-" + dt], trans=2)
    return r


def _run_dtype(case, ctx):
    """core.parse_dtype over spellings x '!' x platform for one model (its single/opencl flags are the 4th dimension)"""
    from sasmodels import core
    r = R()
    info = build.info(case["model"])
    for spell in DTYPE_SPELLINGS:
        for bang in ("", "!"):
            if spell is None and bang:
                continue
            for platform in PLATFORMS:
                arg = None if spell is None else spell + bang
                call = "core.parse_dtype(<%s: %s>, dtype=%r, platform=%r)" % (case["model"], case["flags"], arg, platform)
                fk = {"clause": "dtype-spelling", "spelling": str(spell), "bang": bang}
                try:
                    dt, fast, plat = core.parse_dtype(info, arg, platform)
                except RuntimeError as exc:
                    if platform == "cuda" and "CUDA" in str(exc):
                        # an explicitly requested, unavailable GPU platform is refused: no type is selected at all
                        r.ok(outcome="cuda-unavailable-refused", branches=["cuda-unavailable-refused"])
                    else:
                        r.fail("%s raised %r" % (call, exc), fk)
                    continue
                except Exception as exc:  # noqa
                    r.fail("%s raised %r" % (call, exc), fk)
                    continue
                want = np.dtype(EXPECT_DTYPE[spell])
                if np.dtype(dt) != want:
                    r.fail("%s -> dtype %s, expected %s" % (call, np.dtype(dt), want), fk)
                elif bool(fast) != (spell == "fast"):
                    r.fail("%s -> fast=%r" % (call, fast), dict(fk, clause="dtype-fast"))
                elif plat != "dll":
                    r.fail("%s -> platform %r although %s" % (call, plat, "'!' forces the library" if bang else
                                                               "no GPU driver exists"), dict(fk, clause="dtype-platform"))
                else:
                    r.ok(nt=spell not in (None, "default", "double", "d", "float64"), outcome="%s%s->%s" % (spell, bang, want),
                         branches=["dtype-spelling"])
    return r


def _run_e2e(case, ctx):
    """the same spellings through load_model: model dtype, result dtype, library name, value"""
    from sasmodels import core
    from sasmodels.direct_model import call_kernel
    r = R()
    name = case["model"]
    q = np.array(Q)
    ref = np.array(call_kernel(build.model(name, "double").make_kernel([q]), {}), float)
    for spell in DTYPE_SPELLINGS:
        for bang in ("", "!"):
            if spell is None and bang:
                continue
            arg = None if spell is None else spell + bang
            want = np.dtype(EXPECT_DTYPE[spell])
            call = "load_model(%r, dtype=%r)" % (name, arg)
            fk = {"clause": "dtype-e2e", "spelling": str(spell), "bang": bang}
            try:
                m = core.load_model(name, dtype=arg)
            except ValueError as exc:
                if want == np.dtype("float16"):
                    r.ok(nt=True, outcome="half-refused", branches=["half-refused"])
                else:
                    r.fail("%s raised %r" % (call, exc), fk)
                continue
            except Exception as exc:  # noqa
                r.fail("%s raised %r" % (call, exc), fk)
                continue
            bits = 8 * want.itemsize
            path = getattr(m, "dllpath", "")
            k = m.make_kernel([q])
            with np.errstate(all="ignore"):
                val = np.array(call_kernel(k, {}), float)
            tol = {4: TOL32 if build.info(name).single else np.inf, 8: 0.0, 16: TOL128}.get(want.itemsize, 1.0)
            err = float(np.max(np.abs(val - ref)) / np.max(np.abs(ref)))
            if m.dtype != want or k.result.dtype != want:
                r.fail("%s: model dtype %s, result dtype %s, expected %s" % (call, m.dtype, k.result.dtype, want), fk)
            elif ("sas%d_" % bits) not in path:
                r.fail("%s: library %r is not the %d-bit build" % (call, path, bits), fk)
            elif not err <= tol:
                r.fail("%s: value %s deviates from double %s by %.3g of max|I| (bound %g)" % (call, val, ref, err, tol), fk)
            else:
                r.ok(nt=want.itemsize != 8, outcome="e2e:%s" % want, branches=["dtype-e2e"], trans=2)
    return r


def literal_mantissas():
    """[int digits, '.' or '', fraction digits]: every digit-sequence.digit-sequence with at least one side present, and
    every digit-sequence without a point (which needs an exponent to be a floating constant)"""
    out = []
    for i in LIT_DIGITS:
        for f in LIT_DIGITS:
            if i or f:
                out.append([i, ".", f])
    for i in LIT_DIGITS:
        if i:
            out.append([i, "", ""])
    return out


def _digit_class(d):
    return "none" if d == "" else "zero" if d == "0" else "lead0" if d[0] == "0" else "plain"


def _run_literal(case, ctx):
    """
    one mantissa x every exponent (absent / e,E x sign absent,+,- x digits 0, 3, 03, 10) x every suffix (absent, f, F, l, L)
    x every context (text before x text after; combinations in which the literal merges with its neighbour are skipped).
    The expectation comes from the lexer rule alone: an unsuffixed pp-number with a '.' or a decimal exponent is a
    double literal and gains exactly f / L; a suffixed one is left alone.
    """
    r = R()
    blk = Block(r)
    i, pt, f = case["mant"]
    exps = [""] if pt else []
    exps += [c + sg + d for c in LIT_EXP_CHARS for sg in LIT_EXP_SIGNS for d in LIT_EXP_DIGITS]
    for ex in exps:
        for suf in LIT_SUFFIXES:
            lit = i + pt + f + ex + suf
            if ctx.quick:
                pres, posts = (LIT_PRE_Q, LIT_POST_Q) if not suf else (LIT_PRE_SUFFIXED_Q, LIT_POST_SUFFIXED_Q)
            else:
                pres, posts = LIT_PRE, LIT_POST
            extra = {"int": _digit_class(i), "point": bool(pt), "frac": _digit_class(f),
                     "exp": "none" if not ex else "unsigned" if ex[1] not in "+-" else "signed", "suffix": suf or "none"}
            for pre in pres:
                for post in posts:
                    src = pre + lit + post
                    try:
                        want = [t.text for t in clex.lex(pre)] + [lit] + [t.text for t in clex.lex(post)]
                        have = [t.text for t in clex.lex(src)]
                    except clex.LexError:
                        r.extra["skipped-not-lexable"] += 1
                        continue
                    if have != want:
                        r.extra["skipped-fragments-merge"] += 1
                        continue
                    r.branches["grammar-literal" + ("-suffixed" if suf else "")] += 1
                    blk.run(src, extra=extra)
    blk.close("literal")
    if not r.samples and blk.n:
        r.sample({"mantissa": i + pt + f, "strings": blk.n})
    return r


def _representable(r, name, toks):
    """
    every unsuffixed decimal floating literal that reaches the float32 build must stay representable once it is tagged
    'f': finite and non-zero in double <=> finite and non-zero in float32 (a literal that underflows to 0.0f or
    overflows to inf turns a guard like `x < 2.2e-308` or a scale factor into something else in single precision only).
    Literals inside `#if FLOAT_SIZE > 4` blocks are not part of the float32 build.
    """
    stack = []          # True = this conditional block is compiled for FLOAT_SIZE > 4 only
    cur = "?"
    i, n = 0, len(toks)
    while i < n:
        t = toks[i]
        if t.directive is not None and t.text in ("#", "%:") and t.kind == "punct":
            j = i + 1
            line = []
            while j < n and toks[j].directive is not None and not (toks[j].kind == "punct" and toks[j].text in ("#", "%:")
                                                                   and toks[j].pos > t.pos and _starts_line(toks, j)):
                line.append(toks[j])
                j += 1
            words = [x.text for x in line]
            d = words[0] if words else ""
            if d in ("if", "ifdef", "ifndef"):
                stack.append(words[1:4] == ["FLOAT_SIZE", ">", "4"] and d == "if")
            elif d in ("else", "elif") and stack:
                stack[-1] = False
            elif d == "endif" and stack:
                stack.pop()
            elif d == "line":
                for x in line:
                    if x.kind == "string":
                        cur = x.text.strip('"')
            if d != "define":
                i = j
                continue
            i += 1
            continue
        if t.kind == "ppnum" and clex.is_decimal_float(t.text) and not any(stack):
            v = float(t.text)
            with np.errstate(all="ignore"):
                f = np.float32(v)
            if v != 0.0 and np.isfinite(v) and (f == 0.0 or not np.isfinite(f)):
                how = "underflows to 0" if f == 0.0 else "overflows to inf"
                r.fail("make_source(%s)['dll']: the literal %s (%s) %s in float32: convert_type tags it %sf, which is %r"
                       % (name, t.text, cur, how, t.text, float(f)),
                       {"clause": "literal-not-representable", "literal": t.text, "file": cur, "dtype": "float32"})
            else:
                r.branches["literal-representable"] += 1
        i += 1


def _starts_line(toks, j):
    """token j is a '#' that opens a new directive (its directive tag was assigned by the lexer at a line start)"""
    return j + 1 < len(toks) and toks[j + 1].kind == "ident" and toks[j + 1].directive == toks[j].directive


def _walk_models(m, path="model"):
    """(path, leaf model) for every part of a composite model"""
    if hasattr(m, "parts"):
        for k, p in enumerate(m.parts):
            for x in _walk_models(p, "%s.parts[%d]" % (path, k)):
                yield x
    elif hasattr(m, "P") and hasattr(m, "S"):
        for x in _walk_models(m.P, path + ".P"):
            yield x
        for x in _walk_models(m.S, path + ".S"):
            yield x
    else:
        yield path, m


def _walk_kernels(k, path="kernel"):
    if hasattr(k, "kernels"):
        for i, p in enumerate(k.kernels):
            for x in _walk_kernels(p, "%s.kernels[%d]" % (path, i)):
                yield x
    elif hasattr(k, "p_kernel") and hasattr(k, "s_kernel"):
        for x in _walk_kernels(k.p_kernel, path + ".p_kernel"):
            yield x
        for x in _walk_kernels(k.s_kernel, path + ".s_kernel"):
            yield x
    else:
        yield path, k


def _run_composite(case, ctx):
    """every spelling of a precision request on composite models: the model, EVERY part, and every kernel made from them"""
    from sasmodels import core
    from sasmodels.direct_model import call_kernel
    r = R()
    expr = case["model"]
    q = np.array(Q)
    for spell in DTYPE_SPELLINGS:
        for bang in ("", "!"):
            if spell is None and bang:
                continue
            arg = None if spell is None else spell + bang
            want = np.dtype(EXPECT_DTYPE[spell])
            call = "load_model(%r, dtype=%r)" % (expr, arg)
            fk = {"clause": "dtype-composite", "spelling": str(spell), "bang": bang}
            try:
                m = core.load_model(expr, dtype=arg)
            except ValueError as exc:
                if want == np.dtype("float16"):
                    r.ok(nt=True, outcome="half-refused", branches=["half-refused"])
                else:
                    r.fail("%s raised %r" % (call, exc), fk)
                continue
            except Exception as exc:  # noqa
                r.fail("%s raised %r" % (call, exc), fk)
                continue
            bad = []
            if np.dtype(m.dtype) != want:
                bad.append("model.dtype = %s" % m.dtype)
            nparts = 0
            for path, leaf in _walk_models(m):
                nparts += 1
                bits = 8 * want.itemsize
                if np.dtype(leaf.dtype) != want:
                    bad.append("%s (%s).dtype = %s" % (path, leaf.info.name, leaf.dtype))
                elif hasattr(leaf, "dllpath") and ("sas%d_" % bits) not in leaf.dllpath:
                    bad.append("%s (%s) uses library %s" % (path, leaf.info.name, leaf.dllpath))
            try:
                k = m.make_kernel([q])
                with np.errstate(all="ignore"):
                    val = np.asarray(call_kernel(k, {}))
                if np.dtype(k.dtype) != want:
                    bad.append("kernel.dtype = %s" % k.dtype)
                for path, leaf in _walk_kernels(k):
                    if np.dtype(leaf.dtype) != want or np.dtype(leaf.result.dtype) != want:
                        bad.append("%s (%s): dtype %s, result buffer %s" % (path, leaf.info.name, leaf.dtype, leaf.result.dtype))
                if not np.all(np.isfinite(np.asarray(val, float))):
                    bad.append("I(q) = %s" % val)
            except Exception as exc:  # noqa
                bad.append("make_kernel/call_kernel raised %r" % (exc,))
            if bad:
                r.fail("%s: expected %s everywhere, but %s" % (call, want, "; ".join(bad)), fk, branches=["dtype-composite"])
                r.branches["dtype-composite-parts"] += nparts
            else:
                r.ok(nt=want.itemsize != 8, outcome="composite:%s" % want, branches=["dtype-composite"], trans=nparts + 1)
                r.branches["dtype-composite-parts"] += nparts
    return r


def _run_zeros(case, ctx):
    """
    built single / long double vs double at EXACT zeros: |q| = 0, 2-D points on the axes and at the origin, every orientation angle at 0 and 90 degrees.  Judged on finiteness only: where the double
    kernel returns a finite value the other precisions must too (float32 for models declared safe for single precision,
    long double for all).
    """
    from sasmodels.direct_model import call_kernel
    r = R()
    name = case["model"]
    info = build.info(name)
    orient = [p.name for p in info.parameters.orientation_parameters]
    qsets = [("1d", [np.array(ZERO_Q1)], None)]
    q2 = np.array(ZERO_Q2)
    for ang in (ZERO_ANGLES if orient else [None]):
        qsets.append(("2d", [q2[:, 0].copy(), q2[:, 1].copy()], ang))
    dts = (["float32"] if info.single else []) + ["longdouble"]
    for dim, qv, ang in qsets:
        pars = {} if ang is None else {n: ang for n in orient}
        try:
            with np.errstate(all="ignore"):
                ref = np.array(call_kernel(build.model(name, "double").make_kernel(qv), dict(pars)), float)
        except Exception as exc:  # noqa
            r.fail("%s %s: double kernel raised %r" % (name, dim, exc), {"model": name, "clause": "raises"})
            continue
        for dt in dts:
            qtxt = ZERO_Q1 if dim == "1d" else ZERO_Q2
            call = "call_kernel(load_model(%r, dtype=%r).make_kernel(%s q=%s), %s)" % (name, dt, dim, qtxt, pars)
            try:
                with np.errstate(all="ignore"):
                    val = np.array(call_kernel(build.model(name, dt).make_kernel(qv), dict(pars)), float)
            except Exception as exc:  # noqa
                r.fail("%s raised %r" % (call, exc), {"model": name, "clause": "raises", "dtype": dt})
                continue
            badpts = np.isfinite(ref) & ~np.isfinite(val)
            if np.any(badpts):
                r.fail("%s = %s where the double kernel gives %s: not finite in %s only" % (call, val, ref, dt),
                       {"model": name, "clause": "zero-argument", "dtype": dt, "dim": dim}, branches=["zeros-" + dt])
            else:
                r.ok(nt=bool(np.any(np.isfinite(ref))), outcome="zeros:%s:%s" % (dim, dt),
                     branches=["zeros-" + dt] + (["zeros-double-nonfinite"] if not np.all(np.isfinite(ref)) else []), trans=2)
    return r


def _run_cutoff(case, ctx):
    """
    Every built precision (float32, float64, long double) x one / two dispersed parameters x the cutoff menu.
    Reference: the weighted mean assembled here, in double, from SINGLE-POINT evaluations of the SAME library over
    the mesh points whose weight (computed in double) exceeds the cutoff.  The library under test and the reference
    evaluate the identical function at identical (rounded) parameter values, so model conditioning drops out and
    what remains is (a) which mesh points qualify and (b) accumulation rounding, bounded a priori by
    2 (n + 8) u sum|terms| with u the unit roundoff of the precision and n the number of qualifying points.
    The menu is moved away from any mesh weight by at least 1e-3 relative (float32 stores weights to 6e-8).
    """
    from sasmodels.direct_model import call_kernel
    from .. import refmodel
    r = R()
    name = case["model"]
    info = build.info(name)
    fk = {"model": name, "clause": "cutoff"}
    by_name = {p.name: p for p in info.parameters.call_parameters}
    pds = _pd_names(info)[:1 if case["pd"] == "one" else 2]
    cfg = PD_ONE if case["pd"] == "one" else PD_TWO
    width = cfg["width"] * ctx.rot([1.0, 0.85, 1.1, 0.95], 0)
    base = {p.name: float(p.default) for p in info.parameters.call_parameters if not p.name.endswith(("_M0", "_mtheta", "_mphi"))
            and p.name not in ("up_frac_i", "up_frac_f", "up_theta", "up_phi")}
    base["scale"], base["background"] = 1.7, 0.25
    disp = {}
    pars = dict(base)
    for p in pds:
        x, w = refmodel.par_dist(by_name[p], "gaussian", cfg["n"], width, cfg["nsigma"], base[p])
        disp[p] = (x, w)
        pars[p + "_pd"], pars[p + "_pd_n"], pars[p + "_pd_nsigma"], pars[p + "_pd_type"] = width, cfg["n"], cfg["nsigma"], "gaussian"
    grids = [list(zip(*disp[p])) for p in pds]
    mesh = []
    for combo in itertools.product(*grids):
        w = 1.0
        for v, wi in combo:
            w *= wi
        mesh.append((float(w), [float(v) for v, _ in combo]))
    weights = np.array(sorted(w for w, _ in mesh))
    # the cutoff menu for this mesh
    lo, hi = int(0.25 * len(weights)), int(0.75 * len(weights))
    with np.errstate(all="ignore"):
        gaps = weights[lo + 1:hi + 1] / weights[lo:hi]
    j = int(np.argmax(gaps)) + lo
    menu = []
    for c in CUTOFFS:
        c = float(np.sqrt(weights[j] * weights[j + 1])) if c == "gap" else float(c)
        for _ in range(40):
            if c == 0.0 or np.min(np.abs(weights / c - 1.0)) > 1e-3:
                break
            c *= 1.0041
        else:
            r.inconc("no cutoff clear of the mesh weights")
            continue
        menu.append(c)
    q = np.array(Q)
    for dt in ("float32", "float64", "longdouble"):
        m = build.model(name, dt if dt != "float64" else "double")
        k_ref, k_impl = m.make_kernel([q]), m.make_kernel([q])
        nq = len(q)
        nout = 2 if info.have_Fq else 1
        # single-point evaluations, once per precision
        points = []
        point = dict(base, scale=1.0, background=0.0)
        for w, vals in mesh:
            for p, v in zip(pds, vals):
                point[p] = v
            points.append((w, refmodel.raw_point(k_ref, point)))
        for c in menu:
            sw = sshell = 0.0
            sF2 = np.zeros(nq)
            nqual = 0
            for w, pt in points:
                if not (w > c) or pt["w"] == 0.0:
                    continue
                nqual += 1
                sw += w
                sF2 += w * pt["F2"]
                sshell += w * pt["shell"]
            call = ("call_kernel(load_model(%r, dtype=%r).make_kernel([%s]), %s, cutoff=%r)"
                    % (name, dt, Q, {k: v for k, v in sorted(pars.items()) if "_pd" in k}, c))
            try:
                with np.errstate(all="ignore"):
                    impl = np.array(call_kernel(k_impl, dict(pars), cutoff=c), float)
                sw_impl = float(k_impl.result[nout * nq])
            except Exception as exc:  # noqa
                r.fail("%s raised %r" % (call, exc), dict(fk, dtype=dt))
                continue
            br = ["cutoff-" + dt]
            if 0 < nqual < len(mesh):
                br.append("cutoff-splits-mesh")
            if nqual == 0:
                br.append("cutoff-rejects-all")
            bound = 2.0 * (nqual + 8) * U[dt]
            if nqual == 0 or sw == 0.0:
                ref = np.full(nq, base["background"])
                mag = np.full(nq, abs(base["background"]))
            else:
                vs = sshell / sw if sshell != 0 else 1.0
                ref = base["scale"] * (sF2 / sw) / vs + base["background"]
                mag = np.abs(base["scale"] * (sF2 / sw) / vs) + abs(base["background"])
            bad = None
            if abs(sw_impl - sw) > bound * max(sw, 1e-300) + 1e-300:
                bad = ("total weight of the qualifying mesh points = %r, reference sum over the %d of %d points with "
                       "weight > cutoff = %r (relative difference %.3g, a-priori bound %.3g)"
                       % (sw_impl, nqual, len(mesh), sw, abs(sw_impl - sw) / max(sw, 1e-300), bound))
            elif not np.all(np.abs(impl - ref) <= 2 * bound * mag):
                with np.errstate(all="ignore"):
                    bad = ("I(q) = %s, reference mean over the %d of %d qualifying points = %s (relative difference %.3g, "
                           "a-priori bound %.3g)" % (impl, nqual, len(mesh), ref, float(np.max(np.abs(impl - ref) / mag)), 2 * bound))
            if bad:
                r.fail("%s: %s" % (call, bad), dict(fk, dtype=dt, cutoff="zero" if c == 0 else "positive"), branches=br)
            else:
                r.ok(nt=bool(0 < nqual), outcome="cutoff:%s:%s" % (dt, "all" if nqual == len(mesh) else "some" if nqual else "none"),
                     branches=br, trans=len(mesh) + 1)
    return r


def finish(ctx, report):
    n = len(build.compiled_models())
    report.require("model-sources", n, "generated model sources judged")
    report.require("numeric-longdouble", n - 5, "long double kernels compared")
    report.require("numeric-float32", 30, "float32 kernels compared")
    report.require("has-convertible", 1000, "strings with convertible tokens")
    report.require("promoted", 50, "integer promotion of a listed math call")
    report.require("hexfloat-left-double", 50, "hexadecimal float literal met")
    report.require("dtype-spelling", 100, "dtype spellings")
    report.require("dtype-e2e", 30, "dtype spellings end to end")
    report.require("half-refused", 1, "half precision refused by the DLL driver")
    report.require("snippets", len(SNIPPETS), "property-text snippets")
    report.require("directive-lines", 100, "directive lines")
    report.require("noncode-spans-lines", 500, "strings with a comment / string literal that spans lines")
    report.require("grammar-literal", 20000, "unsuffixed floating literals generated from the C grammar, in context")
    report.require("grammar-literal-suffixed", 10000, "suffixed floating literals generated from the C grammar, in context")
    report.require("zeros-float32", 80, "float32 kernels at exact zeros of q / orientation")
    report.require("zeros-longdouble", 120, "long double kernels at exact zeros of q / orientation")
    report.require("dtype-composite", 100, "dtype spellings on composite models")
    report.require("dtype-composite-parts", 250, "parts of composite models whose dtype was checked")
    report.require("literal-representable", 5000, "floating literals of model sources checked for float32 representability")
    report.require("cutoff-float32", 20, "float32 kernels with dispersity and a cutoff")
    report.require("cutoff-longdouble", 20, "long double kernels with dispersity and a cutoff")
    report.require("cutoff-splits-mesh", 20, "cutoffs that leave some mesh points in and some out")
    if report.extra.get("model-type-keywords", 0) < 10000 or report.extra.get("model-float-literals", 0) < 5000:
        report.vacuous.append("too few keywords/literals seen in model sources: %s" % dict(report.extra))
    report.coverage["known_limitations"] = [
        "hexadecimal floating literals are left double in float kernels (counted: hexfloat-left-double)",
        "cdouble under long double becomes 'clong double' (counted: cdouble-long-unjudged)",
    ]

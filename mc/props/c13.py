"""
C13 - particle models are dimensionally consistent with their declared units.

Space: every `shape:*` model whose parameter table carries only length-type, SLD, angle or
dimensionless units  x  two bases (the defaults; the "activated" base in which every non-SLD, non-angle
parameter with default 0 is non-zero and every count-like parameter with default 1 is raised, so that
parameters the defaults switch off take part)  x  every count parameter (n, n_shells, n_stacking, num_pearls,
Nlayers, n_aggreg ...) at its smallest meaningful values (lower limit or 1, and 2); the RATIO family: for every
pair of length-typed parameters the two default values swapped and the second at {1/8, 1/2, 2, 8} x the first,
every dimensionless "ratio" parameter inverted and at 1/8..8, each judged on a wide q menu q*length in
{0.05, 0.7, 3, 20} for both lengths (so both sides of every ratio- or q*length-dependent branch are visited); the
NEAR-MATCHED family: all SLDs within a few delta of one value, delta in {1e-2, 1e-3, 1e-4, 1e-6}, mu in {0.5, 2, 10},
background 0 (absolute "contrast matched" thresholds are crossed in both directions); the UNITS family: the unit of
every parameter and every expanded vector element read from kernel_parameters, call_parameters, user_parameters()
and the SasView details table must agree (all models of the library), and the scaling laws take the unit of a vector
element from call_parameters  x  parameter sets on each base (the base; each parameter
moved to two seed-rotated non-default values; thorough: every pair)  x  1-D / 2-D (oriented models)  x  lambda in {2, 0.5, 1.3}  x
mu in {1.7, 0.5}  x  3 q points  (+ every effective-radius mode through call_Fq).

Oracle (no model code involved, just the stated scaling law):

    I(q/lambda, p scaled by lambda^unit-exponent) - bg  ==  lambda^3 (I(q, p) - bg)
    I(q, SLDs * mu) - bg                               ==  mu^2     (I(q, p) - bg)
    R_eff -> lambda R_eff,   V_shell, V_form -> lambda^3 V

For a failing model the check enumerates unit exponents in {-2..3} per non-SLD, non-angle parameter
(all 6^k assignments for k <= 5 table rows, otherwise every assignment at most 2 rows away from the
declaration) and reports the unique assignment - if there is exactly one - that restores the law at
several parameter sets; each mislabelled parameter becomes its own finding key
({"model", "clause", "parameter-hint": <row>}).  If no assignment gives lambda^3 but exactly one gives
lambda^k for another integer k, the model contains an implicit length (its `scale` is not dimensionless):
hint "implicit-length".  Size outputs (R_eff, volumes) that fail are attributed to the same rows when the
repaired assignment also repairs them, otherwise hint "none".
"""
import functools
import itertools
import math

import numpy as np

from .. import build
from ..engine import R, HarnessError

ID = "C13"
TITLE = "Particle models are dimensionally consistent with their declared units"
LEVEL = "model_checking"
ENGINE = "E1"
TECHNIQUE = ("deviation-bounded exhaustive enumeration of (model, parameter set, 1-D/2-D, lambda, mu, R_eff mode) "
             "against the lambda^3 / mu^2 scaling law; exhaustive unit-exponent search on failing models")
RULE = ("every shape model with length/SLD/angle/dimensionless units x every parameter set with <=D parameters off "
        "default x every lambda, mu, mode; an evaluation is non-trivial when I-bg responds (>1e-6 relative) to at "
        "least one of the rescaled parameters taken alone (lambda) resp. is non-zero (mu)")
ASSUMPTIONS = [
    "a unit string determines the scaling exponent: Ang 1, Ang^2 2, Ang^3 3, 1/Ang -1, 1/Ang^2 -2, 1/Ang^3 -3, 1e15/cm^3 -3; "
    "1e-6/Ang^2 is an SLD (fixed under lambda, multiplied by mu); degrees, '', None/none are dimensionless",
    "scale and background are not rescaled; magnetic parameters stay at their (zero) defaults",
    "DLL driver, double precision, monodisperse evaluations",
    "real-valued inputs are represented by the finite tables in coverage.bounds",
]
LAMBDAS = [2.0, 0.5, 1.3]
RATIOS = [0.125, 0.5, 2.0, 8.0]        # ratio menu between two length-typed parameters (both orders)
QR = [0.05, 0.7, 3.0, 20.0]            # q * (each of the two lengths): low-q and high-q branches are both judged
AZIMUTH = 0.6
MUS = [1.7, 0.5]
BOUNDS = {
    "quick": {"D": 1, "lambda": LAMBDAS, "mu": MUS, "q1d": [0.011, 0.07, 0.31], "dims": "1d + 2d (oriented models)",
              "factors_per_parameter": 2, "bases": "defaults + activated (zero defaults on, counts raised)",
              "counts": "every count parameter at max(lower limit, 1) and 2 on both bases",
              "ratio_family": {"ratios": RATIOS, "q*length": QR, "lambda": "1.3 (quick, 1-D) / all (thorough, 1-D + 2-D, activated base)"},
              "exponent_search": "{-2..3}^k (k<=5) or <=2 rows off the declaration"},
    "thorough": {"D": 2, "lambda": LAMBDAS, "mu": MUS, "q1d": [0.011, 0.07, 0.31], "dims": "1d + 2d (oriented models)",
                 "factors_per_parameter": 2, "bases": "defaults + activated (zero defaults on, counts raised)",
              "counts": "every count parameter at max(lower limit, 1) and 2 on both bases",
              "ratio_family": {"ratios": RATIOS, "q*length": QR, "lambda": "1.3 (quick, 1-D) / all (thorough, 1-D + 2-D, activated base)"},
              "exponent_search": "{-2..3}^k (k<=5) or <=2 rows off the declaration"},
}
CASE_TIMEOUT = 600

Q1 = [0.011, 0.07, 0.31]
Q2 = [[0.05, 0.02], [-0.1, 0.13], [0.013, -0.3]]
SCALE, BACKGROUND = 1.7, 0.25
SLD_UNIT = "1e-6/Ang^2"
UNIT_EXP = {"Ang": 1, "Ang^2": 2, "Ang^3": 3, "1/Ang": -1, "1/Ang^2": -2, "1/Ang^3": -3, "1e15/cm^3": -3,
            "degrees": 0, "degree": 0, "": 0, "None": 0, "none": 0, None: 0}
EXP_UNIT = {1: "Ang", 2: "Ang^2", 3: "Ang^3", -1: "1/Ang", -2: "1/Ang^2", 0: "(dimensionless)", -3: "1/Ang^3"}
SEARCH_EXPS = (-2, -1, 0, 1, 2, 3)
RTOL = 1e-9
RTOL_WIDE = 1e-6      # ratio family (extreme length ratios, q*length from 0.006 to 160)


# ------------------------------------------------------------------------------------------------
def eligible(info):
    if not (info.category or "").startswith("shape:"):
        return False
    for p in info.parameters.kernel_parameters:
        if p.units != SLD_UNIT and p.units not in UNIT_EXP:
            return False
    return True


def models():
    return [m for m in build.all_models() if eligible(build.info(m))]


def rows(info):
    """table rows: (row id, units, [call names], is_control)"""
    P = info.parameters
    controls = set()
    for p in P.kernel_parameters:
        if p.length > 1 and p.length_control:
            controls.add(p.length_control)
    out = []
    for p in P.kernel_parameters:
        if p.type == "magnetic":
            continue
        names = [p.id] if p.length == 1 else [p.id + str(k) for k in range(1, p.length + 1)]
        out.append((p.id, p.units, names, p.id in controls, p))
    return out


def declared(info):
    return {rid: UNIT_EXP[u] for rid, u, _, _, _ in rows(info) if u != SLD_UNIT}


def defaults(info):
    pars = {}
    for rid, u, names, ctl, p in rows(info):
        for n in names:
            pars[n] = float(p.default)
    pars["scale"], pars["background"] = SCALE, BACKGROUND
    return pars


def call_units(info):
    """{call name: unit string} as exposed by parameters.call_parameters (vector elements expanded by the library)"""
    return {p.name: p.units for p in info.parameters.call_parameters}


def rescale(info, pars, lam, mu, exps):
    """scalars: unit of the table row; expanded vector elements: the unit call_parameters shows for THAT element (the
    number the user enters next to it), applied as a correction to the row's exponent so candidate assignments of the
    exponent search still act on the row"""
    out = dict(pars)
    cu = None
    for rid, u, names, ctl, p in rows(info):
        for n in names:
            un = u
            if len(names) > 1:
                cu = cu or call_units(info)
                un = cu.get(n, u)
            if un == SLD_UNIT:
                f = mu
            elif u == SLD_UNIT:
                f = lam ** UNIT_EXP.get(un, 0)
            else:
                f = lam ** (exps[rid] + UNIT_EXP.get(un, UNIT_EXP[u]) - UNIT_EXP[u])
            if f != 1.0:
                out[n] = pars[n] * f
    return out


def variables(info):
    """[(call name, row)] that parameter sets move: every scalar, elements 1 and 2 of every vector"""
    out = []
    for row in rows(info):
        rid, u, names, ctl, p = row
        for n in names[:2]:
            out.append((n, row))
    return out


def moved(ctx, info, name, which=0):
    """a non-default value for `name`: default x seed-rotated factor (inside the declared limits);
    vector-length controls step through the integers; zero defaults move to an absolute value"""
    for k, (n, (rid, u, names, ctl, p)) in enumerate(variables(info)):
        if n == name:
            break
    else:
        raise HarnessError("unknown variable %r" % name)
    d = float(p.default)
    lo, hi = p.limits
    if ctl:
        v = d + 1 + which
        return v if v <= hi else None
    if p.choices:
        v = d + 1 + which
        return v if v < len(p.choices) else (d - 1 - which if d - 1 - which >= 0 else None)
    if d == 0.0:
        v = (0.3 + which) * (ctx.factor(k) + 0.5)
        if u in ("degrees", "degree"):
            v *= 40.0
        return v if lo <= v <= hi else None
    for j in range(8):
        v = d * ctx.factor(k + 3 * which + j)
        if lo <= v <= hi:
            return v
    return None


def _is_count(u, ctl, p):
    """a dimensionless, integer-valued count (n, n_shells, n_stacking, num_pearls, Nlayers, n_aggreg, n_steps ...):
    vector-length controls and integer defaults >= 1 whose description calls them a number"""
    if u == SLD_UNIT or UNIT_EXP.get(u, 1) != 0 or u in ("degrees", "degree") or p.choices:
        return False
    d = float(p.default)
    return d >= 1.0 and d.is_integer() and (ctl or "number" in (p.description or "").lower())


def _count_like(u, ctl, p):
    """a count whose default of 1 switches its companions off (n_stacking, n_shells, n ...)"""
    return _is_count(u, ctl, p) and float(p.default) == 1.0


def small_counts(info):
    """{call name: [smallest meaningful values]} for every count: the lower limit if finite and >= 1 else 1, and 2"""
    out = {}
    for rid, u, names, ctl, p in rows(info):
        if len(names) == 1 and _is_count(u, ctl, p):
            lo, hi = p.limits
            first = float(lo) if (np.isfinite(lo) and lo >= 1.0) else 1.0
            vals = [v for v in (first, 2.0) if lo <= v <= hi]
            out[names[0]] = sorted(set(vals))
    return out


def activation(ctx, info):
    """
    {call name: value} turning on what the defaults leave off: every non-SLD, non-angle parameter whose default
    is 0 gets a seed-rotated non-zero value inside its limits, every count-like parameter with default 1 is raised
    (controls to 3, others to a seed-rotated non-integer >= 2).  ctx=None gives the fixed representatives used by
    the exponent search.
    """
    out = {}
    k = 0
    for rid, u, names, ctl, p in rows(info):
        if u == SLD_UNIT or u in ("degrees", "degree") or p.choices:
            continue
        lo, hi = p.limits
        d = float(p.default)
        if d == 0.0:
            k += 1
            cands = [0.2] if ctx is None else [0.3 * (ctx.factor(k + j) + 0.5) for j in range(8)]
            for v in cands + [0.2]:
                if lo <= v <= hi:
                    for n in names:
                        out[n] = v
                    break
        elif _count_like(u, ctl, p):
            k += 1
            v = 3.0 if ctl else (2.3 if ctx is None else ctx.rot([2.3, 3.0, 2.6, 3.4], k))
            if lo <= v <= hi:
                for n in names:
                    out[n] = v
    return out


def length_rows(info):
    """rows declared as a plain length (exponent 1), not a vector-length control"""
    return [(rid, names, p) for rid, u, names, ctl, p in rows(info)
            if u != SLD_UNIT and UNIT_EXP.get(u) == 1 and not ctl and not p.choices and float(p.default) > 0]


def ratio_rows(info):
    """dimensionless rows that are described as a ratio (x_core, axis_ratio, b2a_ratio ...): inverted in the ratio family"""
    return [(rid, names, p) for rid, u, names, ctl, p in rows(info)
            if u != SLD_UNIT and UNIT_EXP.get(u, 1) == 0 and u not in ("degrees", "degree") and not ctl and not p.choices
            and "ratio" in (p.description or "").lower() and float(p.default) > 0]


def ratio_sets(ctx, info, pair, base):
    """
    parameter sets that put the two rows on the other side of every ratio-dependent branch: the two default values
    swapped, and the second row at {1/8, 1/2, 2, 8} x (seed-rotated factor near 1) times the first.
    For a single dimensionless ratio row: its inverse, and 1/8, 1/2, 2, 8.
    Returns [(label, pars, (value a, value b))].
    """
    by_id = {rid: (names, p) for rid, u, names, ctl, p in rows(info)}
    out = []

    def put(label, va, vb):
        pars = dict(base)
        for rid, v in zip(pair, (va, vb)):
            names, p = by_id[rid]
            if not (p.limits[0] <= v <= p.limits[1]):
                return
            for n in names:
                pars[n] = v
        if pars != base and all(pars != o[1] for o in out):
            out.append((label, pars, (va, vb)))
    wob = [1.0, 1.1, 0.93, 1.21, 0.87, 1.05, 0.97, 1.16]
    if len(pair) == 2:
        da, db = base[by_id[pair[0]][0][0]], base[by_id[pair[1]][0][0]]
        put("swap", db, da)
        for k, rt in enumerate(RATIOS):
            put("ratio", da, da * rt * ctx.rot(wob, k))
    else:
        d = base[by_id[pair[0]][0][0]]
        names, p = by_id[pair[0]]
        for k, v in enumerate([1.0 / d] + RATIOS):
            v = v * (1.0 if k == 0 else ctx.rot(wob, k))
            pars = dict(base)
            if p.limits[0] <= v <= p.limits[1] and v != d:
                for n in names:
                    pars[n] = v
                if all(pars != o[1] for o in out):
                    out.append(("inverse" if k == 0 else "ratio", pars, (v,)))
    return out


def _q(dim, lam=1.0):
    if dim == "2d":
        q = np.array(Q2, float) / lam
        return [q[:, 0].copy(), q[:, 1].copy()]
    return [np.array(Q1, float) / lam]


# ------------------------------------------------------------------------------------------------
def setup(ctx):
    names = [m for m in models() if not callable(build.info(m).Iq)]
    bad = build.prebuild(ctx, names)
    if bad:
        raise HarnessError("models failed to build: %r" % bad)


def cases(ctx):
    out = []
    # the unit of every parameter, read from every table the library exposes, for every model of the library
    for m in build.all_models():
        out.append({"model": m, "units": True})
    for m in models():
        info = build.info(m)
        dims = ["1d"] + (["2d"] if info.parameters.orientation_parameters else [])
        names = [n for n, _ in variables(info)]
        act = activation(ctx, info)
        for dim in dims:
            out.append({"model": m, "dim": dim, "vary": []})
            for n in names:
                out.append({"model": m, "dim": dim, "vary": [n]})
            if not ctx.quick:
                for a, b in itertools.combinations(names, 2):
                    out.append({"model": m, "dim": dim, "vary": [a, b]})
            # every count at its smallest meaningful values (a lone pearl, a single layer ...), both tiers
            for n in sorted(small_counts(info)):
                out.append({"model": m, "dim": dim, "vary": [n], "small": True})
                if act:
                    out.append({"model": m, "dim": dim, "vary": [n], "small": True, "base": "activated"})
            # ratio family: every pair of length rows swapped / at 1/8, 1/2, 2, 8; every ratio row inverted; wide q menu
            if dim == "1d" or not ctx.quick:
                lrows = [rid for rid, _, _ in length_rows(info)]
                for a, b in itertools.combinations(lrows, 2):
                    out.append({"model": m, "dim": dim, "ratio": [a, b]})
                for rid, _, _ in ratio_rows(info):
                    out.append({"model": m, "dim": dim, "ratio": [rid]})
            # near-matched contrasts: every SLD within a few delta of one value, delta in 1e-2 .. 1e-6, mu in 0.5, 2, 10
            if len(sld_names(info)) >= 2 and (dim == "1d" or not ctx.quick):
                for perm in range(2):
                    out.append({"model": m, "dim": dim, "matched": perm})
            if act:
                # second base: zero defaults switched on, counts raised; single moves on top of it in BOTH tiers
                out.append({"model": m, "dim": dim, "vary": [], "base": "activated"})
                for n in names:
                    out.append({"model": m, "dim": dim, "vary": [n], "base": "activated"})
                if not ctx.quick:
                    for a, b in itertools.combinations(names, 2):
                        out.append({"model": m, "dim": dim, "vary": [a, b], "base": "activated"})
    return out


class Ev(object):
    """memoising evaluator for one (model, dim)"""

    def __init__(self, model, dim, q=None):
        self.model, self.dim, self.info = model, dim, model.info
        self.kern = {}
        self.ncalls = 0
        self.q = None if q is None else np.asarray(q, float)     # custom |q| list (ratio family): local tolerance
        self.noise = self.noisy = None
        self.rtol_extra = 0.0

    def for_dim(self, dim):
        """an evaluator of the same model for another q shape (the exponent search works in 1-D)"""
        if dim == self.dim:
            return self
        if "other" not in self.kern:
            self.kern["other"] = Ev(self.model, dim)
        return self.kern["other"]

    def kernel(self, lam):
        if lam not in self.kern:
            if self.q is None:
                qv = _q(self.dim, lam)
            elif self.dim == "2d":
                qv = [self.q * math.cos(AZIMUTH) / lam, self.q * math.sin(AZIMUTH) / lam]
            else:
                qv = [self.q / lam]
            self.kern[lam] = self.model.make_kernel(qv)
        return self.kern[lam]

    def I(self, pars, lam=1.0):
        from sasmodels.direct_model import call_kernel
        self.ncalls += 1
        with np.errstate(all="ignore"):
            return np.asarray(call_kernel(self.kernel(lam), dict(pars)), float)

    def Fq(self, pars, mode):
        from sasmodels.direct_model import call_Fq
        if "fq" not in self.kern:
            self.kern["fq"] = self.model.make_kernel([np.array([0.02])])
        self.ncalls += 1
        with np.errstate(all="ignore"):
            F1, F2, reff, vshell, ratio = call_Fq(self.kern["fq"], dict(pars, radius_effective_mode=mode))
        return float(reff), float(vshell), float(vshell * ratio)


def residual(ev, pars, lam, mu, exps, I0=None, power=3):
    """worst |d1 - k d0| / tolerance over q with k = lam^power mu^2; (ratio, d1, expected)"""
    bg = pars["background"]
    if I0 is None:
        I0 = ev.I(pars)
    k = lam ** power * mu ** 2
    I1 = ev.I(rescale(ev.info, pars, lam, mu, exps), lam)
    d0, d1 = (I0 - bg) * k, I1 - bg
    if not (np.all(np.isfinite(d0)) and np.all(np.isfinite(d1))):
        return None, d1, d0
    if ev.q is None:
        tol = (RTOL + ev.rtol_extra) * np.abs(d0) + 1e-11 * np.max(np.abs(d0)) + 1e-14 * abs(bg) * (1 + k) + 1e-300
    else:
        # wide q menu / extreme ratios: I spans up to 16 decades.  I = F^2 with F a sum of terms of size F(0), so
        # rounding noise in I is ~ u * kappa * sqrt(I * I(0)); the slack 1e-11 sqrt(|I| max|I|) allows kappa ~ 1e5 and
        # still resolves 1e-8 relative at I/I(0) = 1e-6.  Low q*length also cancels (x^-n series): relative 1e-6.
        mx = np.max(np.abs(d0))
        tol = RTOL_WIDE * np.abs(d0) + 1e-11 * np.sqrt(np.abs(d0) * mx) + 1e-14 * abs(bg) * (1 + k) + 1e-300
        if ev.noise is not None:
            # measured non-smoothness of the kernel itself at these q (see _run_ratio): 16 x the larger of two probes;
            # q points at which the kernel is noisier than 1e-4 relative carry no verdict (ev.noisy)
            tol = tol + 16.0 * k * ev.noise
            tol = np.where(ev.noisy, np.inf, tol)
    return float(np.max(np.abs(d1 - d0) / tol)), d1, d0


def sld_names(info):
    """call names carrying the SLD unit in table order (elements 1 and 2 of vectors; further elements follow element 2)"""
    out = []
    for rid, u, names, ctl, p in rows(info):
        if u == SLD_UNIT:
            out.extend(names[:2])
    return out


MATCH_DELTAS = [1e-2, 1e-3, 1e-4, 1e-6]
MATCH_MUS = [0.5, 2.0, 10.0]
MATCH_W = [1.0, 0.0, -0.7, 1.9, -1.6, 2.7, 0.45, -2.3]     # pairwise differences 0.45 .. 5: every contrast is O(delta)


def _run_matched(case, ctx):
    """
    mu^2 law next to contrast matching: all SLDs sit within a few delta of one reference value (so the signal consists
    of the small contrasts only - nothing large can hide them), delta in {1e-2, 1e-3, 1e-4, 1e-6} (absolute, in
    1e-6/Ang^2), mu in {0.5, 2, 10}: an absolute "these two are matched" threshold anywhere in 1e-7 .. 1e-1 is crossed
    upwards by one mu and downwards by another.  background = 0 (the signal is ~1e-12 of the default one); tolerance
    = 1e-9 + 64 eps max|SLD| / min contrast (mu (a - b) against mu a - mu b).
    """
    r = R()
    m = build.model(case["model"])
    info = m.info
    dim = case["dim"]
    decl = declared(info)
    names = sld_names(info)
    k0 = ctx.seed + (3 if case["matched"] else 0)
    w = [MATCH_W[(k0 + i) % len(MATCH_W)] * (-1.0 if case["matched"] else 1.0) for i in range(len(names))]
    follow = {}
    for rid, u, nm, ctl, p in rows(info):
        if u == SLD_UNIT:
            for n in nm[2:]:
                follow[n] = nm[1]
    base = defaults(info)
    base["background"] = 0.0
    sref = max(1.0, abs(float(base[names[-1]])))
    ev = Ev(m, dim)
    reported = set()
    for delta in MATCH_DELTAS:
        pars = dict(base)
        for n, wi in zip(names, w):
            pars[n] = sref + wi * delta
        for n, src in follow.items():
            pars[n] = pars[src]
        cmin = min(abs(a - b) for a, b in itertools.combinations([pars[n] for n in names], 2))
        desc = "%s %s pars=%s" % (case["model"], dim, {k: v for k, v in sorted(pars.items())})
        try:
            I0 = ev.I(pars)
        except Exception as exc:  # noqa
            r.fail("%s: call_kernel raised %r" % (desc, exc), {"model": case["model"], "clause": "raises"})
            continue
        if not np.all(np.isfinite(I0)):
            r.inconc("non-finite I at the unscaled point")
            continue
        nt = bool(np.any(np.abs(I0) > 0))
        for mu in MATCH_MUS:
            ev.rtol_extra = 64.0 * 2.2e-16 * (sref + 3 * delta) * max(mu, 1.0) / cmin
            try:
                res, d1, d0 = residual(ev, pars, 1.0, mu, decl, I0)
            except Exception as exc:  # noqa
                r.fail("%s mu=%g: call_kernel raised %r" % (desc, mu, exc), {"model": case["model"], "clause": "raises"})
                continue
            if res is None:
                r.inconc("non-finite I at the scaled point")
            elif res <= 1.0:
                r.ok(nt=nt, outcome="matched:%s" % ("nt" if nt else "flat"), branches=["near-matched-held"])
            else:
                key = ("mu2", "near-matched")
                if key in reported:
                    r.ok(nt=nt, outcome="FAIL-dup")
                    continue
                reported.add(key)
                with np.errstate(all="ignore"):
                    ratio = d1 / d0
                r.fail("%s\n  contrasts between the SLDs are multiples %s of delta=%g; call_kernel(q, all SLDs x %g) = %s\n"
                       "  expected mu^2 I = %s\n  observed/expected = %s"
                       % (desc, [round(x, 2) for x in w], delta, mu, d1, d0, ratio),
                       {"model": case["model"], "clause": "mu2", "context": "near-matched"}, nt=nt)
    r.trans = ev.ncalls
    return r


def _run_units(case, ctx):
    """the unit string of every parameter (every element of every vector) in every table the library exposes"""
    r = R()
    name = case["model"]
    info = build.info(name)
    P = info.parameters
    want = {}
    for p in P.kernel_parameters:
        for n in ([p.id] if p.length == 1 else [p.id + str(k) for k in range(1, p.length + 1)]):
            want[n] = p.units
    tables = {"parameters.call_parameters": {p.name: p.units for p in P.call_parameters}}
    controls = {p.length_control: p.length for p in P.kernel_parameters if p.length > 1 and p.length_control}
    for is2d in (False, True):
        for label, pars in (("{}", {}), ("max", dict(controls))):
            try:
                tables["parameters.user_parameters(%s, is2d=%s)" % (label if label == "{}" else pars, is2d)] = \
                    {p.name: p.units for p in P.user_parameters(dict(pars), is2d=is2d)}
            except Exception as exc:  # noqa
                r.fail("%s: user_parameters raised %r" % (name, exc), {"model": name, "clause": "raises"})
    try:
        from sasmodels.sasview_model import make_model_from_info
        inst = make_model_from_info(info)()
        tables["SasviewModel().details"] = {k: v[0] for k, v in inst.details.items() if not k.endswith(".width")}
    except Exception as exc:  # noqa
        r.fail("%s: SasView wrapper raised %r" % (name, exc), {"model": name, "clause": "raises"})
    nvec = 0
    for tname, table in sorted(tables.items()):
        for n, u in sorted(want.items()):
            if n not in table:
                continue
            if table[n] != u:
                r.fail("%s: %s shows unit %r for %r, the parameter table of the model file (kernel_parameters) declares %r"
                       % (name, tname, table[n], n, u), {"model": name, "clause": "units-tables", "table": tname.split("(")[0]})
            else:
                vec = n not in [p.id for p in P.kernel_parameters]
                nvec += vec
                r.ok(nt=vec, outcome="units-agree", branches=["units-agree"] + (["units-agree-vector-element"] if vec else []))
    return r


def _run_ratio(case, ctx):
    r = R()
    _SEARCH_DIR[0] = ctx.scratch
    m = build.model(case["model"])
    info = m.info
    dim = case["dim"]
    decl = declared(info)
    base = defaults(info)
    if not ctx.quick:
        base.update(activation(ctx, info))      # thorough: on the activated base (counts raised, zero defaults on)
    lams = [1.3] if ctx.quick else LAMBDAS
    reported = set()
    ncalls = 0
    has_sld = any(u == SLD_UNIT for _, u, _, _, _ in rows(info))
    default_order = None
    by_id = {rid: names for rid, u, names, ctl, p in rows(info)}
    if len(case["ratio"]) == 2:
        default_order = base[by_id[case["ratio"][0]][0]] < base[by_id[case["ratio"][1]][0]]
    for label, pars, vals in ratio_sets(ctx, info, case["ratio"], base):
        # q menu relative to BOTH lengths (for a dimensionless ratio: relative to every length row of the model)
        if len(case["ratio"]) == 2:
            lens = list(vals)
        else:
            lens = sorted(set(pars[names[0]] for _, names, _ in length_rows(info)))
            lens = [lens[0], lens[-1]] if lens else [50.0]
        q = sorted(set(round(c / x, 12) for x in lens for c in QR))
        ev = Ev(m, dim, q=q)
        desc = "%s %s |q|=%s pars=%s" % (case["model"], dim, q, {k: v for k, v in sorted(pars.items())})
        try:
            I0 = ev.I(pars)
        except Exception as exc:  # noqa
            r.fail("%s: call_kernel raised %r" % (desc, exc), {"model": case["model"], "clause": "raises"})
            continue
        bg = pars["background"]
        if not np.all(np.isfinite(I0)):
            r.inconc("non-finite I at the unscaled point")
            continue
        # smoothness probe: some kernels cancel catastrophically at tiny q*length (binary_hard_sphere: 40 % scatter at
        # q*R = 0.003); |I(q(1+eta)) - I(q)| beyond the smooth change eta*dI/dlnq is rounding noise of the kernel, not a
        # statement about units
        try:
            Ia, Ib = ev.I(pars, 1.0 / (1.0 + 4e-9)), ev.I(pars, 1.0 / (1.0 - 7e-9))
        except Exception:  # noqa
            Ia = Ib = I0
        with np.errstate(all="ignore"):
            ev.noise = np.maximum(np.abs(Ia - I0), np.abs(Ib - I0))
            ev.noise = np.where(np.isfinite(ev.noise), ev.noise, np.inf)
            ev.noisy = ev.noise > 1e-4 * np.abs(I0 - bg)
        if np.any(ev.noisy):
            r.branch("noisy-q-excluded", int(np.sum(ev.noisy)))
            r.branch("noisy:" + case["model"])
            if np.all(ev.noisy):
                r.inconc("kernel numerically noisy at every q of the set")
                continue
        nt = bool(np.any(np.abs(I0 - bg) > 0))
        r.branch("ratio-set")
        r.branch("ratio:" + label)
        if default_order is not None and (vals[0] < vals[1]) != default_order and vals[0] != vals[1]:
            r.branch("ratio-order-inverted")
        for lam in lams:
            _judge(r, ev, case, desc, pars, I0, lam, 1.0, decl, "lambda3", nt, reported, ctx)
        if has_sld and not ctx.quick:
            _judge(r, ev, case, desc, pars, I0, 1.0, MUS[0], decl, "mu2", nt, reported, ctx)
        if dim == "1d":
            # the min/max/diagonal branches of the effective-radius modes sit on the same ratios
            _judge_sizes(r, ev, case, desc, pars, decl, reported, ctx, lams=lams)
        ncalls += ev.ncalls
    if not ncalls:
        return r.ok(outcome="no-admissible-value", branches=["no-admissible-value"])
    r.trans = ncalls
    return r


def run_case(case, ctx):
    if "ratio" in case:
        return _run_ratio(case, ctx)
    if "matched" in case:
        return _run_matched(case, ctx)
    if case.get("units"):
        return _run_units(case, ctx)
    r = R()
    _SEARCH_DIR[0] = ctx.scratch
    m = build.model(case["model"])
    info = m.info
    dim = case["dim"]
    ev = Ev(m, dim)
    decl = declared(info)
    nfac = 2
    activated = case.get("base") == "activated"
    act = activation(ctx, info) if activated else {}

    def base_set():
        pars = defaults(info)
        pars.update(act)
        return pars
    # parameter sets of this case
    sets = []
    if case.get("small"):
        for v in small_counts(info)[case["vary"][0]]:
            pars = base_set()
            pars[case["vary"][0]] = v
            sets.append(pars)
    elif not case["vary"]:
        sets.append(base_set())
    else:
        for combo in itertools.product(range(nfac), repeat=len(case["vary"])):
            pars = base_set()
            ok = True
            for n, which in zip(case["vary"], combo):
                v = moved(ctx, info, n, which)
                if v is None:
                    ok = False
                    break
                pars[n] = v
            if ok and pars not in sets:
                sets.append(pars)
    if not sets:
        return r.ok(outcome="no-admissible-value", branches=["no-admissible-value"])
    fk0 = {"model": case["model"]}
    reported = set()
    for pars in sets:
        desc = "%s %s pars=%s" % (case["model"], dim, {k: v for k, v in sorted(pars.items())})
        try:
            I0 = ev.I(pars)
        except Exception as exc:  # noqa
            r.fail("%s: call_kernel raised %r" % (desc, exc), dict(fk0, clause="raises"))
            continue
        bg = pars["background"]
        if not np.all(np.isfinite(I0)):
            r.inconc("non-finite I at the unscaled point")
            continue
        # sensitivity of I-bg to each rescaled row (non-triviality + per-parameter vacuity counters)
        sens = {}
        for rid, u, names, ctl, p in rows(info):
            if u == SLD_UNIT or decl[rid] == 0:
                continue
            bumped = dict(pars)
            for n in names:
                bumped[n] = pars[n] * 1.03
            Ib = ev.I(bumped)
            with np.errstate(all="ignore"):
                s = bool(np.any(np.abs(Ib - I0) > 1e-6 * np.abs(I0 - bg)))
            sens[rid] = s
            r.branch(("sens:" if s else "insens:") + case["model"] + "." + rid)
        if case.get("small"):
            r.branch("count-small")
            r.branch("count-small:%s.%s" % (case["model"], case["vary"][0]))
            if pars[case["vary"][0]] == 1.0:
                r.branch("count-at-one")
        if activated:
            r.branch("activated-base")
            by_name = {n: (rid, ctl) for rid, u, names, ctl, p in rows(info) for n in names}
            for rid in sorted(set(by_name[n][0] for n in act)):
                bumped = dict(pars)
                for n in act:
                    if by_name[n][0] == rid:
                        bumped[n] = pars[n] * 1.3 + (1.0 if pars[n] >= 2 else 0.0)
                Ib = ev.I(bumped)
                with np.errstate(all="ignore"):
                    s = bool(np.any(np.abs(Ib - I0) > 1e-6 * np.abs(I0 - bg)))
                r.branch(("asens:" if s else "ainsens:") + case["model"] + "." + rid)
        nt_lam = any(sens.values())
        nt_mu = bool(np.any(np.abs(I0 - bg) > 0))
        for lam in LAMBDAS:
            _judge(r, ev, case, desc, pars, I0, lam, 1.0, decl, "lambda3", nt_lam, reported, ctx)
        if any(u == SLD_UNIT for _, u, _, _, _ in rows(info)):
            for mu in MUS:
                _judge(r, ev, case, desc, pars, I0, 1.0, mu, decl, "mu2", nt_mu, reported, ctx)
        # effective radius and volumes (1-D only: they do not depend on q)
        if dim == "1d":
            _judge_sizes(r, ev, case, desc, pars, decl, reported, ctx)
    r.trans = ev.ncalls
    return r


def _judge(r, ev, case, desc, pars, I0, lam, mu, decl, clause, nt, reported, ctx):
    try:
        res, d1, d0 = residual(ev, pars, lam, mu, decl, I0)
    except Exception as exc:  # noqa
        r.fail("%s lambda=%g mu=%g: call_kernel raised %r" % (desc, lam, mu, exc),
               {"model": case["model"], "clause": "raises"})
        return
    if res is None:
        r.inconc("non-finite I at the scaled point")
        return
    if res <= 1.0:
        r.ok(nt=nt, outcome="%s:%s:%s" % (clause, case["dim"], "nt" if nt else "flat"), branches=[clause + "-held"])
        if nt and not r.samples and clause == "lambda3":
            r.sample({"call": desc, "lambda": lam, "I-bg scaled": [float(v) for v in d1],
                      "lambda^3 (I-bg)": [float(v) for v in d0]})
        return
    with np.errstate(all="ignore"):
        ratio = d1 / d0
    text = ("%s\n  call_kernel(q/%g, pars rescaled by lambda=%g per declared unit, SLDs x %g) - bg = %s\n  expected %s = %s\n"
            "  observed/expected = %s"
            % (desc, lam, lam, mu, d1, "lambda^3 (I-bg)" if clause == "lambda3" else "mu^2 (I-bg)", d0, ratio))
    if clause != "lambda3":
        key = (clause, None)
        if key not in reported:
            reported.add(key)
            r.fail(text, {"model": case["model"], "clause": clause}, nt=nt)
        else:
            r.ok(nt=nt, outcome="FAIL-dup")
        return
    found = exponent_search(case["model"])
    hints, note = found["hints"], found["note"]
    if hints == ["ambiguous"]:
        # the search sets did not discriminate (a parameter that only matters in this combination):
        # keep the candidates that also satisfy their law at the failing parameter set itself
        keep = []
        for cand, power in found.get("pool", []):
            exps = dict(decl)
            exps.update(cand)
            good = True
            for l2 in (1.3, 0.5):
                try:
                    res2, _, _ = residual(ev.for_dim("1d"), pars, l2, 1.0, exps, None, power=power)
                except Exception:  # noqa
                    res2 = None
                if res2 is None or res2 > 1.0:
                    good = False
                    break
            if good:
                keep.append((cand, power))
        if len(keep) == 1 and keep[0][1] == 3:
            units = {rid: u for rid, u, _, _, _ in rows(ev.info)}
            diff = [rid for rid in sorted(keep[0][0]) if keep[0][0][rid] != decl[rid]]
            if diff:
                hints = diff
                note += ("; at THIS parameter set exactly one of them holds - UNIQUE repair: " + "; ".join(
                    "%s declared %r (lambda^%d) behaves as lambda^%d -> unit %s"
                    % (rid, units[rid], decl[rid], keep[0][0][rid], EXP_UNIT.get(keep[0][0][rid])) for rid in diff))
    text += "\n  " + note
    new = False
    for h in hints:
        key = (clause, h)
        if key not in reported:
            reported.add(key)
            new = True
            r.fail(text, {"model": case["model"], "clause": clause, "parameter-hint": h}, nt=nt,
                   branches=["exponent-search"])
    if not new:
        r.ok(nt=nt, outcome="FAIL-dup")


def _sizes(ev, pars, exps, mode, lam):
    """[(what, got, want, base)] for one mode and lambda"""
    R0, Vs0, Vf0 = ev.Fq(pars, mode)
    R1, Vs1, Vf1 = ev.Fq(rescale(ev.info, pars, lam, 1.0, exps), mode)
    out = []
    if Vf0 == 0.0 and Vf1 == 0.0:
        # the model declares the point invalid (zero total weight): nothing is reported
        return [("invalid-point", 0.0, 0.0, 0.0)]
    if mode <= 1:       # volumes do not depend on the mode: judged at modes 0 and 1
        if Vs0 == 1.0 and Vs1 == 1.0 and Vf0 == 1.0 and Vf1 == 1.0:
            out.append(("no-volume", 1.0, 1.0, 1.0))
        else:
            out.append(("shell_volume", Vs1, lam ** 3 * Vs0, Vs0))
            out.append(("form_volume", Vf1, lam ** 3 * Vf0, Vf0))
    if mode > 0:
        out.append(("radius_effective", R1, lam * R0, R0))
    return out


_SIZE_RTOL = [1e-12]


def _size_ok(got, want):
    return abs(got - want) <= _SIZE_RTOL[0] * abs(want) + 1e-300


def _judge_sizes(r, ev, case, desc, pars, decl, reported, ctx, lams=None):
    info = ev.info
    nmodes = len(info.radius_effective_modes or [])
    # closed-form volumes cancel for extreme ratios (capped_cylinder: 2e-12): 1e-9 in the ratio family
    _SIZE_RTOL[0] = 1e-9 if ev.q is not None else 1e-12
    for mode in range(0, nmodes + 1):
        for lam in (lams or LAMBDAS):
            try:
                checks = _sizes(ev, pars, decl, mode, lam)
            except Exception as exc:  # noqa
                r.fail("%s: call_Fq(mode=%d) raised %r" % (desc, mode, exc), {"model": case["model"], "clause": "raises"})
                return
            for what, got, want, base in checks:
                if what == "no-volume":
                    r.ok(outcome="no-volume", branches=["no-volume-reported"])
                    continue
                if what == "invalid-point":
                    r.ok(outcome="invalid-point", branches=["invalid-point"])
                    continue
                if not (np.isfinite(got) and np.isfinite(want)):
                    r.inconc("non-finite size output")
                    continue
                if _size_ok(got, want):
                    r.ok(nt=bool(base != 0), outcome=what, branches=[what + "-held"])
                    continue
                # which parameter?  the one whose relabelling restores I(q), if that also restores this output
                found = exponent_search(case["model"])
                hints = ["none"]
                if found["assign"] is not None and found["diff"]:
                    exps = dict(decl)
                    exps.update(found["assign"])
                    again = [c for c in _sizes(ev, pars, exps, mode, lam) if c[0] == what]
                    if again and _size_ok(again[0][1], again[0][2]):
                        hints = list(found["diff"])
                name = (" (%r)" % info.radius_effective_modes[mode - 1]) if mode else ""
                new = False
                for h in hints:
                    key = (what, h, mode if h == "none" and what == "radius_effective" else None)
                    if key in reported:
                        continue
                    reported.add(key)
                    new = True
                    fk = {"model": case["model"], "clause": what, "parameter-hint": h}
                    if key[2] is not None:
                        fk["mode"] = mode
                    r.fail("%s\n  call_Fq(pars rescaled by lambda=%g per declared unit, radius_effective_mode=%d%s): %s = %r, "
                           "expected lambda^%d * %r = %r\n  %s"
                           % (desc, lam, mode, name, what, got, 1 if what == "radius_effective" else 3, base, want,
                              found["note"]), fk)
                if not new:
                    r.ok(outcome="FAIL-dup")


# ------------------------------------------------------------------------------------------------
def _search_sets(info, free):
    """parameter sets that discriminate unit assignments: zero defaults of free rows are moved to 0.2 everywhere,
    then each free row in turn is moved by x0.71 / x1.37"""
    base = defaults(info)
    by_id = {rid: (names, p) for rid, u, names, ctl, p in rows(info)}
    for rid in free:
        names, p = by_id[rid]
        for n in names:
            if base[n] == 0.0 and p.limits[0] <= 0.2 <= p.limits[1]:
                base[n] = 0.2
    psets = [base]
    for k, rid in enumerate(free):
        alt = dict(base)
        for n in by_id[rid][0]:
            alt[n] = base[n] * (0.71, 1.37)[k % 2]
        psets.append(alt)
    # a set with the count-like parameters raised (their companions, e.g. a spacing disorder, only act for n >= 2)
    raised = dict(base)
    for n, v in activation(None, info).items():
        if v >= 2.0:
            raised[n] = v
    if raised != base:
        psets.append(raised)
    return psets


_SEARCH_DIR = [None]


@functools.lru_cache(maxsize=None)
def exponent_search(model_name):
    """per-process memo + per-run file memo (the search of an expensive model is done by one worker only)"""
    import json
    import os
    import time
    d = _SEARCH_DIR[0]
    if d is None:
        return _exponent_search(model_name)
    path = os.path.join(d, "c13-search-%s.json" % model_name)
    lock = path + ".lock"
    try:
        os.close(os.open(lock, os.O_CREAT | os.O_EXCL | os.O_WRONLY))
        mine = True
    except FileExistsError:
        mine = False
    if not mine:
        t0 = time.time()
        while time.time() - t0 < 300:
            if os.path.exists(path):
                with open(path) as fh:
                    return json.load(fh)
            time.sleep(0.05)
        return _exponent_search(model_name)       # the owner died: compute it here (same deterministic result)
    out = _exponent_search(model_name)
    with open(path + ".tmp", "w") as fh:
        json.dump(out, fh)
    os.replace(path + ".tmp", path)
    return out


def _exponent_search(model_name):
    """
    Enumerate unit-exponent assignments for the non-SLD, non-angle, non-control rows and keep those under which
    (I-bg) scales as lambda^k with one integer k in 0..6 at several parameter sets and lambda = 1.3, 0.5.
    k = 3 is the law; if no assignment gives k = 3 the survivors with k != 3 are reported (the model then contains
    an implicit length: its scale is not dimensionless).
    Result: {"hints": [...], "assign": {row: exponent} | None, "power": k, "diff": [rows relabelled], "note": text}
    """
    m = build.model(model_name)
    info = m.info
    ev = Ev(m, "1d")
    decl = declared(info)
    units = {rid: u for rid, u, _, _, _ in rows(info)}
    free = [rid for rid, u, names, ctl, p in rows(info)
            if u != SLD_UNIT and u not in ("degrees", "degree") and not ctl and not p.choices]
    psets = _search_sets(info, free)
    if len(free) <= 5:
        space = [dict(zip(free, combo)) for combo in itertools.product(SEARCH_EXPS, repeat=len(free))]
        bound = "all %d^%d assignments" % (len(SEARCH_EXPS), len(free))
    else:
        space = []
        for k in range(0, 3):
            for subset in itertools.combinations(free, k):
                alts = [[e for e in SEARCH_EXPS if e != decl[rid]] for rid in subset]
                for combo in itertools.product(*alts):
                    a = {rid: decl[rid] for rid in free}
                    a.update(zip(subset, combo))
                    space.append(a)
        bound = "all assignments <=2 of %d rows away from the declaration" % len(free)
    from sasmodels.direct_model import call_kernel
    I0s = [ev.I(p) for p in psets]
    bg = psets[0]["background"]
    # first stage on a single q point (cheap): the implied power must be an integer
    qs = Q1[1]
    ka, kb = m.make_kernel([np.array([qs])]), m.make_kernel([np.array([qs / 1.3])])
    with np.errstate(all="ignore"):
        d0 = float(call_kernel(ka, dict(psets[0]))[0]) - bg
    survivors = []
    for cand in space:
        exps = dict(decl)
        exps.update(cand)
        # implied power at the first parameter set, lambda = 1.3
        try:
            with np.errstate(all="ignore"):
                d1 = float(call_kernel(kb, rescale(info, psets[0], 1.3, 1.0, exps))[0]) - bg
        except Exception:  # noqa
            continue
        with np.errstate(all="ignore"):
            ratio = d1 / d0 if d0 != 0 else float("nan")
        if not (np.isfinite(ratio) and ratio > 0):
            continue
        pw = math.log(ratio) / math.log(1.3)
        power = int(round(pw))
        if abs(pw - power) > 1e-6 or not 0 <= power <= 6:
            continue
        good = True
        for pars, I0 in zip(psets, I0s):
            for lam in (1.3, 0.5):
                try:
                    res, _, _ = residual(ev, pars, lam, 1.0, exps, I0, power=power)
                except Exception:  # noqa
                    res = None
                if res is None or res > 1.0:
                    good = False
                    break
            if not good:
                break
        if good:
            survivors.append((cand, power))
    head = ("exponent search over rows %s (%s in {-2..3}, %d parameter sets, lambda 1.3 and 0.5): "
            % (free, bound, len(psets)))
    law = [s for s in survivors if s[1] == 3]
    pool = law or survivors
    out = {"hints": ["none"], "assign": None, "power": None, "diff": []}
    if len(pool) == 1:
        cand, power = pool[0]
        diff = [rid for rid in free if cand[rid] != decl[rid]]
        fix = "; ".join("%s declared %r (lambda^%d) behaves as lambda^%d -> unit %s"
                        % (rid, units[rid], decl[rid], cand[rid], EXP_UNIT.get(cand[rid])) for rid in diff)
        out.update(assign=cand, power=power, diff=diff)
        if power == 3:
            out["hints"] = diff or ["none"]
            out["note"] = head + ("UNIQUE repair: " + fix if diff else
                                  "the declared units are the unique assignment satisfying the law at the search sets")
        else:
            out["hints"] = diff + ["implicit-length"]
            out["note"] = (head + "no assignment gives lambda^3; UNIQUE consistent assignment gives (I-bg) ~ lambda^%d "
                           "(the model contains an implicit length^%d: its scale is not dimensionless)%s"
                           % (power, 3 - power, ("; relabel " + fix) if diff else ""))
        # do the size outputs follow the repaired assignment?
        exps = dict(decl)
        exps.update(cand)
        bad = []
        for mode in range(0, len(info.radius_effective_modes or []) + 1):
            for pars in psets[:2]:
                try:
                    for what, got, want, base in _sizes(ev, pars, exps, mode, 1.3):
                        if what not in ("no-volume", "invalid-point") and not _size_ok(got, want):
                            bad.append("%s%s" % (what, "[mode %d]" % mode if what == "radius_effective" else ""))
                except Exception:  # noqa
                    bad.append("call_Fq raises")
        if bad:
            out["note"] += "; under this assignment these outputs still do not scale: %s" % sorted(set(bad))
    elif not pool:
        out["note"] = head + "no assignment gives (I-bg) ~ lambda^k for an integer k"
    else:
        out["hints"] = ["ambiguous"]
        out["pool"] = [[c, p_] for c, p_ in pool[:64]]
        out["note"] = head + "%d assignments are consistent, e.g. %s" % (len(pool), pool[:3])
    return out


def finish(ctx, report):
    report.require("lambda3-held", 500, "lambda^3 law evaluated")
    report.require("mu2-held", 300, "mu^2 law evaluated")
    report.require("radius_effective-held", 200, "effective radius scaling evaluated")
    report.require("shell_volume-held", 200, "volume scaling evaluated")
    # fold the per-parameter sensitivity counters into two numbers and a list
    sens = set(k[5:] for k in report.branches if k.startswith("sens:"))
    insens = set(k[7:] for k in report.branches if k.startswith("insens:"))
    for k in [k for k in report.branches if k.startswith("sens:") or k.startswith("insens:")]:
        del report.branches[k]
    never = sorted(insens - sens)
    asens = set(k[6:] for k in report.branches if k.startswith("asens:"))
    ainsens = set(k[8:] for k in report.branches if k.startswith("ainsens:"))
    for k in [k for k in report.branches if k.startswith("asens:") or k.startswith("ainsens:")]:
        del report.branches[k]
    report.branches["activated-parameters-influencing-I"] = len(asens)
    report.coverage["activated_parameters_influencing_I"] = sorted(asens)
    report.coverage["activated_parameters_never_influencing_I"] = sorted(ainsens - asens)
    counts = sorted(k[12:] for k in report.branches if k.startswith("count-small:"))
    for k in [k for k in report.branches if k.startswith("count-small:")]:
        del report.branches[k]
    report.coverage["count_parameters_at_smallest_values"] = counts
    report.branches["count-parameters"] = len(counts)
    report.require("count-small", 20, "count parameters at their smallest meaningful values")
    report.require("count-at-one", 8, "count parameters equal to one")
    report.require("count-parameters", 8, "distinct count parameters moved to their smallest values")
    noisy = sorted(k[6:] for k in report.branches if k.startswith("noisy:"))
    for k in [k for k in report.branches if k.startswith("noisy:")]:
        del report.branches[k]
    report.coverage["models_with_numerically_noisy_q_points_excluded"] = noisy
    report.require("near-matched-held", 300, "mu^2 law with every contrast within a few 1e-2 .. 1e-6 of matching")
    report.require("units-agree", 1500, "unit strings compared between the tables")
    report.require("units-agree-vector-element", 200, "unit strings of expanded vector elements compared")
    report.require("ratio-set", 300, "parameter sets of the ratio family (pairs of lengths swapped / at 1/8..8, ratios inverted)")
    report.require("ratio-order-inverted", 100, "sets in which the order of two lengths is the opposite of the defaults")
    report.require("ratio:swap", 50, "pairs of lengths with their default values swapped")
    report.require("ratio:inverse", 3, "dimensionless ratio parameters inverted")
    report.require("activated-base", 50, "parameter sets on the activated base (zero defaults on, counts raised)")
    report.require("activated-parameters-influencing-I", 4, "activated parameters that influence I")
    report.branches["rescaled-parameters-exercised"] = len(sens)
    report.branches["rescaled-parameters-never-influencing-I"] = len(never)
    report.coverage["models"] = models()
    report.coverage["rescaled_parameters_never_influencing_I"] = never
    report.require("rescaled-parameters-exercised", 100, "length-typed parameters that influence I")
    if report.nt < 0.5 * max(report.evals, 1):
        report.vacuous.append("fewer than half of the evaluations are non-trivial (%d of %d)" % (report.nt, report.evals))

"""
C07 - P@S interaction models combine form and structure factor as documented, and kernel.results()
reports the intermediates actually used.

Space (E1, programs x inputs): EVERY (P, S) pair - the index arithmetic of ProductKernel depends on the
parameter counts of both - and per pair every combination of at most D dimensions off default:
radius_effective_mode 0..n, structure_factor_mode (beta), dispersity on the first / second dispersible P
parameter, dispersity on S.radius_effective, non-default S parameters, non-default P sizes, non-default
volume fraction, non-default user radius_effective, 1-D / 2-D, magnetic P (value slots after the mode slots).

Oracle: call_Fq on P ALONE (same dispersity, same magnetism) gives <F>, <F^2>, R_eff, V_shell,
V_form/V_shell; call_kernel on S ALONE with R_eff (user value for mode 0) and volfraction*ratio gives S;
recombination per the statement.  The P@S parameter names are obtained positionally from the combined table
(never by assuming the '_S' tag).  NaN on both sides (hayter_msa beyond its validity range) is agreement.
"""
import numpy as np

from .. import build, refmodel
from ..engine import R, HarnessError
from ..space import deviations

ID = "C07"
TITLE = "P@S interaction models combine form and structure factor as documented"
LEVEL = "model_checking"
ENGINE = "E1"
TECHNIQUE = ("exhaustive enumeration of all (P,S) programs x deviation-bounded parameter configurations; P@S and its "
             "results() are re-derived from call_Fq on P alone and call_kernel on S alone")
RULE = ("[dev] every (P,S) pair x every combination of <=D dimensions off default (ER mode, beta, P dispersity x2, "
        "S.radius_effective dispersity, S parameters, P sizes, volfraction, user radius_effective, 2-D, jitter, magnetic P); "
        "[vanish] P vanishing exactly (contrast matched; empty dispersity mesh) x every effective-radius mode x (1-D, 1-D beta, "
        "2-D): the result must be the background wherever S is finite (a non-finite result against a finite reference is "
        "a violation everywhere); [mesh] P meshes of 101, 132, 11x11, 12x11 points x every effective-radius mode x (1-D, 1-D beta, 2-D); "
        "[mixed] every pure-Python P x 4 S built with dtype='single' (P double, S single), default + each single deviation, "
        "judged by the usual recombination with the single-precision S evaluated alone (finite wherever that is); "
        "[reuse] one kernel object evaluated for A then B, B differing in exactly one setting, both orders, and A a "
        "refused evaluation (too many dispersed P parameters, magnetism on a pure-Python P, beta in 2-D); "
        "non-trivial = S(q) differs from 1 by >1e-6 at some q and the result is finite")
ASSUMPTIONS = [
    "meshes beyond the 100-point chunk of the DLL driver: P's averages come from single-point evaluations "
    "(refmodel.weighted_mean), not from call_Fq",
    "call_Fq on P alone (<F>, <F^2>, R_eff, V_shell, V_form/V_shell; decided by C01) and call_kernel on S alone are the reference",
    "scale, background = 1.7, 0.25 throughout; q on 4 fixed points (1-D) / 4 fixed points (2-D)",
    "for mode 0 with a dispersed S.radius_effective the reported radius may be the nominal value or the distribution mean",
    "rounding budget: 1e-11*sum|terms| plus 4x the largest change of S when R_eff or volfraction*ratio move by 1, 3, 8, 16 ulp; "
    "hayter_msa amplifies input rounding ~1e5 times",
    "DLL and pure-Python drivers only (no OpenCL/CUDA in the image)",
]
S_MODELS = ["hardsphere", "hayter_msa", "squarewell", "stickyhardsphere"]
QUICK_P = ["sphere", "cylinder", "core_multi_shell", "hollow_cylinder", "vesicle", "fractal", "pearl_necklace",
           "lamellar", "power_law", "adsorbed_layer", "parallelepiped"]
SLOW_P = {"pringle": 2, "superball": 3}      # thorough-tier bound for P whose 1-D form factor is a slow numerical integral
MESH_P_QUICK = ["sphere", "cylinder", "core_multi_shell", "hollow_cylinder", "vesicle", "pearl_necklace"]
MESH_ALTS = {"1x101": [101], "1x132": [132], "11x11": [11, 11], "12x11": [12, 11]}     # DLL driver chunks at 100
BOUNDS = {
    "quick": {"P": "all 74 models that are not structure factors", "S": S_MODELS, "D": 2, "D3_P": QUICK_P,
              "mesh_P": MESH_P_QUICK, "mesh_S": S_MODELS[:2], "mesh": list(MESH_ALTS), "reuse_P": QUICK_P},
    "thorough": {"P": "all 74 models that are not structure factors", "S": S_MODELS, "D": 4, "D_slow_P": SLOW_P,
                 "mesh_P": "every P with a dispersible parameter except the slow ones", "mesh_S": S_MODELS,
                 "mesh": list(MESH_ALTS), "reuse_P": "all"},
}
CASE_TIMEOUT = 300

SCALE, BACKGROUND = 1.7, 0.25
Q1 = [0.003, 0.011, 0.07, 0.31]
Q2 = [[0.004, 0.002], [0.05, 0.02], [-0.1, 0.13], [0.013, -0.3]]
S_ALT = {
    "hayter_msa": {"charge": 11.0, "temperature": 340.0, "concentration_salt": 0.05, "dielectconst": 60.0},
    "squarewell": {"welldepth": 0.9, "wellwidth": 1.45},
    "stickyhardsphere": {"perturb": 0.08, "stickiness": 0.35},
}


def p_models(ctx):
    from sasmodels import core
    return [m for m in core.list_models("all") if m not in S_MODELS]


def is_py(name):
    return callable(build.info(name).Iq)


def setup(ctx):
    names = [m for m in p_models(ctx) + S_MODELS if not is_py(m)]
    bad = build.prebuild(ctx, names)
    bad.update(build.prebuild(ctx, S_MODELS, dtype="single"))       # for the mixed-precision family
    if bad:
        raise HarnessError("models failed to build: %r" % bad)


def controls(info):
    return {p.length_control for p in info.parameters.kernel_parameters if p.length > 1 and p.length_control}


def disp_names(info):
    ctl = controls(info)
    out = []
    for p in info.parameters.call_parameters:
        if p.type == "volume" and p.name in info.parameters.pd_1d and p.name not in ctl:
            stem = p.name.rstrip("0123456789")
            if stem != p.name and p.name[len(stem):].isdigit() and int(p.name[len(stem):]) > 1 \
                    and any(k.id == stem and k.length > 1 for k in info.parameters.kernel_parameters):
                continue
            out.append(p.name)
    return out


def _dims(ctx, pname, sname):
    pinfo = build.info(pname)
    dims = []
    modes = pinfo.radius_effective_modes
    if modes is not None:
        dims.append(("er_mode", 1, [0] + list(range(2, len(modes) + 1))))
    if pinfo.have_Fq:
        dims.append(("beta", 0, [1]))
    dn = disp_names(pinfo)
    if len(dn) >= 1:
        dims.append(("pd1", None, [[dn[0], "gaussian", 3, 0.15]]))
    if len(dn) >= 2 and pinfo.parameters.max_pd >= 2:
        dims.append(("pd2", None, [[dn[1], "schulz", 4, 0.2]]))
    if "radius_effective" in build.info(sname).parameters.pd_1d:     # hardsphere declares it non-dispersible
        dims.append(("pdS", 0, [1]))
    if sname in S_ALT:
        dims.append(("Spars", 0, [1]))
    if any(p.type == "volume" for p in pinfo.parameters.call_parameters):
        dims.append(("Pnom", 1.0, [ctx.factor(0)]))
    dims.append(("vf", 1.0, [ctx.factor(1)]))
    dims.append(("reff", 50.0, [45.0 * (1.0 if ctx.seed == 0 else ctx.factor(2))]))
    dims.append(("dim", "1d", ["2d"]))
    if pinfo.parameters.orientation_parameters:
        dims.append(("opd", 0, [1]))          # jitter; acts in 2-D only
    if pinfo.parameters.nmagnetic and not is_py(pname):
        # pure-Python models refuse magnetism outright (finding of C06, not a P@S matter)
        dims.append(("mag", 0, [1]))
    return dims


def _default_cfg(ctx, p, s):
    return {d[0]: d[1] for d in _dims(ctx, p, s)}


def _vanish_alts(p):
    pinfo = build.info(p)
    alts = []
    if any(q.type == "sld" for q in pinfo.parameters.call_parameters) and p not in SLOW_P:
        alts.append("contrast")          # every SLD equal to the solvent's: <F>, <F^2> exactly zero
    if disp_names(pinfo):
        alts.append("empty")             # dispersity distribution wholly outside the limits: empty mesh
    return alts


def _vanish_cases(ctx, p, s):
    """P that vanishes exactly x every effective-radius mode x (1-D, 1-D beta, 2-D): the answer is the background"""
    pinfo = build.info(p)
    nmodes = len(pinfo.radius_effective_modes) if pinfo.radius_effective_modes is not None else 0
    variants = [("1d", 0)] + ([("1d", 1)] if pinfo.have_Fq else []) + [("2d", 0)]
    for alt in _vanish_alts(p):
        for mode in range(0, nmodes + 1):
            for dim, beta in variants:
                cfg = _default_cfg(ctx, p, s)
                cfg.update(vanish=alt, dim=dim)
                if nmodes:
                    cfg["er_mode"] = mode
                if pinfo.have_Fq:
                    cfg["beta"] = beta
                yield {"kind": "vanish", "P": p, "S": s, "cfg": cfg}


def _mesh_cases(ctx, p, s):
    """dispersity meshes beyond the 100-point chunk of the DLL driver x every effective-radius mode x (1-D, 1-D beta, 2-D)"""
    pinfo = build.info(p)
    dn = disp_names(pinfo)
    if not dn:
        return
    nmodes = len(pinfo.radius_effective_modes) if pinfo.radius_effective_modes is not None else 0
    variants = [("1d", 0)] + ([("1d", 1)] if pinfo.have_Fq else []) + [("2d", 0)]
    for alt, lengths in MESH_ALTS.items():
        if len(lengths) > len(dn) or len(lengths) > pinfo.parameters.max_pd:
            continue
        for mode in range(0, nmodes + 1):
            for dim, beta in variants:
                cfg = _default_cfg(ctx, p, s)
                cfg.update(mesh=alt, dim=dim)
                if nmodes:
                    cfg["er_mode"] = mode
                if pinfo.have_Fq:
                    cfg["beta"] = beta
                yield {"kind": "mesh", "P": p, "S": s, "cfg": cfg}


REUSE_CHANGES = ["P1", "Pnom", "pd1", "vf", "Spars", "reff", "er_mode", "beta"]


def _reuse_cases(ctx, p, s):
    """one kernel evaluated for A then B; B differs from A in exactly one setting (both orders)"""
    dims = {d[0]: d for d in _dims(ctx, p, s)}
    base = _default_cfg(ctx, p, s)
    pinfo = build.info(p)
    starts = [dict(base)]
    if "er_mode" in dims:
        starts.append(dict(base, er_mode=0))
        if len(dims["er_mode"][2]) > 1:
            starts.append(dict(base, er_mode=dims["er_mode"][2][1]))
    if "beta" in dims:
        starts.append(dict(base, beta=1))
    if "pd1" in dims:
        starts.append(dict(base, pd1=dims["pd1"][2][0]))
    starts.append(dict(base, dim="2d"))
    for a in starts:
        for ch in REUSE_CHANGES:
            b = dict(a)
            if ch == "P1":
                if not disp_names(pinfo):
                    continue
                b["P1"] = ctx.factor(4)
            elif ch == "er_mode":
                if ch not in dims:
                    continue
                b[ch] = 1 if a[ch] != 1 else (2 if 2 in dims[ch][2] else 0)
            elif ch not in dims:
                continue
            else:
                b[ch] = dims[ch][2][0] if a[ch] == dims[ch][1] else dims[ch][1]
            if b.get("beta") and b["dim"] == "2d":
                continue
            yield {"kind": "reuse", "P": p, "S": s, "change": ch, "A": a, "cfg": b}
            yield {"kind": "reuse", "P": p, "S": s, "change": ch, "A": b, "cfg": a}
    # ... and after an evaluation that is REFUSED (every reason reachable for this pair)
    for dim in ("1d", "2d"):
        ok_cfg = dict(base, dim=dim)
        active = pinfo.parameters.pd_1d if dim == "1d" else pinfo.parameters.pd_2d
        if len([q for q in pinfo.parameters.call_parameters if q.name in active]) > pinfo.parameters.max_pd:
            yield {"kind": "reuse", "P": p, "S": s, "change": "refused:too-many-dispersed", "refused": 1,
                   "A": dict(ok_cfg, pdmany=1), "cfg": ok_cfg}
        if pinfo.parameters.nmagnetic and is_py(p):
            yield {"kind": "reuse", "P": p, "S": s, "change": "refused:python-magnetism", "refused": 1,
                   "A": dict(ok_cfg, mag=1), "cfg": ok_cfg}
    if "beta" in dims:
        yield {"kind": "reuse", "P": p, "S": s, "change": "refused:beta-2d", "refused": 1,
               "A": dict(base, dim="2d", beta=1), "cfg": dict(base, dim="2d")}


def _mixed_cases(ctx):
    """pure-Python P (always double) @ S with the model built in single precision: P and S differ in precision"""
    for p in p_models(ctx):
        if not is_py(p):
            continue
        for s in S_MODELS:
            for k, c in deviations(_dims(ctx, p, s), 1):
                yield {"kind": "mixed", "P": p, "S": s, "dev": k, "cfg": c}


def cases(ctx):
    out = list(_mixed_cases(ctx))
    for p in p_models(ctx):
        if ctx.quick:
            D = 3 if p in QUICK_P else 2
        else:
            D = SLOW_P.get(p, 4)
        for s in S_MODELS:
            for k, c in deviations(_dims(ctx, p, s), D):
                out.append({"P": p, "S": s, "dev": k, "cfg": c})
            if (p in MESH_P_QUICK and s in S_MODELS[:2]) if ctx.quick else (p not in SLOW_P):
                out.extend(_mesh_cases(ctx, p, s))
            if p in QUICK_P or not ctx.quick:
                out.extend(_reuse_cases(ctx, p, s))
            out.extend(_vanish_cases(ctx, p, s))
    return out


# ------------------------------------------------------------------------------------------------
_KC = {}


def _q(dim):
    if dim == "2d":
        q = np.array(Q2, float)
        return [q[:, 0].copy(), q[:, 1].copy()]
    return [np.array(Q1, float)]


def _kernel(name, dim):
    key = (name, dim)
    if key not in _KC:
        _KC[key] = build.model(name).make_kernel(_q(dim))
    return _KC[key]


def _single_s_kernel(name, dim):
    key = (name, dim, "single")
    if key not in _KC:
        _KC[key] = _single_model(name).make_kernel(_q(dim))
    return _KC[key]


def s_name_map(ps_info):
    """{S parameter id: name in the P@S table}, by position in the combined table"""
    p_info, s_info = ps_info.composition[1]
    np_ = len(p_info.parameters.kernel_parameters)
    p_has_vf = "volfraction" in p_info.parameters
    s_list = [p for p in s_info.parameters.kernel_parameters if not (p.id == "volfraction" and p_has_vf)]
    comb = ps_info.parameters.kernel_parameters[np_:np_ + len(s_list)]
    if len(comb) != len(s_list):
        raise HarnessError("unexpected P@S table layout")
    out = {s.id: c.id for s, c in zip(s_list, comb)}
    if p_has_vf:
        out["volfraction"] = "volfraction"
    return out


def _p_defaults(info, factor):
    pars = {}
    ctl = controls(info)
    for p in info.parameters.call_parameters:
        if p.type == "magnetic" or p.name in ("scale", "background"):
            continue
        v = p.default
        if p.type == "volume" and p.name not in ctl and factor != 1.0 and np.isfinite(v):
            lo, hi = p.limits
            if lo <= v * factor <= hi:
                v = v * factor
        pars[p.name] = v
    for nm, v in (("theta", 50.0), ("phi", 25.0), ("psi", 15.0)):
        if nm in pars:
            pars[nm] = v
    return pars


def run_case(case, ctx):
    from sasmodels.direct_model import call_kernel
    r = R()
    kind = case.get("kind", "dev")
    if kind == "mixed":
        return _judge_mixed(r, case["P"], case["S"], case["cfg"])
    if kind != "reuse":
        return _judge(r, case["P"], case["S"], case["cfg"])
    # one kernel object, evaluated for A and then for B
    a_cfg, b_cfg = case["A"], case["cfg"]
    if a_cfg["dim"] != b_cfg["dim"]:
        raise HarnessError("reuse pair must share the q vectors")
    k_ps = build.model(case["P"] + "@" + case["S"]).make_kernel(_q(b_cfg["dim"]))
    pars_a = _pars(case["P"], case["S"], a_cfg)["pars"]
    try:
        call_kernel(k_ps, dict(pars_a))
    except Exception:  # noqa - the first evaluation is judged by the ordinary cases; only its after-effects matter here
        pass
    else:
        if case.get("refused"):
            return r.ok(outcome="not-refused", branches=["reuse:refusal-not-raised"])
    if case.get("refused"):
        r.branch("reuse-after-refusal")
        r.branch("reuse-after-" + case["change"])
    shown = {k: v for k, v in pars_a.items() if k_ps.info.parameters.defaults.get(k) != v}
    return _judge(r, case["P"], case["S"], b_cfg, k_ps=k_ps,
                  reuse=(case["change"], "same kernel object evaluated first with non-default pars=%s, then: " % shown))


# The distance between the dtype='single' build and the double build is NOT judged: single-precision structure
# factors are ill-conditioned at low q (squarewell at q=0.003 differs from its double twin by 5 %...40 % depending on
# radius_effective; an empirical bound measured on seeds 0-2 raised a false alarm at seeds 6 and 7) and the statement
# says nothing about precision.  The oracle is the recombination of P alone (double) with the SINGLE-precision S
# evaluated alone, which is sharp whatever the conditioning of S.
_SINGLE = {}


def _single_model(expr):
    from sasmodels import core
    if expr not in _SINGLE:
        _SINGLE[expr] = core.load_model(expr, dtype="single", platform="dll")
    return _SINGLE[expr]


def mixed_diff(pname, sname, cfg):
    """(pars, I from the single-precision build, I from the double build) of one configuration"""
    from sasmodels.direct_model import call_kernel
    st = _pars(pname, sname, cfg)
    expr, dim, pars = st["expr"], st["dim"], st["pars"]
    k_single = _single_model(expr).make_kernel(_q(dim))
    k_double = st["ps_model"].make_kernel(_q(dim))
    single = np.array(call_kernel(k_single, dict(pars)), float)
    double = np.array(call_kernel(k_double, dict(pars)), float)
    return st, k_single, single, double


def _judge_mixed(r, pname, sname, cfg):
    st, k_single, single, double = mixed_diff(pname, sname, cfg)
    expr = st["expr"]
    p_dtype, s_dtype = str(k_single.p_kernel.dtype), str(k_single.s_kernel.dtype)
    if p_dtype == s_dtype:
        raise HarnessError("%s built with dtype=single does not mix precisions (%s, %s)" % (expr, p_dtype, s_dtype))
    desc = ("load_model(%r, dtype='single') [P %s, S %s]; " % (expr, p_dtype, s_dtype)) + st["desc"]
    fk = {"model": expr, "clause": "mixed-precision"}
    br = ["mixed-precision", "mixed-precision:" + sname]
    r.branches.update(br)
    # sharp: P alone (double) recombined with the single-precision S alone; finite wherever that reference is finite
    return _judge(r, pname, sname, cfg, single=True)


def _pars(pname, sname, cfg):
    """the P@S parameter set of a configuration and everything the oracle needs to know about it"""
    expr = pname + "@" + sname
    dim = cfg["dim"]
    pinfo, sinfo = build.info(pname), build.info(sname)
    ps_model = build.model(expr)
    psinfo = ps_model.info
    smap = s_name_map(psinfo)
    p_has_vf = "volfraction" in pinfo.parameters
    modes = pinfo.radius_effective_modes
    have_er = modes is not None
    mode = int(cfg.get("er_mode", 0)) if have_er else 0
    beta = int(cfg.get("beta", 0)) if pinfo.have_Fq else 0
    br = []

    # ---- parameters of P (own names)
    ppars = _p_defaults(pinfo, cfg.get("Pnom", 1.0))
    dn = disp_names(pinfo)
    if cfg.get("P1", 1.0) != 1.0:
        par = pinfo.parameters[dn[0]] if dn[0] in pinfo.parameters else None
        v = ppars[dn[0]] * cfg["P1"]
        lo, hi = par.limits if par is not None else (0, np.inf)
        ppars[dn[0]] = v if lo <= v <= hi else ppars[dn[0]]
    vanish_pd = {}
    if cfg.get("vanish") == "contrast":
        slds = [q.name for q in pinfo.parameters.call_parameters if q.type == "sld"]
        solvent = [q for q in slds if "solvent" in q]
        for q in slds:
            ppars[q] = ppars[solvent[0] if solvent else slds[0]]
    elif cfg.get("vanish") == "empty":
        par = _call_par(pinfo, dn[0])
        lo = par.limits[0]
        centre = (lo if np.isfinite(lo) else 0.0) - abs(ppars[dn[0]]) - 1.0
        x, _ = refmodel.par_dist(par, "gaussian", 3, 0.1, 2.0, centre)
        if len(x) != 0 or not np.isfinite(lo):
            raise HarnessError("cannot empty the mesh of %s.%s" % (pname, dn[0]))
        ppars[dn[0]] = centre
        vanish_pd = {dn[0] + "_pd": 0.1, dn[0] + "_pd_n": 3, dn[0] + "_pd_type": "gaussian", dn[0] + "_pd_nsigma": 2.0}
    if p_has_vf:
        ppars["volfraction"] = pinfo.parameters["volfraction"].default * cfg["vf"]
    pd = {}
    for key in ("pd1", "pd2"):
        if cfg.get(key):
            nm, t, n, w = cfg[key]
            pd.update({nm + "_pd": w, nm + "_pd_n": n, nm + "_pd_type": t, nm + "_pd_nsigma": 2.5})
            br.append("P-dispersity")
    if cfg.get("pd1") and cfg.get("pd2"):
        br.append("P-dispersity-2")
    if cfg.get("pdmany"):
        active = pinfo.parameters.pd_1d if dim == "1d" else pinfo.parameters.pd_2d
        many = [q.name for q in pinfo.parameters.call_parameters if q.name in active][:pinfo.parameters.max_pd + 1]
        for nm in many:
            pd.update({nm + "_pd": 4.0 if nm in ("theta", "phi", "psi") else 0.05, nm + "_pd_n": 2,
                       nm + "_pd_type": "gaussian"})
    pd.update(vanish_pd)
    spec = {}        # explicit (type, n, width, nsigmas) per parameter for the single-point reference mean
    if cfg.get("mesh"):
        pd = {}
        for nm, n, (t, w) in zip(dn, MESH_ALTS[cfg["mesh"]], (("gaussian", 0.15), ("gaussian", 0.2))):
            pd.update({nm + "_pd": w, nm + "_pd_n": n, nm + "_pd_type": t, nm + "_pd_nsigma": 2.5})
            spec[nm] = (t, n, w, 2.5)
    if cfg.get("opd"):
        pd.update({"theta_pd": 10.0, "theta_pd_n": 3, "theta_pd_type": "gaussian", "theta_pd_nsigma": 2.0})
        if dim == "2d":
            br.append("P-orientation-dispersity-2d")
    mag = {}
    if cfg.get("mag"):
        sld = [p.name for p in pinfo.parameters.call_parameters if p.type == "sld"][0]
        mag = {sld + "_M0": 3.0, sld + "_mtheta": 30.0, sld + "_mphi": 50.0,
               "up_frac_i": 0.3, "up_frac_f": 0.8, "up_theta": 35.0, "up_phi": 60.0}
        br.append("magnetic-P-2d" if dim == "2d" else "magnetic-P-1d")
    # ---- parameters of S (own names)
    spars = {p.name: p.default for p in sinfo.parameters.call_parameters if p.name not in ("scale", "background")}
    if cfg.get("Spars"):
        spars.update(S_ALT[sname])
    vf = ppars["volfraction"] if p_has_vf else spars["volfraction"] * cfg["vf"]
    user_reff = float(cfg["reff"])
    s_pd = {}
    if cfg.get("pdS"):
        s_pd = {"radius_effective_pd": 0.12, "radius_effective_pd_n": 3, "radius_effective_pd_type": "gaussian",
                "radius_effective_pd_nsigma": 2.0}
        br.append("S-reff-dispersity" + ("-mode0" if mode == 0 else "-ignored"))

    # ---- P@S parameter set
    pars = dict(ppars)
    pars.update(pd)
    pars.update(mag)
    for sid, v in spars.items():
        if sid == "volfraction":
            if not p_has_vf:
                pars[smap[sid]] = vf
        elif sid == "radius_effective":
            pars[smap[sid]] = user_reff
        else:
            pars[smap[sid]] = v
    for k, v in s_pd.items():
        pars[k.replace("radius_effective", smap["radius_effective"])] = v
    if have_er:
        pars["radius_effective_mode"] = mode
    if pinfo.have_Fq:
        pars["structure_factor_mode"] = beta
    pars["scale"], pars["background"] = SCALE, BACKGROUND
    shown = {k: v for k, v in pars.items() if psinfo.parameters.defaults.get(k) != v}
    desc = "call_kernel(%s %s kernel q=%s, non-default pars=%s)" % (expr, dim, Q1 if dim == "1d" else Q2, shown)

    unknown = [k for k in pars if k not in psinfo.parameters.defaults and "_pd" not in k]
    if unknown:
        raise HarnessError("harness built unknown P@S parameters %r for %s" % (unknown, expr))
    return locals()


def _judge(r, pname, sname, cfg, k_ps=None, reuse=None, single=False):
    from sasmodels.direct_model import call_kernel, call_Fq
    st = _pars(pname, sname, cfg)
    expr, dim, pinfo, ps_model = st["expr"], st["dim"], st["pinfo"], st["ps_model"]
    p_has_vf, have_er, mode, beta = st["p_has_vf"], st["have_er"], st["mode"], st["beta"]
    ppars, pd, mag, spars, vf, user_reff, s_pd = (st[k] for k in ("ppars", "pd", "mag", "spars", "vf", "user_reff", "s_pd"))
    pars, desc, br, spec = st["pars"], st["desc"], st["br"], st["spec"]
    fk = {"model": expr}
    if reuse:
        fk["reuse"] = reuse[0]
        desc = reuse[1] + desc
        br.append("reuse")
        br.append("reuse:" + reuse[0])
    if single:
        fk["precision"] = "P double, S single"
        desc = "load_model(%r, dtype='single'); " % expr + desc
        k_ps = _single_model(expr).make_kernel(_q(dim))
    if k_ps is None:
        k_ps = ps_model.make_kernel(_q(dim))
    want_refusal = bool(beta and dim == "2d")
    try:
        impl = np.array(call_kernel(k_ps, dict(pars)), float)
    except NotImplementedError as exc:
        if want_refusal:
            return r.ok(nt=False, outcome="beta-2d-refused", branches=br + ["beta-2d-refused"])
        return r.fail("%s raised %r" % (desc, exc), dict(fk, clause="raises"), branches=br)
    except Exception as exc:  # noqa
        return r.fail("%s raised %r" % (desc, exc), dict(fk, clause="raises"), branches=br)
    if want_refusal:
        return r.fail("%s: beta approximation accepted for 2-D data (documented as not supported); result %s"
                      % (desc, impl), dict(fk, clause="beta-2d-accepted"), branches=br)
    with np.errstate(all="ignore"):
        results = k_ps.results()

    # ---- oracle: P alone
    k_p = _kernel(pname, dim)
    fq_pars = dict(ppars, scale=1.0, background=0.0)
    fq_pars.update(pd)
    fq_pars.update(mag)
    fq_pars["radius_effective_mode"] = mode
    if spec:
        # meshes beyond one driver chunk: P's averages from SINGLE-POINT evaluations (no chunked accumulation)
        disp = {nm: refmodel.par_dist(pinfo.parameters[nm] if nm in pinfo.parameters else _call_par(pinfo, nm),
                                      t, n, w, ns, ppars[nm]) for nm, (t, n, w, ns) in spec.items()}
        wm = refmodel.weighted_mean(k_p, dict(ppars, scale=1.0, background=0.0), disp, 0.0, mode=mode)
        F1, F2, reff_p, vshell, vratio = wm["F1"], wm["F2"], wm["reff"], wm["vshell"], wm["vratio"]
        npts = wm["npoints"]
        br.append("mesh>100" if npts > 100 else "mesh<=100")
        if npts > 100 and mode > 0:
            br.append("mesh>100-modeP")
            if pinfo.have_Fq and dim == "1d":
                br.append("mesh>100-modeP-Fq1d")
    else:
        F1, F2, reff_p, vshell, vratio = call_Fq(k_p, fq_pars)
    F2 = np.array(F2, float)
    F1 = None if F1 is None else np.array(F1, float)
    # ---- S alone
    k_s = _kernel(sname, dim) if not single else _single_s_kernel(sname, dim)
    reff_used = float(reff_p) if mode > 0 else user_reff
    s_call = dict(spars, scale=1.0, background=0.0)
    s_call["radius_effective"] = reff_used
    s_call["volfraction"] = vf * vratio
    if mode == 0:
        s_call.update(s_pd)
    Sq = np.array(call_kernel(k_s, s_call), float)
    # conditioning of S: R_eff and volfraction*ratio are weighted means whose last bits depend on the mesh
    # (e.g. ProductKernel has no `dim`, so call_kernel keeps orientation jitter active for 1-D P@S and the same
    # mean is accumulated over a larger mesh); hayter_msa amplifies one ulp of its inputs ~1e5 times.  The
    # propagated input rounding (largest response to 1..16 ulp input moves, x4) is part of the rounding budget.
    dS = np.zeros_like(Sq)
    ulp = 2.0 ** -52
    for m in (1, 3, 8, 16):
        for sr, sv in ((1, 0), (-1, 0), (0, 1), (0, -1)):
            pert = dict(s_call, radius_effective=reff_used * (1 + sr * m * ulp),
                        volfraction=vf * vratio * (1 + sv * m * ulp))
            with np.errstate(all="ignore"):
                d = np.abs(np.array(call_kernel(k_s, pert), float) - Sq)
            dS = np.maximum(dS, np.where(np.isfinite(d), d, 0.0))
    dS = 4.0 * dS
    pref = SCALE / vshell * (1.0 if p_has_vf else vf)
    if beta:
        if F1 is None:
            raise HarnessError("beta requested but P alone returns no <F>")
        ref = pref * (F2 + F1 ** 2 * (Sq - 1.0)) + BACKGROUND
        magn = abs(pref) * (np.abs(F2) + F1 ** 2 * (np.abs(Sq) + 1.0)) + abs(BACKGROUND)
        s_slack = abs(pref) * F1 ** 2 * dS
        br.append("beta")
    else:
        ref = pref * F2 * Sq + BACKGROUND
        magn = abs(pref) * np.abs(F2 * Sq) + abs(BACKGROUND)
        s_slack = abs(pref) * np.abs(F2) * dS
    br.append("mode-%s" % ("none" if not have_er else "0" if mode == 0 else "P"))
    if p_has_vf:
        br.append("volfraction-in-P")
    if vratio != 1.0:
        br.append("hollow-ratio")
        if reuse and mode == 0:
            br.append("reuse-hollow-mode0")
    if reuse and mode > 0 and reuse[0] in ("P1", "Pnom", "pd1"):
        br.append("reuse-P-changed-modeP")
    if is_py(pname):
        br.append("python-P")
    if dim == "2d":
        br.append("2d")
    if cfg.get("vanish"):
        if np.all(F2 == 0.0) and (F1 is None or np.all(F1 == 0.0)):
            br.append("vanishing-P")
            br.append("vanishing-P:" + cfg["vanish"])
            if beta:
                br.append("vanishing-P-beta")
            if np.all(np.isfinite(Sq)):
                br.append("vanishing-P-finite-S")       # the reference is then exactly the background
                if not np.all(ref == BACKGROUND):
                    raise HarnessError("reference for a vanishing P with finite S is not the background")
            else:
                br.append("vanishing-P-nonfinite-S")
        else:
            br.append("vanish-not-exact")
    both_nan = bool(np.all(np.isnan(impl)) and np.all(np.isnan(ref)))
    if both_nan:
        br.append("nan-both-sides")
    finite = bool(np.all(np.isfinite(ref)))
    nt = bool(finite and np.any(np.abs(Sq - 1.0) > 1e-6))
    info_line = ("\n  P alone: call_Fq(%s, mode=%d) -> <F^2>=%s <F>=%s R_eff=%r V_shell=%r ratio=%r\n  S alone: call_kernel(%s, %s) -> %s"
                 % (pname, mode, F2, F1, float(reff_p), float(vshell), float(vratio), sname,
                    {k: (float(v) if isinstance(v, (float, np.floating)) else v) for k, v in s_call.items()
                     if k not in ("scale", "background")}, Sq))
    with np.errstate(all="ignore"):
        bad_i = ~(np.abs(impl - ref) <= 1e-11 * np.maximum(magn, np.abs(ref)) + s_slack)
    bad_i &= ~(np.isnan(impl) & np.isnan(ref)) & ~(impl == ref)
    if np.any(s_slack > 1e-11 * magn):
        br.append("ill-conditioned-S")
    if bad_i.any():
        return r.fail("%s\n  impl=%s\n  ref =%s%s" % (desc, impl, ref, info_line),
                      dict(fk, clause="intensity", mode=mode, beta=beta), branches=br, nt=nt, trans=19)

    # ---- results(): the intermediates actually used
    def bad(clause, what, got, exp):
        r.fail("%s; kernel.results()[%r]=%s but the value actually used is %s%s" % (desc, what, got, exp, info_line),
               {"clause": "results-" + clause, "mode": mode if have_er else 0}, branches=br, nt=nt, count_eval=False)

    nfail0 = len(r.fails)
    need = ["P(Q)", "S(Q)", "volume", "volume_ratio", "radius_effective"] + (["beta(Q)", "S_eff(Q)"] if beta else [])
    missing = [k for k in need if k not in results]
    if missing:
        bad("missing", missing, "absent", "required by the statement")
    else:
        PQ = np.array(results["P(Q)"][1], float)
        SQ = np.array(results["S(Q)"][1], float)
        if not refmodel.close(PQ, pref * F2, rtol=1e-11)[0]:
            bad("P(Q)", "P(Q)", PQ, pref * F2)
        if not np.all((np.abs(SQ - Sq) <= 1e-11 * np.abs(Sq) + dS) | (np.isnan(SQ) & np.isnan(Sq)) | (SQ == Sq)):
            bad("S(Q)", "S(Q)", SQ, Sq)
        if not refmodel.close(results["volume"], vshell, rtol=1e-12)[0]:
            bad("volume", "volume", results["volume"], vshell)
        if not refmodel.close(results["volume_ratio"], vratio, rtol=1e-12)[0]:
            bad("volume_ratio", "volume_ratio", results["volume_ratio"], vratio)
        accept = [reff_used]
        if mode == 0 and s_pd:
            from sasmodels import weights as W
            x, w = W.get_weights("gaussian", 3, 0.12, 2.0, user_reff, (0, np.inf), True)
            accept.append(float(np.sum(x * w) / np.sum(w)))
        got = float(results["radius_effective"])
        if not any(refmodel.close(got, a, rtol=1e-12)[0] for a in accept):
            bad("radius_effective", "radius_effective", got, reff_used)
        if beta:
            with np.errstate(all="ignore"):
                b_ref = F1 ** 2 / F2
            if not refmodel.close(results["beta(Q)"][1], b_ref, rtol=1e-11)[0]:
                bad("beta(Q)", "beta(Q)", results["beta(Q)"][1], b_ref)
            seff = 1.0 + b_ref * (Sq - 1.0)
            se = np.array(results["S_eff(Q)"][1], float)
            with np.errstate(all="ignore"):
                se_ok = np.abs(se - seff) <= 1e-11 * (np.abs(b_ref) * (np.abs(Sq) + 1) + 1) + np.abs(b_ref) * dS
            if not np.all(se_ok | (np.isnan(se) & np.isnan(seff)) | (se == seff)):
                bad("S_eff(Q)", "S_eff(Q)", results["S_eff(Q)"][1], seff)
        # the reported pieces must reproduce the returned intensity
        with np.errstate(all="ignore"):
            recon = PQ * (np.array(results["S_eff(Q)"][1], float) if beta else SQ) + BACKGROUND
        if beta:
            # beta(Q) = <F>^2/<F^2> is 0/0 where the form factor vanishes (e.g. invalid geometry): nothing to recombine
            recon = np.where(F2 == 0.0, impl, recon)
        if not refmodel.close(recon, impl, magn, rtol=1e-11)[0]:     # same inputs on both sides: no S slack
            bad("recombine", "P(Q)*S(Q)+background", recon, impl)
    if len(r.fails) > nfail0:
        r.evals += 1
        r.nt += 1 if nt else 0
        r.trans += 19
        return r
    r.ok(nt=nt, outcome="%s:m%s:b%d:%s%s" % (dim, "-" if not have_er else min(mode, 2), beta,
                                             "nan" if both_nan else "fin", ":vfP" if p_has_vf else ""),
         trans=19, branches=br + ["results-checked"])
    if nt and not r.samples:
        r.sample({"call": desc, "impl": [float(v) for v in impl], "reference": [float(v) for v in ref],
                  "S_alone": [float(v) for v in Sq], "R_eff_used": reff_used, "volume_ratio": float(vratio)})
    return r


def _call_par(info, name):
    for p in info.parameters.call_parameters:
        if p.name == name:
            return p
    raise HarnessError("no parameter %s" % name)


def finish(ctx, report):
    report.require("vanishing-P-finite-S", 300, "P vanishing exactly, S finite: the answer is the background")
    report.require("vanishing-P-beta", 100, "... with the beta approximation")
    report.require("vanishing-P:contrast", 100, "contrast-matched P")
    report.require("vanishing-P:empty", 100, "empty dispersity mesh of P")
    report.require("mesh>100-modeP-Fq1d", 50, "P mesh beyond the 100-point driver chunk, R_eff from P, <F>/<F^2> kernel, 1-D")
    report.require("mesh>100-modeP", 100, "P mesh beyond the 100-point driver chunk, R_eff from P")
    report.require("mixed-precision", 200, "double-precision (pure-Python) P with single-precision S")
    for sname in S_MODELS:
        report.require("mixed-precision:" + sname, 40, "mixed precision with " + sname)
    report.require("reuse", 500, "second evaluation of one kernel object")
    report.require("reuse-P-changed-modeP", 50, "P size/dispersity changed between evaluations, R_eff from P")
    report.require("reuse-hollow-mode0", 20, "hollow P at mode 0 re-evaluated")
    for ch in REUSE_CHANGES:
        report.require("reuse:" + ch, 20, "re-evaluation after a change of " + ch)
    report.require("reuse-after-refusal", 40, "ordinary evaluation after a refused one on the same kernel")
    for reason in ("too-many-dispersed", "python-magnetism", "beta-2d"):
        report.require("reuse-after-refused:" + reason, 4, "refusal reason " + reason)
    report.require("results-checked", 100, "results() compared")
    report.require("beta", 50, "beta approximation")
    report.require("beta-2d-refused", 10, "beta in 2-D refused")
    report.require("mode-0", 20, "user-supplied effective radius (mode 0)")
    report.require("mode-P", 100, "effective radius from P")
    report.require("mode-none", 20, "P without effective-radius modes")
    report.require("volfraction-in-P", 20, "P owns volfraction")
    report.require("hollow-ratio", 20, "hollow P (V_form/V_shell != 1)")
    report.require("python-P", 10, "pure-Python P")
    report.require("P-dispersity-2", 10, "two dispersed P parameters")
    report.require("S-reff-dispersity-mode0", 10, "dispersed S.radius_effective used")
    report.require("S-reff-dispersity-ignored", 10, "dispersed S.radius_effective overridden by P")
    report.require("magnetic-P-2d", 10, "magnetic P in 2-D")
    report.require("2d", 50, "2-D data")
    report.require("P-orientation-dispersity-2d", 10, "jitter on an oriented P in 2-D")

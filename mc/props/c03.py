"""
C03 - resolution smearing is a normalised non-negative average with full support.

Space (full product inside each resolution class, nothing sampled):

  Pinhole1D : grid kind x n x first q x per-point sigma pattern x (default | user-supplied q_calc)
  Slit1D    : grid kind x n x first q x (length,width) shape x magnitude x (scalar | per-point)
              x (default | user-supplied q_calc)
  Pinhole2D : (sigma_par, sigma_perp) pattern x accuracy x ring radius; every ring has points in all four
              quadrants and on the four half-axes
  DirectModel: scale/background linearity and zero-width identity with real compiled models

One case = one constructed resolution object; every data point of it is judged on every clause.

Oracle (direct inspection, no smearing code shared): weights >= 0 and finite; column sums 1;
apply(const) == const; q_calc finite and > 0; [min, max] of q_calc contains the documented window of
every data point; zero-width points are exactly the unsmeared theory; construction raises nothing.
"""
import math
import warnings

import numpy as np

from .. import build
from .. import res_helpers as H
from ..engine import R, HarnessError

ID = "C03"
TITLE = "Resolution smearing is a normalised non-negative average with full support"
LEVEL = "model_checking"
ENGINE = "E1"
TECHNIQUE = ("exhaustive enumeration of the full product of a per-branch alphabet of q grids, widths and "
             "calculation grids per resolution class; every weight matrix / sampling cloud is inspected directly")
RULE = ("full product within each resolution class; one evaluation = one data point of one constructed "
        "resolution object judged on all clauses; non-trivial = the point's window contains >= 3 calculation "
        "points; distinct = distinct (class, grid, n, q0, width pattern, q_calc mode) tuples")
ASSUMPTIONS = [
    "documented windows: pinhole [q-2.5s, q+3s]; slit |q+v|<=W, 0<=u<=L; 2-D 3-sigma ellipse along q; "
    "negative q is folded onto |q| and |q| < 0.02*min(q) is deliberately not evaluated",
    "a user-supplied q_calc is legal when it contains the data q values and spans every window",
    "a deficit of a slit column sum is permitted up to the measure of the window below the first calculated q",
    "2-D: theory is centro-symmetric, so a cloud centred on -q is equivalent to one centred on +q; zero width is "
    "replaced by the documented 1e-10 and must reproduce the unsmeared value to 1e-10 relative",
    "real-valued inputs are represented by the finite alphabet listed under coverage.bounds; DLL driver only",
]
GRIDS = ["linear", "log", "irregular"]
ACCURACIES = ["low", "med", "high", "xhigh"]
SIG2D = ["zero", "tiny", "par>perp", "perp>par", "wide", "beyond-q", "edge-at-origin", "par-only", "perp-only",
         "mixed", "shared-iso"]
BOUNDS = {
    "quick": {"n": [1, 2, 3, 10, 100], "first_q": "1e-4, 1e-2 (x seed factor)", "span": H.SPAN,
              "grids": GRIDS, "pinhole_sigma": H.PINHOLE_WIDTHS, "slit_shapes": H.SLIT_SHAPES,
              "slit_magnitudes": H.SLIT_MAGS, "slit_vector": ["scalar", "per-point"],
              "q_calc": ["default", "user"], "accuracy": ACCURACIES, "sigma2d": SIG2D,
              "models": ["sphere", "cylinder"],
              "sigma_over_local_step": "pinhole, default q_calc, sigma = f x data step at the first / last point only, f in %s, "
                                       "n in (3, 10), all grid kinds" % H.STEP_FRACTIONS,
              "user_qcalc_order": "user q_calc stored descending / rotated / interleaved / data points first, n = 10, every "
                                  "pinhole pattern and slit family, against the ascending twin",
              "copy_round_trip": "copy.deepcopy and pickle of every resolution object (and DirectModel; a refusal to pickle "
                                 "the calculator is accepted), then apply: bit-identical",
              "reuse": "every object: inputs / data object / theory array compared bit for bit with copies after construction "
                       "and after apply(); apply() twice; second construction from the same inputs (1-D: n <= 30 or log "
                       "grid with default q_calc); Pinhole2D with index=None and a boolean index, and with dx and dy one "
                       "array object; DirectModel twice from one data object; data set B created between A and its use",
              "storage_order": "descending / rotated (cyclic shift n//3) / interleaved (two banks) against ascending, span 200: "
                               "pinhole and slit families with n in (2, 3, 10) (user q_calc for n = 10), every 2-D pixel list, "
                               "every DirectModel data kind"},
    "thorough": {"n": [1, 2, 3, 4, 10, 30, 100, 500], "first_q": "1e-4, 1e-2 (x seed factor)", "span": H.SPAN,
                 "grids": GRIDS, "pinhole_sigma": H.PINHOLE_WIDTHS, "slit_shapes": H.SLIT_SHAPES,
                 "slit_magnitudes": H.SLIT_MAGS, "slit_vector": ["scalar", "per-point"],
                 "q_calc": ["default", "user"], "accuracy": ACCURACIES, "sigma2d": SIG2D,
                 "models": ["sphere", "cylinder"],
                 "storage_order": "as quick with n in (2, 3, 4, 10, 30, 100) (user q_calc for n <= 30)"},
}
CASE_TIMEOUT = 300

CONST = 3.7


def setup(ctx):
    bad = build.prebuild(ctx, ["sphere", "cylinder"])
    if bad:
        raise HarnessError("models failed to build: %r" % bad)


def _q0s(ctx):
    base = [1e-4, 1e-2]
    if ctx.seed == 0:
        return base
    return [b * ctx.factor(k) for k, b in enumerate(base)]


def cases(ctx):
    ns = BOUNDS[ctx.tier]["n"]
    out = []
    for q0 in _q0s(ctx):
        for n in ns:
            for g in (GRIDS if n > 2 else ["linear"]):     # all kinds coincide for n <= 2
                for mode in ("default", "user"):
                    for w in H.PINHOLE_WIDTHS:
                        if n == 1 and w == "mixed":
                            continue                       # identical to "zero" for a single point
                        out.append({"kind": "pinhole", "grid": g, "n": n, "q0": q0, "width": w, "qcalc": mode})
                    for per in (False, True):
                        for shape in H.SLIT_SHAPES:
                            for mag in (H.SLIT_MAGS if shape != "zero" else ["small"]):
                                out.append({"kind": "slit", "grid": g, "n": n, "q0": q0, "shape": shape,
                                            "mag": mag, "per": per, "qcalc": mode})
    # sigma as a fraction of the local data step at the first / the last point (default q_calc): every rounding boundary of
    # the number of extension steps is bracketed
    for q0 in _q0s(ctx):
        for n in ([3, 10] if ctx.quick else [3, 10, 100]):
            for g in GRIDS:
                for side in ("first", "last"):
                    for f in H.STEP_FRACTIONS:
                        out.append({"kind": "pinhole", "grid": g, "n": n, "q0": q0, "width": "step:%s:%g" % (side, f),
                                    "qcalc": "default"})
    # a user-supplied q_calc that is not stored ascending
    for q0 in (_q0s(ctx)[:1] if ctx.quick else _q0s(ctx)):
        for n in ([10] if ctx.quick else [3, 10, 30]):
            for g in GRIDS:
                for qo in QCALC_ORDERS:
                    for w in H.PINHOLE_WIDTHS:
                        out.append({"kind": "pinhole", "grid": g, "n": n, "q0": q0, "width": w, "qcalc": "user", "qorder": qo})
                    for per in (False, True):
                        for shape in H.SLIT_SHAPES:
                            for mag in (H.SLIT_MAGS if shape != "zero" else ["small"]):
                                out.append({"kind": "slit", "grid": g, "n": n, "q0": q0, "shape": shape, "mag": mag,
                                            "per": per, "qcalc": "user", "qorder": qo})
    # storage order: the same points (with their own widths) stored descending / rotated / interleaved, span 200
    for q0 in _q0s(ctx):
        for n in ns:
            for g in (GRIDS if n > 2 else ["linear"]):
                if n >= (100 if ctx.quick else 500):
                    continue                      # quick: n in (2, 3, 10); thorough: n in (2, 3, 4, 10, 30, 100)
                for order in H.distinct_orders(n):
                    for mode in (("default", "user") if n == 10 or (not ctx.quick and n <= 30) else ("default",)):
                        for w in H.PINHOLE_WIDTHS:
                            out.append({"kind": "pinhole", "grid": g, "n": n, "q0": q0, "width": w, "qcalc": mode,
                                        "order": order, "span": H.ORDER_SPAN})
                        for per in (False, True):
                            for shape in H.SLIT_SHAPES:
                                for mag in (H.SLIT_MAGS if shape != "zero" else ["small"]):
                                    out.append({"kind": "slit", "grid": g, "n": n, "q0": q0, "shape": shape, "mag": mag,
                                                "per": per, "qcalc": mode, "order": order, "span": H.ORDER_SPAN})
    for q0 in _q0s(ctx):
        for acc in ACCURACIES:
            for sig in SIG2D:
                out.append({"kind": "p2d", "acc": acc, "sig": sig, "q0": q0 * 10})
                out.append({"kind": "p2d", "acc": acc, "sig": sig, "q0": q0 * 10, "index": "bool"})
                for order in H.ORDERS[1:]:
                    out.append({"kind": "p2d", "acc": acc, "sig": sig, "q0": q0 * 10, "order": order})
    for what in ("perfect", "pinhole", "pinhole-mixed", "slit-length", "slit-both", "slit-width", "slit-zero"):
        for q0 in _q0s(ctx):
            out.append({"kind": "linear", "what": what, "q0": q0 * 10})
    for acc in ACCURACIES:
        for sig in ("zero", "par>perp", "none"):
            out.append({"kind": "linear2d", "acc": acc, "sig": sig, "q0": _q0s(ctx)[1]})
    for what in DATA_KINDS:
        for sel in ("all", "masked"):
            for q0 in _q0s(ctx):
                out.append({"kind": "datamixin", "what": what, "select": sel, "q0": q0 * 10})
                for order in H.ORDERS[1:]:
                    out.append({"kind": "datamixin", "what": what, "select": sel, "q0": q0 * 10, "order": order,
                                "span": H.ORDER_SPAN})
    # interleaved construction of two data sets with different resolution (module / default-argument state)
    for dim in ("1d", "2d"):
        for ra in (0.0, 0.05, 0.2):
            for rb in (0.0, 0.05, 0.2):
                if ra != rb:
                    out.append({"kind": "interleave", "dim": dim, "res_a": ra, "res_b": rb, "q0": _q0s(ctx)[1]})
    return out


# ----------------------------------------------------------------------------------------------

def _theory(qc, qref):
    """a smooth, strictly positive 'unsmeared theory' used for the zero-width identity"""
    qc = np.asarray(qc, float)
    return 2.0 + np.cos(1.3 * qc / qref) / (1.0 + (qc / (7.0 * qref)) ** 2)


def _user_grid_linear(q, sig, n):
    """
    a legal user-supplied grid for pinhole data: nine points across the documented window of every data
    point (so it spans every window, on both sides of q = 0), two points around the data range, and the data
    points themselves.  Generated points that nearly coincide with a data point are dropped.
    """
    parts = [np.array([0.95 * q.min(), 1.05 * q.max()])]
    for qi, si in zip(q, sig):
        if si > 0:
            parts.append(np.linspace(qi - H.NSIG_LOW * si, qi + H.NSIG_HIGH * si, 9))
    g = np.concatenate(parts)
    keep = np.min(np.abs(g[:, None] - q[None, :]) - np.maximum(1e-6 * q, 1e-7)[None, :], axis=1) > 0
    return np.unique(np.concatenate([g[keep], q]))


def _user_grid_geometric(q, lo, hi, n):
    cut = H.MIN_ABS_Q * q.min()
    start = max(cut * 1.001, lo / 1.05)
    stop = hi * 1.05
    m = 4 * n + 60
    g = np.exp(np.linspace(math.log(start), math.log(stop), m))
    keep = np.min(np.abs(g[:, None] / q[None, :] - 1.0), axis=1) > 1e-6
    return np.unique(np.concatenate([g[keep], q]))


def _construct(r, fk, desc, fn):
    try:
        with warnings.catch_warnings():
            warnings.simplefilter("ignore")
            with np.errstate(all="ignore"):
                return fn()
    except HarnessError:
        raise
    except Exception as exc:  # noqa - "any legal width/length combination constructs without error"
        r.fail("%s raised %s: %s" % (desc, type(exc).__name__, exc),
               dict(fk, clause="raises", exception=type(exc).__name__), branches=["raised"])
        return None


class Judge(object):
    """collects at most one failure per clause for one constructed object"""

    def __init__(self, r, fk, desc):
        self.r, self.fk, self.desc = r, fk, desc
        self.failed = set()

    def bad(self, clause, msg, **extra):
        if clause == "inputs-modified":
            # Not a violation of this property: its statement says what the smeared values are, not that the objects
            # handed in stay untouched (on the unchanged tree Pinhole2D(data, index=None) clamps zero widths of the
            # caller's dqx_data/dqy_data to 1e-10 in place).  Consequences that the statement does cover are judged
            # by the second-use / shared-state clauses; the modification itself is only counted in the evidence.
            self.r.branches["observation:inputs-modified:%s" % extra.get("what", "?")] += 1
            return
        if clause in self.failed:
            return
        self.failed.add(clause)
        self.r.fail("%s: %s" % (self.desc, msg), dict(self.fk, clause=clause, **extra), count_eval=False)


def _judge_matrix(r, fk, desc, res, q, sig_zero, windows, allowed_deficit, qref, cancel=None):
    """
    the clauses common to Pinhole1D and Slit1D.  sig_zero[i]: data point i has zero width;
    windows[i] = (lo, hi) of |q'|; allowed_deficit[i] >= 0.
    """
    n = len(q)
    J = Judge(r, fk, desc)
    W = np.asarray(res.weight_matrix)
    qc = np.asarray(res.q_calc, float)
    cut = H.MIN_ABS_Q * q.min()
    if W.shape != (len(qc), n):
        J.bad("shape", "weight_matrix shape %s for %d calculation and %d data points" % (W.shape, len(qc), n))
        r.ok(n=n, outcome="shape")
        return
    if not np.all(np.isfinite(qc)) or np.any(qc <= 0):
        j = int(np.argmin(np.where(np.isfinite(qc), qc, -np.inf)))
        J.bad("qcalc-positive", "q_calc[%d] = %r is not strictly positive" % (j, qc[j]))
    if not np.all(np.isfinite(W)):
        i = int(np.argmax(~np.all(np.isfinite(W), axis=0)))
        J.bad("finite", "non-finite weights for data point %d (q=%r)" % (i, q[i]))
    elif W.min() < 0:
        j, i = np.unravel_index(int(np.argmin(W)), W.shape)
        J.bad("nonneg", "weight %r < 0 for q=%r at q_calc=%r" % (W[j, i], q[i], qc[j]))
    # column sums / constant
    with np.errstate(all="ignore"):
        s = W.sum(axis=0)
        flat = np.asarray(res.apply(np.full(len(qc), CONST)), float)
        theory = _theory(qc, qref)
        smeared = np.asarray(res.apply(theory), float)
    tol0 = 1e-13 + 4 * H.EPS * len(qc)
    check_support = fk.get("qcalc") == "default"
    _u = np.unique(qc)
    lo_gap = float(_u[1] - _u[0]) if len(_u) > 1 else 0.0
    lo_step, hi_step = H.end_steps(qc)
    nt = 0
    branches = set()
    for i in range(n):
        lo, hi = windows[i]
        # rounding budget: the slit bins are differences q'^2 - q^2 of magnitude L^2 (DESIGN 2.5: eps * sum|terms|)
        tol = tol0 + (8 * H.EPS * cancel[i] if cancel is not None else 0.0)
        d = 1.0 - s[i]
        if not (-tol <= d <= allowed_deficit[i] + tol):      # also catches NaN
            J.bad("colsum", "weights of data point %d (q=%r) sum to %r, expected 1 (permitted deficit %.3g)"
                  % (i, q[i], s[i], allowed_deficit[i]))
        dc = CONST - flat[i] if flat.shape == (n,) else float("nan")
        if not (-tol * CONST <= dc <= (allowed_deficit[i] + tol) * CONST):
            J.bad("const", "apply(constant %r)[%d] = %r at q=%r" % (CONST, i, flat[i] if flat.shape == (n,) else flat, q[i]))
        if allowed_deficit[i] > 0:
            branches.add("deficit-permitted")
        # support: the midpoint-rule bins reach both ends of the window, i.e. the calculation grid comes to within half
        # its own end spacing of them (a window that is folded at 0 / cut at 0.02 q_min: within one interleaved spacing)
        need_lo = max(lo, cut)
        if not check_support:
            pass      # a user-supplied grid is only filtered and folded; spanning is the caller's duty
        elif qc.min() > need_lo * (1 + 1e-12) + (lo_step if lo <= cut * (1 + 1e-9) else 0.5 * lo_gap):
            J.bad("support", "data point %d (q=%r): window starts at %r (cut %r) but min(q_calc) = %r"
                  % (i, q[i], lo, cut, qc.min()), end="low")
        if check_support and qc.max() < hi * (1 - 1e-12) - 0.5 * hi_step:
            J.bad("support", "data point %d (q=%r): window ends at %r but max(q_calc) = %r"
                  % (i, q[i], hi, qc.max()), end="high")
        inside = int(np.sum((qc >= lo * (1 - 1e-12)) & (qc <= hi * (1 + 1e-12))))
        if inside >= 3:
            nt += 1
        if lo == 0.0:
            branches.add("window-reaches-zero")
        if sig_zero[i]:
            branches.add("zero-width-point")
            hit = np.nonzero(qc == q[i])[0]
            if len(hit) == 0:
                J.bad("zero-width", "zero-width data point %d (q=%r) is not among q_calc" % (i, q[i]))
            elif not (smeared.shape == (n,) and smeared[i] == theory[hit[0]]):
                J.bad("zero-width", "zero-width data point %d (q=%r): smeared %r != unsmeared %r"
                      % (i, q[i], smeared[i] if smeared.shape == (n,) else smeared, theory[hit[0]]))
    if len(qc) > n:
        branches.add("extended")
    r.ok(nt=nt, n=n, outcome="%s:%s" % (fk.get("class"), "ok" if not J.failed else ",".join(sorted(J.failed))),
         trans=1, branches=sorted(branches))
    if nt and not J.failed and not r.samples:
        r.sample({"call": desc, "n_calc": int(len(qc)), "q_calc_range": [float(qc.min()), float(qc.max())],
                  "colsum_range": [float(s.min()), float(s.max())]})


def _fmt(v):
    if np.isscalar(v):
        return repr(float(v))
    v = np.asarray(v)
    if len(v) <= 4:
        return "array(%s)" % (", ".join(repr(float(x)) for x in v))
    return "array([%r, %r, ..., %r] n=%d)" % (float(v[0]), float(v[1]), float(v[-1]), len(v))


def _reuse(r, fk, desc, make, inputs, before, res, theory_of, second=True):
    """
    "inputs are not modified" and "second use" for one resolution object `res` = make() built from `inputs`
    (a dict of the very arrays handed to the constructor, or the data object), `before` = H.snapshot(inputs) taken
    before the first construction:
      * after construction and after every apply(), every array / attribute reachable from the inputs and the theory
        array handed to apply() are bit-identical to their copies;
      * apply() twice on the SAME theory array gives bit-identical results;
      * make() a second time from the SAME inputs gives bit-identical q_calc, weights and results.
    """
    J = Judge(r, fk, desc)

    def inputs_ok(stage):
        names = H.changed(before, inputs)
        if names:
            J.bad("inputs-modified", "%s changed the caller's %s (%s)"
                  % (stage, ", ".join(names[:4]), "; ".join(H.describe_change(before, inputs, k) for k in names[:2])),
                  stage=stage.split()[0], what=names[0].split(".")[-1].split("[")[0])
    inputs_ok("construction")
    qc = res.q_calc
    th = np.ascontiguousarray(theory_of(qc), float)
    th0 = th.copy()
    with np.errstate(all="ignore"):
        o1 = np.array(res.apply(th), float)
        if not np.array_equal(th, th0):
            k = int(np.argmax(th != th0))
            J.bad("inputs-modified", "apply() changed the theory array it was given: element %d was %r, is %r"
                  % (k, th0.ravel()[k], th.ravel()[k]), stage="apply", what="theory")
            th = th0.copy()
        inputs_ok("apply()")
        o2 = np.array(res.apply(th), float)
    if o1.shape != o2.shape or not np.array_equal(o1, o2, equal_nan=True):
        k = int(np.argmax(o1 != o2)) if o1.shape == o2.shape else 0
        J.bad("second-use", "apply() on the same theory array gives %r the first time and %r the second time (data point %d)"
              % (o1[k] if o1.shape == o2.shape else o1.shape, o2[k] if o1.shape == o2.shape else o2.shape, k), what="apply")
    branches = ["reuse:apply-twice"]
    # copy round trip (what a parallel fit does): the copy smears the theory exactly as the original
    for how, twin, refusal in H.copy_round_trips(res):
        if twin is None:
            J.bad("copy", "%s of the resolution object failed: %s" % (how, refusal), how=how, what="refused")
            continue
        with np.errstate(all="ignore"):
            try:
                oc = np.array(twin.apply(th0.copy()), float)
            except Exception as exc:  # noqa
                J.bad("copy", "the %s copy cannot be applied: %s: %s" % (how, type(exc).__name__, exc), how=how, what="raises")
                continue
        if oc.shape != o1.shape or not np.array_equal(oc, o1, equal_nan=True):
            k = int(np.argmax(oc != o1)) if oc.shape == o1.shape else 0
            J.bad("copy", "the %s copy smears data point %d to %r, the original to %r"
                  % (how, k, oc[k] if oc.shape == o1.shape else oc.shape, o1[k]), how=how, what="result")
        branches.append("copy:" + how)
    if second:
        res2 = _construct(r, dict(fk, use="second"), desc + " [second construction from the same inputs]", make)
        if res2 is not None:
            a = [np.asarray(v, float) for v in (qc if isinstance(qc, (list, tuple)) else [qc])]
            b = [np.asarray(v, float) for v in (res2.q_calc if isinstance(res2.q_calc, (list, tuple)) else [res2.q_calc])]
            w1 = getattr(res, "weight_matrix", getattr(res, "q_calc_weights", None))
            w2 = getattr(res2, "weight_matrix", getattr(res2, "q_calc_weights", None))
            if len(a) != len(b) or any(x.shape != y.shape or not np.array_equal(x, y, equal_nan=True) for x, y in zip(a, b)):
                J.bad("second-use", "a second object built from the same inputs calculates other q values: first %s..., "
                      "second %s..." % (a[0][:3], b[0][:3]), what="q_calc")
            elif (w1 is None) != (w2 is None) or (w1 is not None and not np.array_equal(np.asarray(w1), np.asarray(w2), equal_nan=True)):
                J.bad("second-use", "a second object built from the same inputs has other weights", what="weights")
            else:
                with np.errstate(all="ignore"):
                    o3 = np.array(res2.apply(th0.copy()), float)
                if o3.shape != o1.shape or not np.array_equal(o1, o3, equal_nan=True):
                    k = int(np.argmax(o1 != o3)) if o3.shape == o1.shape else 0
                    J.bad("second-use", "a second object built from the same inputs smears data point %d to %r, the first to %r"
                          % (k, o3[k] if o3.shape == o1.shape else o3.shape, o1[k]), what="result")
            inputs_ok("second construction")
            branches.append("reuse:second-construction")
    r.ok(nt=True, outcome="reuse:%s" % ("ok" if not J.failed else "FAILED"), trans=3, branches=branches)


QCALC_ORDERS = ["descending", "rotated", "interleaved", "data-first"]


def _qcalc_order(name, qcalc, q):
    """the user-supplied grid in another storage order; "data-first" = np.hstack([data points, the other points])"""
    if name == "data-first":
        extra = qcalc[~np.isin(qcalc, q)]
        return np.concatenate([np.asarray(q, float), extra])
    return qcalc[H.order_perm(name, len(qcalc))]


def _qcalc_twin(r, fk, desc, res, make_twin, qref, name):
    """a user-supplied q_calc in another order: same set of calculated q, and the same smeared value of a theory
    evaluated at the object's own q_calc, as the twin built from the ascending grid"""
    J = Judge(r, fk, desc)
    twin = _construct(r, dict(fk, qorder="ascending"), desc + " [q_calc ascending]", make_twin)
    if twin is None:
        return
    qc, qt = np.asarray(res.q_calc, float), np.asarray(twin.q_calc, float)
    if qc.shape != qt.shape or not np.array_equal(np.sort(qc), np.sort(qt)):
        J.bad("qcalc-order", "the set of calculated q depends on the order of the supplied q_calc (%d vs %d points)"
              % (len(qc), len(qt)), what="q_calc")
    else:
        with np.errstate(all="ignore"):
            got = np.asarray(res.apply(_theory(qc, qref)), float)
            want = np.asarray(twin.apply(_theory(qt, qref)), float)
        if got.shape != want.shape or np.any(~(np.abs(got - want) <= (1e-13 + 4 * H.EPS * len(qt)) * np.abs(want))):
            k = int(np.nanargmax(np.abs(got - want))) if got.shape == want.shape else 0
            J.bad("qcalc-order", "data point %d: theory evaluated at the object's q_calc smears to %r; with the same q_calc "
                  "supplied in ascending order it smears to %r" % (k, got[k] if got.shape == want.shape else got.shape, want[k]),
                  what="apply")
    r.ok(nt=True, n=len(qt), outcome="qcalc-order:%s" % ("ok" if not J.failed else "FAILED"), trans=1,
         branches=["qcalc-order:" + name])


def _order_of(case, n):
    """(order name or None, permutation, span) of a case; ascending cases keep the historical span"""
    order = case.get("order")
    if not order or order == "ascending":
        return None, np.arange(n), case.get("span", H.SPAN)
    return order, H.order_perm(order, n), case.get("span", H.ORDER_SPAN)


def _equivariance(r, fk, desc, res, make_ascending, p, qref, order):
    """
    storage order: the same data points stored in another order (with their own widths) must give, point by point,
    the same calculation grid, the same weights and the same smeared value as the ascending data set.  On the
    unchanged tree q_calc and the weight matrix are bit-identical (q is sorted before it is extended; every column
    depends on its own point); the smeared value is a BLAS dot product whose last bit depends on the column position,
    so it is compared to the rounding tolerance of the column sums (1e-13 + 4 eps n_calc, relative).
    """
    J = Judge(r, dict(fk, order=order), desc)
    ref = _construct(r, dict(fk, order="ascending"), desc + " [same points stored ascending]", make_ascending)
    if ref is None:
        return
    qc, qa = np.asarray(res.q_calc, float), np.asarray(ref.q_calc, float)
    if qc.shape != qa.shape or not np.array_equal(qc, qa):
        J.bad("storage-order", "q_calc depends on the storage order: %d points %r..%r, the same data stored ascending "
              "give %d points %r..%r" % (len(qc), qc.min() if len(qc) else None, qc.max() if len(qc) else None,
                                         len(qa), qa.min(), qa.max()), what="q_calc")
    else:
        W, Wa = np.asarray(res.weight_matrix), np.asarray(ref.weight_matrix)
        th = _theory(qa, qref)
        with np.errstate(all="ignore"):
            got, want = np.asarray(res.apply(th), float), np.asarray(ref.apply(th), float)[p]
        if W.shape != Wa[:, p].shape or not np.array_equal(W, Wa[:, p]):
            k = int(np.argmax(np.any(W != Wa[:, p], axis=0))) if W.shape == Wa[:, p].shape else 0
            J.bad("storage-order", "weights of stored point %d (ascending index %d) differ from those of the same point in "
                  "the ascending data set" % (k, p[k]), what="weights")
        elif got.shape != want.shape or np.any(~(np.abs(got - want) <= (1e-13 + 4 * H.EPS * len(qa)) * np.abs(want))):
            k = int(np.nanargmax(np.abs(got - want))) if got.shape == want.shape else 0
            J.bad("storage-order", "smeared value of stored point %d is %r, the same point in the ascending data set "
                  "gives %r" % (k, got[k] if got.shape == want.shape else got.shape, want[k]), what="apply")
    r.ok(nt=len(p), n=len(p), outcome="order:%s" % ("ok" if not J.failed else "FAILED"), trans=1,
         branches=["order:" + order])


def run_pinhole(case, ctx, r):
    from sasmodels import resolution
    order, p, span = _order_of(case, case["n"])
    qa = H.qgrid(case["grid"], case["n"], case["q0"], span)
    if case["width"].startswith("step"):
        # sigma = f x the local data step at the first / last point only (all other points have zero width): brackets the
        # rounding of the number of extension steps of the default grid
        _, side, f = case["width"].split(":")
        siga = np.zeros(len(qa))
        k = 0 if side == "first" else len(qa) - 1
        siga[k] = float(f) * (qa[1] - qa[0] if side == "first" else qa[-1] - qa[-2])
    else:
        siga = H.pinhole_sigma(case["width"], qa)
    q, sig = qa[p], siga[p]                  # widths travel with their points
    n = len(q)
    fk = {"class": "Pinhole1D", "width": case["width"], "qcalc": case["qcalc"]}
    if order:
        fk["order"] = order
    qcalc = None if case["qcalc"] == "default" else _user_grid_linear(q, sig, n)
    qcalc_sorted = qcalc
    if case.get("qorder"):
        qcalc = _qcalc_order(case["qorder"], qcalc, q)
        fk["qorder"] = case["qorder"]
    desc = ("Pinhole1D(q=%s(q0=%r, n=%d%s), q_width=<%s> %s, q_calc=%s)"
            % (case["grid"], case["q0"], n, ", span %g, stored %s" % (span, order) if order else "", case["width"],
               _fmt(sig), "None" if qcalc is None else _fmt(qcalc)))
    inputs = {"q": q.copy(), "q_width": sig.copy(), "q_calc": None if qcalc is None else qcalc.copy()}
    before = H.snapshot(inputs)
    make = lambda: resolution.Pinhole1D(inputs["q"], inputs["q_width"], q_calc=inputs["q_calc"])
    res = _construct(r, fk, desc, make)
    if res is None:
        return
    _reuse(r, fk, desc, make, inputs, before, res, lambda qc: _theory(qc, case["q0"]),
           second=n <= 30 or (case["grid"] == "log" and qcalc is None))
    windows = [H.pinhole_window(q[i], sig[i]) for i in range(n)]
    _judge_matrix(r, fk, desc, res, q, sig == 0, windows, np.zeros(n), case["q0"])
    r.branch("pinhole:" + (case["width"] if not case["width"].startswith("step") else "step"))
    if case.get("qorder"):
        _qcalc_twin(r, fk, desc + " [q_calc stored %s]" % case["qorder"], res,
                    lambda: resolution.Pinhole1D(q.copy(), sig.copy(), q_calc=qcalc_sorted.copy()), case["q0"], case["qorder"])
    if order:
        qcalc_a = None if qcalc is None else _user_grid_linear(qa, siga, n)
        _equivariance(r, fk, desc, res, lambda: resolution.Pinhole1D(qa.copy(), siga.copy(), q_calc=qcalc_a), p,
                      case["q0"], order)


def run_slit(case, ctx, r):
    from sasmodels import resolution
    order, p, span = _order_of(case, case["n"])
    qa = H.qgrid(case["grid"], case["n"], case["q0"], span)
    n = len(qa)
    La, Wa = H.slit_LW(case["shape"], case["mag"], case["per"], qa)      # scalars refer to the ascending set
    q = qa[p]
    L = La if np.isscalar(La) else La[p]
    W = Wa if np.isscalar(Wa) else Wa[p]
    Lv, Wv = H.as_vec(L, n), H.as_vec(W, n)
    fk = {"class": "Slit1D", "shape": case["shape"], "qcalc": case["qcalc"]}
    if order:
        fk["order"] = order
    windows = [H.slit_window(q[i], Lv[i], Wv[i]) for i in range(n)]
    lo_all = min(w[0] for w in windows)
    hi_all = max(w[1] for w in windows)
    qcalc = None if case["qcalc"] == "default" else _user_grid_geometric(q, lo_all, hi_all, n)
    qcalc_sorted = qcalc
    if case.get("qorder"):
        qcalc = _qcalc_order(case["qorder"], qcalc, q)
        fk["qorder"] = case["qorder"]
    desc = ("Slit1D(q=%s(q0=%r, n=%d%s), q_length=%s, q_width=%s, q_calc=%s) [%s/%s/%s]"
            % (case["grid"], case["q0"], n, ", span %g, stored %s" % (span, order) if order else "", _fmt(L), _fmt(W),
               "None" if qcalc is None else _fmt(qcalc), case["shape"], case["mag"],
               "per-point" if case["per"] else "scalar"))
    inputs = {"q": q.copy(), "q_length": L if np.isscalar(L) else L.copy(), "q_width": W if np.isscalar(W) else W.copy(),
              "q_calc": None if qcalc is None else qcalc.copy()}
    before = H.snapshot(inputs)
    make = lambda: resolution.Slit1D(inputs["q"], q_length=inputs["q_length"], q_width=inputs["q_width"],
                                     q_calc=inputs["q_calc"])
    res = _construct(r, fk, desc, make)
    if res is None:
        return
    _reuse(r, fk, desc, make, inputs, before, res, lambda qc: _theory(qc, case["q0"]),
           second=n <= 30 or (case["grid"] == "log" and qcalc is None))
    # permitted deficit: measure of the window below the first calculated q (only when the window reaches it)
    qc = np.asarray(res.q_calc, float)
    x0 = float(np.min(qc)) if len(qc) and np.all(np.isfinite(qc)) else float("nan")
    allowed = np.zeros(n)
    for i in range(n):
        if Wv[i] > 0 and q[i] - Wv[i] < x0 * (1 + 1e-12):
            frac_v = min(1.0, x0 / Wv[i])            # share of v with |q+v| < x0 (both signs)
            if Lv[i] > 0:
                # inner integral loses at most min(1, x0/L); the documented 61-point rule in v may put
                # 2 of its 61 points inside |q+v| < x0 even when the continuous share is smaller
                allowed[i] = min(1.0, x0 / Lv[i]) * min(1.0, frac_v + 2.0 / 61.0)
            else:
                allowed[i] = frac_v
    # rounding budget: bins are differences of magnitude L^2 between squares of magnitude (q+W)^2 (length) and
    # differences of magnitude W between clipped edges of magnitude q+W (width)
    cancel = np.maximum(np.where(Lv > 0, ((q + Wv) / np.where(Lv > 0, Lv, 1.0)) ** 2, 0.0),
                        np.where(Wv > 0, (q + Wv) / np.where(Wv > 0, Wv, 1.0), 0.0))
    _judge_matrix(r, fk, desc, res, q, (Lv == 0) & (Wv == 0), windows, allowed, case["q0"], cancel)
    r.branch("slit:" + case["shape"])
    r.branch("slit-mag:" + case["mag"])
    if case.get("qorder"):
        _qcalc_twin(r, fk, desc + " [q_calc stored %s]" % case["qorder"], res,
                    lambda: resolution.Slit1D(q.copy(), q_length=L if np.isscalar(L) else L.copy(),
                                              q_width=W if np.isscalar(W) else W.copy(), q_calc=qcalc_sorted.copy()),
                    case["q0"], case["qorder"])
    if order:
        qcalc_a = None if qcalc is None else _user_grid_geometric(qa, lo_all, hi_all, n)
        _equivariance(r, fk, desc, res,
                      lambda: resolution.Slit1D(qa.copy(), q_length=La if np.isscalar(La) else La.copy(),
                                                q_width=Wa if np.isscalar(Wa) else Wa.copy(), q_calc=qcalc_a),
                      p, case["q0"], order)


# ----------------------------------------------------------------------------------------------
# 2-D

DIRS = [0, 45, 90, 135, 180, 225, 270, 315, 20, 110, 200, 290]   # axes, diagonals, one generic per quadrant


def _sig2d(name, qr):
    z = np.zeros_like(qr)
    if name == "zero":
        return z.copy(), z.copy()
    if name == "tiny":
        return 1e-3 * qr, 1e-3 * qr
    if name == "par>perp":
        return 0.1 * qr, 0.04 * qr
    if name == "perp>par":
        return 0.04 * qr, 0.1 * qr
    if name == "wide":
        return 0.5 * qr, 0.2 * qr
    if name == "beyond-q":
        return 1.2 * qr, 0.3 * qr
    if name == "edge-at-origin":       # the outermost ring of the 'low' accuracy cloud (2.5 sigma) lands on q = 0
        return qr / 2.5, 0.1 * qr
    if name == "par-only":
        return 0.1 * qr, z.copy()
    if name == "perp-only":
        return z.copy(), 0.1 * qr
    if name == "shared-iso":           # one array object serves as dqx_data and as dqy_data
        return 0.08 * qr, 0.08 * qr
    if name == "mixed":
        a, b = 0.1 * qr, 0.05 * qr
        a[0::2] = 0.0
        b[1::3] = 0.0
        return a, b
    raise ValueError(name)


def _points2d(q0):
    ang = np.radians(np.array(DIRS, float))
    rad = np.concatenate([np.full(len(DIRS), q0), np.full(len(DIRS), 7.0 * q0)])
    ang = np.concatenate([ang, ang])
    qx, qy = rad * np.cos(ang), rad * np.sin(ang)
    # exact zeros on the axes
    for k, d in enumerate(DIRS + DIRS):
        if d in (90, 270):
            qx[k] = 0.0
        if d in (0, 180):
            qy[k] = 0.0
    return qx, qy


def run_p2d(case, ctx, r):
    from sasmodels import resolution2d
    from sasmodels.data import Data2D
    qx_a, qy_a = _points2d(case["q0"])
    qr_a = np.sqrt(qx_a ** 2 + qy_a ** 2)
    spar_a, sperp_a = _sig2d(case["sig"], qr_a)
    order, perm, _ = _order_of(case, len(qx_a))
    qx, qy, qr, spar, sperp = qx_a[perm], qy_a[perm], qr_a[perm], spar_a[perm], sperp_a[perm]
    fk = {"class": "Pinhole2D", "sigma": case["sig"], "accuracy": case["acc"], "index": case.get("index", "none")}
    if order:
        fk["order"] = order
    desc = ("Pinhole2D(Data2D(x=ring(q0=%r and 7*q0; directions %s deg%s), dx=<%s> %s, dy=%s%s), index=%s, accuracy=%r)"
            % (case["q0"], DIRS, "; pixel list stored %s" % order if order else "", case["sig"], _fmt(spar), _fmt(sperp),
               " (dx and dy are the same array object)" if case["sig"] == "shared-iso" else "",
               "None" if case.get("index", "none") == "none" else "<every pixel but each third one>", case["acc"]))
    # ONE data object, handed to every construction (the caller's arrays, not copies)
    dx_in = spar.copy()
    dy_in = dx_in if case["sig"] == "shared-iso" else sperp.copy()
    data = Data2D(x=qx.copy(), y=qy.copy(), dx=dx_in, dy=dy_in)
    index = None
    if case.get("index", "none") == "bool":
        index = np.arange(len(qx)) % 3 != 1
        qx, qy, qr, spar, sperp = qx[index], qy[index], qr[index], spar[index], sperp[index]
        qx_a = qy_a = None                     # (no storage-order variant with an index)
    n = len(qx)
    inputs = {"data": data, "index": index}
    before = H.snapshot(inputs)

    def make():
        return resolution2d.Pinhole2D(data=data, index=index, nsigma=3.0, accuracy=case["acc"])
    res = _construct(r, fk, desc, make)
    if res is None:
        return
    _reuse(r, fk, desc, make, inputs, before, res,
           lambda qc: _theory(np.sqrt(np.asarray(qc[0], float) ** 2 + np.asarray(qc[1], float) ** 2), case["q0"]))
    J = Judge(r, fk, desc)
    cx, cy = [np.asarray(v, float) for v in res.q_calc]
    w = res.q_calc_weights
    if w is None or len(cx) % n or len(cx) != len(cy):
        J.bad("shape", "q_calc lengths %d/%d for %d data points, weights %r" % (len(cx), len(cy), n, w))
        r.ok(n=n, outcome="shape")
        return
    w = np.asarray(w, float)
    nb = len(cx) // n
    cx, cy = cx.reshape(nb, n), cy.reshape(nb, n)
    if w.shape != (nb,) or not np.all(np.isfinite(w)):
        J.bad("finite", "q_calc_weights shape %s / non-finite" % (w.shape,))
    elif w.min() < 0 or w.sum() <= 0:
        J.bad("nonneg", "negative weight %r" % w.min())
    cq = np.sqrt(cx ** 2 + cy ** 2)
    if not np.all(np.isfinite(cq)):
        k, i = np.unravel_index(int(np.argmax(~np.isfinite(cq))), cq.shape)
        J.bad("finite", "non-finite calculation point for data point %d (qx=%r, qy=%r)" % (i, qx[i], qy[i]))
        r.ok(n=n, outcome="nonfinite")
        return
    if np.any(cq <= 0):
        k, i = np.unravel_index(int(np.argmin(cq)), cq.shape)
        J.bad("qcalc-positive", "|q_calc| = %r for data point %d (qx=%r, qy=%r, sigma_par=%r)"
              % (cq[k, i], i, qx[i], qy[i], spar[i]))
    with np.errstate(all="ignore"):
        flat = np.asarray(res.apply(np.full(nb * n, CONST)), float)
        th = _theory(cq, case["q0"])
        sm = np.asarray(res.apply(th.flatten()), float)
    wsum = (w[:, None] * th).sum(axis=0) / w.sum() if w.shape == (nb,) else np.full(n, np.nan)
    se_par = np.maximum(spar, 1e-10)
    se_perp = np.maximum(sperp, 1e-10)
    reach = 2.25
    nt = 0
    br = set()
    for i in range(n):
        if not (flat.shape == (n,) and abs(flat[i] - CONST) <= 1e-13 * CONST):
            J.bad("const", "apply(constant %r)[%d] = %r" % (CONST, i, flat[i] if flat.shape == (n,) else flat))
        if not (sm.shape == (n,) and abs(sm[i] - wsum[i]) <= 1e-13 * abs(wsum[i])):
            J.bad("average", "apply(theory)[%d] = %r is not the normalised weighted sum %r of the weights"
                  % (i, sm[i] if sm.shape == (n,) else sm, wsum[i]))
        # cloud geometry in the local (parallel, perpendicular) frame
        mx, my = cx[:, i].mean(), cy[:, i].mean()
        sgn = 1.0 if (mx * qx[i] + my * qy[i]) >= 0 else -1.0
        if sgn < 0:
            br.add("centred-on-minus-q")
        scale = qr[i] + se_par[i] + se_perp[i]
        if math.hypot(mx - sgn * qx[i], my - sgn * qy[i]) > 1e-9 * scale:
            J.bad("support", "cloud of data point %d is centred on (%r, %r), data point is (%r, %r)"
                  % (i, mx, my, qx[i], qy[i]), end="centre")
            continue
        ux, uy = sgn * qx[i] / qr[i], sgn * qy[i] / qr[i]
        dpar = (cx[:, i] - sgn * qx[i]) * ux + (cy[:, i] - sgn * qy[i]) * uy
        dperp = -(cx[:, i] - sgn * qx[i]) * uy + (cy[:, i] - sgn * qy[i]) * ux
        slack = 1e-9 * qr[i]     # rounding of q_r*cos/sin against widths as small as 1e-10
        rho = np.sqrt((np.abs(dpar) - slack).clip(0) ** 2 / se_par[i] ** 2
                      + (np.abs(dperp) - slack).clip(0) ** 2 / se_perp[i] ** 2)
        if rho.max() > 3.0 * (1 + 1e-9):
            J.bad("support", "data point %d: a calculation point lies at %.4f sigma, outside the 3-sigma ellipse"
                  % (i, rho.max()), end="outside")
        if spar[i] > 0 and (dpar.max() < reach * spar[i] - slack or dpar.min() > -reach * spar[i] + slack):
            J.bad("support", "data point %d: cloud spans [%.3f, %.3f] sigma_par along q, expected beyond +-%.2f"
                  % (i, dpar.min() / spar[i], dpar.max() / spar[i], reach), end="parallel")
        if sperp[i] > 0 and (dperp.max() < reach * sperp[i] - slack or dperp.min() > -reach * sperp[i] + slack):
            J.bad("support", "data point %d: cloud spans [%.3f, %.3f] sigma_perp across q, expected beyond +-%.2f"
                  % (i, dperp.min() / sperp[i], dperp.max() / sperp[i], reach), end="perpendicular")
        if spar[i] == 0 and sperp[i] == 0:
            br.add("zero-width-point")
            ref = float(_theory(np.array([qr[i]]), case["q0"])[0])
            if not (sm.shape == (n,) and abs(sm[i] - ref) <= 1e-10 * abs(ref)):
                J.bad("zero-width", "zero-width data point %d (qx=%r, qy=%r): smeared %r, unsmeared %r"
                      % (i, qx[i], qy[i], sm[i], ref))
        else:
            nt += 1
        if spar[i] * 2.5 > qr[i]:
            br.add("window-reaches-zero")
    r.ok(nt=nt, n=n, outcome="Pinhole2D:%s" % ("ok" if not J.failed else ",".join(sorted(J.failed))),
         branches=sorted(br) + ["p2d:" + case["acc"]])
    if not J.failed and not r.samples:
        r.sample({"call": desc, "bins_per_point": int(nb), "weights": [float(v) for v in w[:4]]})
    if order:
        def make_a():
            d = Data2D(x=qx_a.copy(), y=qy_a.copy(), dx=spar_a.copy(), dy=sperp_a.copy())
            return resolution2d.Pinhole2D(data=d, index=None, nsigma=3.0, accuracy=case["acc"])
        ref = _construct(r, dict(fk, order="ascending"), desc + " [original pixel order]", make_a)
        if ref is not None:
            J2 = Judge(r, fk, desc)
            ax, ay = [np.asarray(v, float).reshape(nb, n) for v in ref.q_calc]
            if not (np.array_equal(cx, ax[:, perm]) and np.array_equal(cy, ay[:, perm])):
                J2.bad("storage-order", "the sampling cloud of a pixel depends on its position in the pixel list", what="q_calc")
            else:
                with np.errstate(all="ignore"):
                    want = np.asarray(ref.apply(_theory(np.sqrt(ax ** 2 + ay ** 2), case["q0"]).flatten()), float)[perm]
                if sm.shape != want.shape or np.any(~(np.abs(sm - want) <= 1e-13 * np.abs(want))):
                    k = int(np.nanargmax(np.abs(sm - want))) if sm.shape == want.shape else 0
                    J2.bad("storage-order", "smeared value of stored pixel %d is %r, the same pixel in the original list "
                           "gives %r" % (k, sm[k], want[k]), what="apply")
            r.ok(nt=n, n=n, outcome="order-p2d", trans=1, branches=["order:" + order])


# ----------------------------------------------------------------------------------------------
# scale / background linearity and zero-width identity through DirectModel

SCALE, BACKGROUND = 0.37, 2.5


def _linear_check(r, fk, desc, calc, pars, unsmeared=None):
    J = Judge(r, fk, desc)
    with warnings.catch_warnings():
        warnings.simplefilter("ignore")
        base = np.asarray(calc(scale=1.0, background=0.0, **pars), float)
        full = np.asarray(calc(scale=SCALE, background=BACKGROUND, **pars), float)
        only_bg = np.asarray(calc(scale=1.0, background=BACKGROUND, **pars), float)
    if not (np.all(np.isfinite(base)) and np.all(np.isfinite(full))):
        J.bad("finite", "non-finite theory: %s" % base[:5])
    else:
        tol = 1e-12 * (np.abs(SCALE * base) + BACKGROUND)
        if np.any(np.abs(full - (SCALE * base + BACKGROUND)) > tol):
            i = int(np.argmax(np.abs(full - (SCALE * base + BACKGROUND)) - tol))
            J.bad("linear", "I(scale=%r, background=%r)[%d] = %r but scale*I(1,0)+background = %r"
                  % (SCALE, BACKGROUND, i, full[i], SCALE * base[i] + BACKGROUND))
        if np.any(np.abs(only_bg - (base + BACKGROUND)) > 1e-12 * (np.abs(base) + BACKGROUND)):
            i = int(np.argmax(np.abs(only_bg - (base + BACKGROUND))))
            J.bad("linear", "I(1, background=%r)[%d] = %r but I(1,0)+background = %r"
                  % (BACKGROUND, i, only_bg[i], base[i] + BACKGROUND))
        if unsmeared is not None:
            idx, ref = unsmeared
            if not np.array_equal(base[idx], ref[idx]):
                k = int(np.nonzero(base[idx] != ref[idx])[0][0])
                J.bad("zero-width", "zero-width point: smeared %r != unsmeared %r" % (base[idx][k], ref[idx][k]))
    nt = int(np.sum(base > 0)) if np.all(np.isfinite(base)) else 0
    r.ok(nt=nt, n=len(base), trans=3, outcome="linear:%s" % ("ok" if not J.failed else ",".join(sorted(J.failed))),
         branches=["linear:" + fk["what"]])


def run_linear(case, ctx, r):
    from sasmodels.data import Data1D
    from sasmodels.direct_model import DirectModel, call_kernel
    model = build.model("sphere")
    q = H.qgrid("log", 12, case["q0"])
    what = case["what"]
    fk = {"class": "DirectModel", "what": what}
    data = Data1D(x=q.copy())
    data.dxl = data.dxw = None
    zero_idx = None
    if what == "perfect":
        pass
    elif what == "pinhole":
        data.dx = 0.1 * q
    elif what == "pinhole-mixed":
        data.dx = H.pinhole_sigma("mixed", q)
        zero_idx = data.dx == 0
    elif what == "slit-length":
        data.dx = None
        data.dxl, data.dxw = np.full(len(q), 0.9 * q[3]), None
    elif what == "slit-both":
        data.dxl, data.dxw = np.full(len(q), 0.9 * q[3]), np.full(len(q), 0.2 * q[0])
    elif what == "slit-width":
        data.dxl, data.dxw = None, np.full(len(q), 0.5 * q[0])
    elif what == "slit-zero":
        data.dxl, data.dxw = np.zeros(len(q)), np.zeros(len(q))
        zero_idx = np.ones(len(q), bool)
    pars = {"radius": 0.35 / case["q0"], "sld": 2.0, "sld_solvent": 5.5}
    desc = "DirectModel(Data1D(x=log(q0=%r, n=12), %s), sphere)(radius=%r)" % (case["q0"], what, pars["radius"])
    calc = _construct(r, fk, desc, lambda: DirectModel(data, model, cutoff=0.0))
    if calc is None:
        return
    unsm = None
    if zero_idx is not None:
        kernel = model.make_kernel([q])
        ref = np.asarray(call_kernel(kernel, dict(pars, scale=1.0, background=0.0)), float)
        unsm = (zero_idx, ref)
    try:
        _linear_check(r, fk, desc, calc, pars, unsm)
    except HarnessError:
        raise
    except Exception as exc:  # noqa
        r.fail("%s raised %s: %s" % (desc, type(exc).__name__, exc),
               dict(fk, clause="raises", exception=type(exc).__name__))


def run_linear2d(case, ctx, r):
    from sasmodels.data import Data2D
    from sasmodels.direct_model import DirectModel
    model = build.model("cylinder")
    qx, qy = _points2d(case["q0"])
    qr = np.sqrt(qx ** 2 + qy ** 2)
    fk = {"class": "DirectModel", "what": "2d-" + case["sig"], "accuracy": case["acc"]}
    if case["sig"] == "none":
        data = Data2D(x=qx.copy(), y=qy.copy())
    else:
        a, b = _sig2d(case["sig"], qr)
        data = Data2D(x=qx.copy(), y=qy.copy(), dx=a, dy=b)
    data.accuracy = case["acc"]
    pars = {"radius": 0.2 / case["q0"], "length": 0.9 / case["q0"], "theta": 60.0, "phi": 25.0}
    desc = ("DirectModel(Data2D(ring q0=%r, sigma=<%s>, accuracy=%r), cylinder)(radius=%r, length=%r, theta=60, phi=25)"
            % (case["q0"], case["sig"], case["acc"], pars["radius"], pars["length"]))
    calc = _construct(r, fk, desc, lambda: DirectModel(data, model, cutoff=0.0))
    if calc is None:
        return
    try:
        _linear_check(r, fk, desc, calc, pars)
    except HarnessError:
        raise
    except Exception as exc:  # noqa
        r.fail("%s raised %s: %s" % (desc, type(exc).__name__, exc),
               dict(fk, clause="raises", exception=type(exc).__name__))


# ----------------------------------------------------------------------------------------------
# the resolution DirectModel builds from a data object has the support and weights of the data's own widths

DATA_KINDS = ["dx-zero", "dx-positive", "dx-mixed", "dx-positive-on-excluded-only", "dx-none",
              "slit-length", "slit-width", "slit-both", "slit-zero", "slit-mixed",
              "2d-positive", "2d-mixed", "2d-zero", "2d-none"]


def _reuse_direct(r, fk, desc, data, before, model, calc, pars, got):
    """DirectModel: the data object is left as it was; a second call and a second DirectModel from the SAME data object
    give bit-identical values"""
    from sasmodels.direct_model import DirectModel
    J = Judge(r, fk, desc)
    names = H.changed(before, data)
    if names:
        J.bad("inputs-modified", "DirectModel construction / evaluation changed the caller's data object: %s"
              % "; ".join(H.describe_change(before, data, k) for k in names[:3]), stage="direct",
              what=names[0].split(".")[-1].split("[")[0])
    with warnings.catch_warnings():
        warnings.simplefilter("ignore")
        again = np.asarray(calc(**pars), float)
        second = np.asarray(DirectModel(data, model, cutoff=0.0)(**pars), float)
    for label, v in (("a second call of the same calculator", again), ("a second DirectModel built from the same data object", second)):
        if v.shape != got.shape or not np.array_equal(v, got, equal_nan=True):
            k = int(np.argmax(v != got)) if v.shape == got.shape else 0
            J.bad("second-use", "%s gives %r at selected point %d, the first gave %r"
                  % (label, v[k] if v.shape == got.shape else v.shape, k, got[k]), what="direct")
    # copy round trip of the calculator itself; a refusal to copy (ctypes kernels do not pickle) is accepted
    from sasmodels.direct_model import DirectModel as _DM
    fresh = _DM(data, model, cutoff=0.0)                 # a calculator that has not been evaluated yet, and the used one
    for how, twin, refusal in ([("fresh-" + h, t, e) for h, t, e in H.copy_round_trips(fresh)] + H.copy_round_trips(calc)):
        if twin is None:
            r.branch("copy-refused:direct:" + how)
            continue
        with warnings.catch_warnings():
            warnings.simplefilter("ignore")
            v = np.asarray(twin(**pars), float)
        if v.shape != got.shape or not np.array_equal(v, got, equal_nan=True):
            k = int(np.argmax(v != got)) if v.shape == got.shape else 0
            J.bad("copy", "the %s copy of the calculator gives %r at selected point %d, the original %r"
                  % (how, v[k] if v.shape == got.shape else v.shape, k, got[k]), how=how, what="direct")
        r.branch("copy:direct:" + how)
    names = H.changed(before, data)
    if names and not J.failed:
        J.bad("inputs-modified", "the second use changed the caller's data object: %s"
              % "; ".join(H.describe_change(before, data, k) for k in names[:3]), stage="direct", what=names[0].split(".")[-1])
    r.ok(nt=True, outcome="reuse-direct", trans=2, branches=["reuse:direct"])


def run_interleave(case, ctx, r):
    """
    interleaved construction: data set A is created, THEN a data set B with another resolution, THEN A is built and
    evaluated: it must equal A created and evaluated on its own, and creating B must leave A untouched
    (empty_data1D / empty_data2D through DirectModel).
    """
    from sasmodels.data import empty_data1D, empty_data2D
    from sasmodels.direct_model import DirectModel
    model = build.model("sphere")
    q0, dim = case["q0"], case["dim"]
    ra, rb = case["res_a"], case["res_b"]
    fk = {"class": "DirectModel", "what": "interleaved-%s" % dim, "res_a": ra, "res_b": rb}
    pars = {"radius": 0.35 / q0, "sld": 2.0, "sld_solvent": 5.5, "scale": 1.0, "background": 0.0}
    if dim == "1d":
        make_a = lambda: empty_data1D(H.qgrid("log", 12, q0), resolution=ra)
        make_b = lambda: empty_data1D(H.qgrid("linear", 7, 3 * q0), resolution=rb)
        desc = "A = empty_data1D(log(q0=%r, n=12), resolution=%r); B = empty_data1D(linear(q0=%r, n=7), resolution=%r); DirectModel(A, sphere)()" % (q0, ra, 3 * q0, rb)
    else:
        g = np.linspace(-5 * q0, 5 * q0, 5)
        make_a = lambda: empty_data2D(g, resolution=ra)
        make_b = lambda: empty_data2D(np.linspace(-9 * q0, 9 * q0, 4), resolution=rb)
        desc = "A = empty_data2D(linspace(+-%r, 5), resolution=%r); B = empty_data2D(linspace(+-%r, 4), resolution=%r); DirectModel(A, sphere)()" % (5 * q0, ra, 9 * q0, rb)
    J = Judge(r, fk, desc)

    def evaluate(d):
        with warnings.catch_warnings():
            warnings.simplefilter("ignore")
            with np.errstate(all="ignore"):
                return np.asarray(DirectModel(d, model, cutoff=0.0)(**pars), float)
    alone = evaluate(make_a())
    A = make_a()
    before = H.snapshot(A)
    B = make_b()
    names = H.changed(before, A)
    if names:
        J.bad("shared-state", "creating data set B changed data set A: %s"
              % "; ".join(H.describe_change(before, A, k) for k in names[:3]), what=names[0].split(".")[-1])
    got = evaluate(A)
    evaluate(B)
    if got.shape != alone.shape or not np.array_equal(got, alone, equal_nan=True):
        k = int(np.nanargmax(np.abs(got - alone))) if got.shape == alone.shape else 0
        J.bad("shared-state", "A evaluated after B was created gives %r at point %d; A created and evaluated alone gives %r"
              % (got[k] if got.shape == alone.shape else got.shape, k, alone[k]), what="value")
    r.ok(nt=ra != rb, n=len(alone), trans=3, outcome="interleaved", branches=["interleaved:" + dim])


def run_datamixin(case, ctx, r):
    """
    DirectModel(data, model).resolution is compared with a resolution object constructed directly from the raw
    points the data object selects (qmin <= x <= qmax, mask == 0) and their own widths: same calculated q, same
    smeared theory; and the support / weight clauses are applied to it with the data's widths.
    """
    from sasmodels import resolution, resolution2d
    from sasmodels.data import Data1D, Data2D
    from sasmodels.direct_model import DirectModel, call_kernel
    what, sel, q0 = case["what"], case["select"], case["q0"]
    fk = {"class": "DirectModel", "what": what, "select": sel, "qcalc": "default"}
    two_d = what.startswith("2d")
    order, perm, span = _order_of(case, 24 if two_d else 14)
    if order:
        fk["order"] = order
    J = None
    if not two_d:
        model = build.model("sphere")
        q = H.qgrid("log", 14, q0, span)          # ascending; stored in the requested order below
        n = len(q)
        keep = np.ones(n, bool)
        mask = None
        qlim = None
        if sel == "masked":
            mask = np.zeros(n, int)
            mask[[2, 7]] = 1
            qlim = (q[1], q[-2])
            keep = (q >= q[1]) & (q <= q[-2]) & (mask == 0)
        dx = dxl = dxw = None
        if what == "dx-zero":
            dx = np.zeros(n)
        elif what == "dx-positive":
            dx = 0.1 * q
        elif what == "dx-mixed":
            dx = H.pinhole_sigma("mixed", q)
            dx[3] = 0.3 * q[3]
        elif what == "dx-positive-on-excluded-only":
            dx = np.where(keep, 0.0, 0.1 * q) if sel == "masked" else np.zeros(n)
        elif what == "slit-length":
            dxl = np.full(n, 0.9 * q[4])
        elif what == "slit-width":
            dxw = np.full(n, 0.5 * q[1])
        elif what == "slit-both":
            dxl, dxw = np.full(n, 0.9 * q[4]), np.full(n, 0.2 * q[1])
        elif what == "slit-zero":
            dxl, dxw = np.zeros(n), np.zeros(n)
        elif what == "slit-mixed":
            dxl = np.where(np.arange(n) % 2 == 0, 0.0, 0.9 * q[4])
            dxw = np.where(np.arange(n) % 3 == 0, 0.2 * q[1], 0.0)
        asc = (q, keep, dx, dxl, dxw)          # the ascending arrays; the names below are rebound to the stored order

        def make_data(pp):
            q_, _, dx_, dxl_, dxw_ = asc
            d = Data1D(x=q_[pp].copy())
            d.dxl = d.dxw = None
            if mask is not None:
                d.mask = mask[pp].copy()
                d.qmin, d.qmax = qlim
            d.dx = None if dx_ is None else dx_[pp].copy()
            d.dxl = None if dxl_ is None else dxl_[pp].copy()
            d.dxw = None if dxw_ is None else dxw_[pp].copy()
            return d
        data = make_data(perm)
        # from here on: the arrays as stored (every per-point width travels with its point)
        q, keep = q[perm], keep[perm]
        dx, dxl, dxw = [None if v is None else v[perm] for v in (dx, dxl, dxw)]
        qs = q[keep]
        desc = ("DirectModel(Data1D(x=log(q0=%r, n=14%s), %s%s), sphere).resolution"
                % (q0, ", span %g, stored %s" % (span, order) if order else "", what,
                   ", mask on ascending points 2,7 and qmin/qmax excluding the end points" if sel == "masked" else ""))
        before = H.snapshot(data)
        calc = _construct(r, fk, desc, lambda: DirectModel(data, model, cutoff=0.0))
        if calc is None:
            return
        res = calc.resolution
        J = Judge(r, fk, desc)
        # reference object and documented windows from the selected raw points
        if what.startswith("dx"):
            ws = np.zeros(len(qs)) if dx is None else dx[keep]
            positive = bool(np.any(ws > 0))
            ref = resolution.Pinhole1D(qs.copy(), ws.copy()) if positive else resolution.Perfect1D(qs.copy())
            windows = [H.pinhole_window(qs[i], ws[i]) for i in range(len(qs))]
            zero = ws == 0
            allowed, cancel = np.zeros(len(qs)), None
            expect = "Pinhole1D" if positive else "Perfect1D"
        else:
            Ls = np.zeros(len(qs)) if dxl is None else dxl[keep]
            Ws = np.zeros(len(qs)) if dxw is None else dxw[keep]
            positive = True
            ref = resolution.Slit1D(qs.copy(), q_length=None if dxl is None else Ls.copy(),
                                    q_width=None if dxw is None else Ws.copy())
            windows = [H.slit_window(qs[i], Ls[i], Ws[i]) for i in range(len(qs))]
            zero = (Ls == 0) & (Ws == 0)
            x0 = float(np.min(ref.q_calc))
            allowed = np.zeros(len(qs))
            for i in range(len(qs)):
                if Ws[i] > 0 and qs[i] - Ws[i] < x0 * (1 + 1e-12):
                    frac = min(1.0, x0 / Ws[i])
                    allowed[i] = min(1.0, x0 / Ls[i]) * min(1.0, frac + 2.0 / 61.0) if Ls[i] > 0 else frac
            cancel = np.maximum(np.where(Ls > 0, ((qs + Ws) / np.where(Ls > 0, Ls, 1.0)) ** 2, 0.0),
                                np.where(Ws > 0, (qs + Ws) / np.where(Ws > 0, Ws, 1.0), 0.0))
            expect = "Slit1D"
        got_name = type(res).__name__
        qc, qr = np.asarray(res.q_calc, float), np.asarray(ref.q_calc, float)
        if expect != "Perfect1D" and got_name != expect:
            J.bad("resolution-choice", "data has positive widths on selected points (%s) but DirectModel built %s, "
                  "expected %s" % (_fmt(ws if what.startswith("dx") else Ls + Ws), got_name, expect))
        if qc.shape != qr.shape or not np.array_equal(np.sort(qc), np.sort(qr)):
            J.bad("resolution-qcalc", "resolution.q_calc (%d points, %r..%r) differs from that of %s built from the "
                  "selected points and their widths (%d points, %r..%r)"
                  % (len(qc), qc.min(), qc.max(), expect, len(qr), qr.min(), qr.max()))
        pars = {"radius": 0.35 / q0, "sld": 2.0, "sld_solvent": 5.5, "scale": 1.0, "background": 0.0}
        with warnings.catch_warnings():
            warnings.simplefilter("ignore")
            got = np.asarray(calc(**pars), float)
            theory = np.asarray(call_kernel(model.make_kernel([qr]), pars), float)
            want = np.asarray(ref.apply(theory), float)
        if got.shape != want.shape or np.any(np.abs(got - want) > 1e-12 * np.abs(want)):
            k = int(np.argmax(np.abs(got - want))) if got.shape == want.shape else 0
            J.bad("resolution-apply", "DirectModel value at selected point %d (q=%r) is %r, but smearing the theory with "
                  "%s built from the data's own widths gives %r" % (k, qs[k], got[k] if got.shape == want.shape else got.shape,
                                                                    expect, want[k]))
        # support / weights of the object DirectModel built, judged with the data's widths
        if hasattr(res, "weight_matrix"):
            _judge_matrix(r, dict(fk), desc, res, qs, zero, windows, allowed, q0, cancel)
        else:
            if np.any(~zero):
                i = int(np.argmax(~zero))
                J.bad("support", "selected point %d (q=%r) has window [%r, %r] but the resolution is %s with q_calc = q"
                      % (i, qs[i], windows[i][0], windows[i][1], got_name), end="both")
            r.ok(nt=int(np.sum(~zero)), n=len(qs), outcome="datamixin-perfect")
        r.branch("datamixin:" + what)
        _reuse_direct(r, fk, desc, data, before, model, calc, pars, got)
        if order:
            # storage order: every selected point gets the value it gets in the ascending data set, bit for bit
            qa, keepa = asc[0], asc[1]
            ref = _construct(r, dict(fk, order="ascending"), desc + " [stored ascending]",
                             lambda: DirectModel(make_data(np.arange(n)), model, cutoff=0.0))
            if ref is not None:
                with warnings.catch_warnings():
                    warnings.simplefilter("ignore")
                    want_a = np.asarray(ref(**pars), float)
                rank = np.cumsum(keepa) - 1                      # ascending index -> position among the selected
                sel_idx = perm[np.nonzero(keep)[0]]              # ascending indices of the selected stored points
                want_p = want_a[rank[sel_idx]]
                if got.shape != want_p.shape or np.any(~(np.abs(got - want_p) <= 1e-12 * np.abs(want_p))):
                    k = int(np.nanargmax(np.abs(got - want_p))) if got.shape == want_p.shape else 0
                    J.bad("storage-order", "value at selected stored point %d (q=%r) is %r; the same point in the data set "
                          "stored ascending gives %r" % (k, qs[k], got[k] if got.shape == want_p.shape else got.shape,
                                                         want_p[k]), what="apply")
                r.ok(nt=len(qs), n=len(qs), outcome="order-datamixin", trans=1, branches=["order:" + order])
        return
    # ---- 2-D
    model = build.model("cylinder")
    qx, qy = _points2d(q0)
    qrr = np.sqrt(qx ** 2 + qy ** 2)
    n = len(qx)
    data_kw = {}
    if what == "2d-positive":
        a, b = _sig2d("par>perp", qrr)
    elif what == "2d-mixed":
        a, b = _sig2d("mixed", qrr)
    elif what == "2d-zero":
        a, b = _sig2d("zero", qrr)
    else:
        a = b = None
    mask2 = np.zeros(n, bool)
    if sel == "masked":
        mask2[[1, 5, 13]] = True
    acc = "med"

    asc2 = (qx, qy, a, b)                      # original pixel order; the names below are rebound to the stored order

    def make_data2(pp):
        qx_, qy_, a_, b_ = asc2
        d = Data2D(x=qx_[pp].copy(), y=qy_[pp].copy(), dx=None if a_ is None else a_[pp].copy(),
                   dy=None if b_ is None else b_[pp].copy())
        if sel == "masked":
            d.mask = mask2[pp].copy()
            d.qmin, d.qmax = 0.5 * q0, 5.0 * q0       # excludes the outer ring (7 q0)
        d.accuracy = acc
        return d
    keep_a = np.ones(n, bool) if sel != "masked" else (~mask2) & (qrr >= 0.5 * q0) & (qrr <= 5.0 * q0)
    data = make_data2(perm)
    qx, qy, qrr, keep = qx[perm], qy[perm], qrr[perm], keep_a[perm]
    a, b = [None if v is None else v[perm] for v in (a, b)]
    desc = ("DirectModel(Data2D(rings q0=%r and 7 q0%s, %s%s, accuracy=%r), cylinder).resolution"
            % (q0, ", pixel list stored %s" % order if order else "", what,
               ", mask on points 1,5,13 and qmax excluding the outer ring" if sel == "masked" else "", acc))
    before = H.snapshot(data)
    calc = _construct(r, fk, desc, lambda: DirectModel(data, model, cutoff=0.0))
    if calc is None:
        return
    J = Judge(r, fk, desc)
    res = calc.resolution
    sub = Data2D(x=qx[keep].copy(), y=qy[keep].copy(), dx=None if a is None else a[keep].copy(),
                 dy=None if b is None else b[keep].copy())
    with warnings.catch_warnings():
        warnings.simplefilter("ignore")
        with np.errstate(all="ignore"):
            ref = resolution2d.Pinhole2D(data=sub, index=None, nsigma=3.0, accuracy=acc)
    cx, cy = [np.asarray(v, float) for v in res.q_calc]
    rx, ry = [np.asarray(v, float) for v in ref.q_calc]
    if cx.shape != rx.shape or not (np.allclose(cx, rx, rtol=1e-13, atol=0) and np.allclose(cy, ry, rtol=1e-13, atol=0)):
        J.bad("resolution-qcalc", "resolution.q_calc (%d points) differs from that of Pinhole2D built from the %d selected "
              "points and their widths (%d points)" % (len(cx), int(keep.sum()), len(rx)))
    elif (a is not None) != (getattr(res, "q_calc_weights", None) is not None):
        J.bad("resolution-choice", "data %s dqx/dqy but the resolution %s sampling weights"
              % ("has" if a is not None else "has no", "has no" if a is not None else "has"))
    else:
        pars = {"radius": 0.2 / q0, "length": 0.9 / q0, "theta": 60.0, "phi": 25.0, "scale": 1.0, "background": 0.0}
        with warnings.catch_warnings():
            warnings.simplefilter("ignore")
            got = np.asarray(calc(**pars), float)
            theory = np.asarray(call_kernel(model.make_kernel([rx, ry]), pars), float)
            want = np.asarray(ref.apply(theory), float)
        if got.shape != want.shape or np.any(np.abs(got - want) > 1e-12 * np.abs(want)):
            J.bad("resolution-apply", "DirectModel 2-D values differ from smearing the theory with Pinhole2D built from the "
                  "data's own widths: %s vs %s" % (got[:3], want[:3]))
        if a is not None:
            # every selected point with a positive width must own a cloud that reaches +-2.25 sigma
            nb = len(cx) // int(keep.sum())
            ccx, ccy = cx.reshape(nb, -1), cy.reshape(nb, -1)
            sa, sb = a[keep], b[keep]
            ext = np.hypot(ccx - ccx.mean(axis=0), ccy - ccy.mean(axis=0)).max(axis=0)
            need = 2.25 * np.maximum(sa, sb)
            if np.any(ext < need * (1 - 1e-9) - 1e-9 * qrr[keep]):
                i = int(np.argmax(need - ext))
                J.bad("support", "selected point %d (sigma %r, %r): sampling cloud extends %r, expected >= %r"
                      % (i, sa[i], sb[i], ext[i], need[i]))
    r.ok(nt=int(keep.sum()) if a is not None else 0, n=int(keep.sum()), outcome="datamixin-2d", trans=2)
    r.branch("datamixin:" + what)
    if not J.failed:
        _reuse_direct(r, fk, desc, data, before, model, calc, pars, got)
    if order and not J.failed:
        ref2 = _construct(r, dict(fk, order="ascending"), desc + " [original pixel order]",
                          lambda: DirectModel(make_data2(np.arange(n)), model, cutoff=0.0))
        if ref2 is not None:
            with warnings.catch_warnings():
                warnings.simplefilter("ignore")
                want_a = np.asarray(ref2(**pars), float)
            rank = np.cumsum(keep_a) - 1
            want_p = want_a[rank[perm[np.nonzero(keep)[0]]]]
            if got.shape != want_p.shape or np.any(~(np.abs(got - want_p) <= 1e-12 * np.abs(want_p))):
                k = int(np.nanargmax(np.abs(got - want_p))) if got.shape == want_p.shape else 0
                J.bad("storage-order", "value at selected stored pixel %d is %r; the same pixel in the original pixel order "
                      "gives %r" % (k, got[k] if got.shape == want_p.shape else got.shape, want_p[k]), what="apply")
            r.ok(nt=int(keep.sum()), n=int(keep.sum()), outcome="order-datamixin2d", trans=1, branches=["order:" + order])


def run_case(case, ctx):
    np.set_printoptions(legacy="1.25")     # plain floats in failure details
    r = R()
    kind = case["kind"]
    if kind == "pinhole":
        run_pinhole(case, ctx, r)
    elif kind == "slit":
        run_slit(case, ctx, r)
    elif kind == "p2d":
        run_p2d(case, ctx, r)
    elif kind == "linear":
        run_linear(case, ctx, r)
    elif kind == "linear2d":
        run_linear2d(case, ctx, r)
    elif kind == "datamixin":
        run_datamixin(case, ctx, r)
    elif kind == "interleave":
        run_interleave(case, ctx, r)
    else:
        raise HarnessError("unknown case kind %r" % kind)
    return r


def finish(ctx, report):
    report.require("pinhole:step", 200, "sigma as a fraction of the local data step at the first / last point")
    for qo in QCALC_ORDERS:
        report.require("qcalc-order:" + qo, 100, "user-supplied q_calc stored in another order, against its ascending twin")
    for how in ("deepcopy", "pickle"):
        report.require("copy:" + how, 1000, "copy round trip of a resolution object")
    report.require("copy:direct:fresh-deepcopy", 50, "copy round trip of a DirectModel calculator")
    for w in H.PINHOLE_WIDTHS:
        report.require("pinhole:" + w, 10, "pinhole width pattern constructed and judged")
    for s in ("zero", "length-only", "both-L>W"):
        report.require("slit:" + s, 10, "slit shape constructed and judged")
    report.require("zero-width-point", 50, "zero-width data points judged for exact identity")
    report.require("window-reaches-zero", 50, "windows that are folded at q = 0")
    report.require("extended", 100, "q_calc extended beyond the data range")
    report.require("deficit-permitted", 1, "slit windows cut by the 0.02*q_min limit")
    for a in ACCURACIES:
        report.require("p2d:" + a, 2 * len(SIG2D), "2-D accuracy level")
    report.require("centred-on-minus-q", 4, "2-D points with qx < 0")
    for w in ("perfect", "pinhole", "slit-length", "slit-both"):
        report.require("linear:" + w, 1, "DirectModel linearity")
    report.require("linear:2d-par>perp", 4, "DirectModel 2-D linearity")
    report.require("reuse:apply-twice", 1000, "apply() twice on the same theory array; inputs compared with their copies")
    report.require("reuse:second-construction", 1000, "a second object built from the same input arrays / data object")
    report.require("reuse:direct", 100, "second call / second DirectModel from the same data object")
    report.require("interleaved:1d", 6, "data set B created between creating and evaluating data set A")
    report.require("interleaved:2d", 6, "data set B created between creating and evaluating data set A (2-D)")
    for o in H.ORDERS[1:]:
        report.require("order:" + o, 300, "the same data stored in another order (equivariance against ascending storage)")
    for w in DATA_KINDS:
        report.require("datamixin:" + w, 4, "resolution built by DirectModel compared with the data's own widths")
    if report.nt < 1000:
        report.vacuous.append("only %d non-trivial data points" % report.nt)

"""
C02 - distribution weights match their documented densities, limits and widths.

Space (full product, nothing sampled): distribution type x centre x PD (incl. 0) x width mode x
npts x nsigmas x limit pattern.  One case = one (type, centre, PD, mode) block; the inner three
dimensions are looped inside the block.

Oracle: an independent grid (the documented linspace of +-nsigmas*sigma resp. +-sigma for 'uniform',
cut by the hard limits and the density's support) and scipy.stats log-densities.
"""
import math
import warnings

import numpy as np
from scipy import stats

from ..engine import R, HarnessError

ID = "C02"
TITLE = "Distribution weights match their documented densities, limits and widths"
LEVEL = "model_checking"
TECHNIQUE = ("exhaustive enumeration of the full product of a finite per-branch alphabet "
             "(type x centre x PD x mode x npts x nsigmas x limit pattern) against scipy.stats densities")
RULE = ("part A: full product; part B: every (parameter, distribution spec[, second dispersed parameter]) through "
        "direct_model.get_mesh and every setParam sequence up to depth 2 (thorough 3) on the SasView-style object, each "
        "parameter's (values, weights) compared with its own declared settings; a case is non-trivial when the call returns >= 2 points whose weights are not "
        "all equal; distinct = distinct (type, centre, PD, mode, npts, nsigmas, limit-pattern) tuples")
ASSUMPTIONS = [
    "scipy.stats norm/lognorm/gamma/laplace log-densities are the reference for the documented densities",
    "the documented grid is npts points spanning +-nsigmas*sigma (uniform: +-sigma), cut by limits and support",
    "real-valued inputs are represented by the finite alphabet listed under coverage.bounds",
]
BOUNDS = {
    "quick": {"npts": [1, 2, 3, 4, 5, 10, 35, 80, 200], "pd": [0, 1e-3, 0.1, 0.5, 1, 2]},
    "thorough": {"npts": "1..35, 80, 200", "pd": [0, 1e-3, 0.01, 0.1, 0.3, 0.5, 1, 1.5, 2]},
}

TYPES = ["gaussian", "rectangle", "uniform", "lognormal", "schulz", "boltzmann"]
NSIGMAS = [0.5, 1, 1.73205, 3, 8, 10]
LIMIT_PATTERNS = ["none", "pos", "lower", "upper", "both", "ongrid", "leave2", "leave1", "leave0",
                  "centre_out"]


def cases(ctx):
    centres = [0.1, 1.0, 50.0, 1e4]
    # rotate representatives (never which combinations run)
    centres = [c * (1.0 if ctx.seed == 0 else ctx.factor(k)) for k, c in enumerate(centres)]
    pds = BOUNDS[ctx.tier]["pd"]
    out = []
    for t in TYPES:
        for c in centres:
            for pd in pds:
                for mode in ("relative", "absolute"):
                    out.append({"type": t, "centre": c, "pd": pd, "mode": mode})
    return out + _iface_cases(ctx) + _thread_cases(ctx)


def _thread_cases(ctx):
    """part C: two THREADS asking for weights at the same time (every interleaving of source lines of weights.py)"""
    out = []
    for t in TYPES:
        out.append({"kind": "threads", "types": [t, t], "bound": 1 if ctx.quick else 2})
    out.append({"kind": "threads", "types": ["gaussian", "gaussian"], "bound": 2})
    out.append({"kind": "threads", "types": ["gaussian", "schulz"], "bound": 1 if ctx.quick else 2})
    return out


def _run_threads(case, ctx):
    """
    Two requests of different point count, width, n-sigma and centre are issued from two threads; every schedule of
    their source lines in weights.py with at most `bound` preemptions is executed (mc.threadsched) and each thread
    must receive exactly what it receives when it runs alone.
    """
    from sasmodels import weights
    from .. import threadsched
    r = R()
    ta, tb = case["types"]
    reqs = [(ta, 5, 0.1, 3.0, 100.0, (0.0, np.inf), True), (tb, 9, 0.3, 2.0, 40.0, (0.0, np.inf), True)]
    ref = [weights.get_weights(*q) for q in reqs]

    def make():
        return [lambda q=q: weights.get_weights(*q) for q in reqs]

    def judge(run):
        bad = []
        for i, (st, val) in enumerate(run.results):
            if st != "ok":
                bad.append("thread %d raised %s" % (i, val))
            elif not (len(val[0]) == len(ref[i][0]) and np.array_equal(val[0], ref[i][0]) and np.array_equal(val[1], ref[i][1])):
                bad.append("thread %d asked for get_weights%r and received %d values in [%g, %g] (alone: %d values in [%g, %g])"
                           % (i, reqs[i], len(val[0]), val[0][0] if len(val[0]) else np.nan, val[0][-1] if len(val[0]) else np.nan,
                              len(ref[i][0]), ref[i][0][0], ref[i][0][-1]))
        return bad
    n_exec, n_traces, problems, capped = threadsched.explore(make, [weights.__file__], case["bound"], judge)
    if capped:
        raise HarnessError("thread exploration capped")
    for msg, choices, trace in problems[:1]:
        r.fail("two threads, schedule %s (points %s ...): %s" % (choices, trace[:6], msg),
               {"interface": "threads", "clause": "concurrent-requests", "types": "%s/%s" % (ta, tb)}, count_eval=False)
    r.ok(nt=True, n=n_exec, outcome="threads:%s" % ("ok" if not problems else "differs"), trans=n_traces,
         branches=["threads", "threads:bound%d" % case["bound"]])
    return r


def _npts(ctx):
    if ctx.quick:
        return [1, 2, 3, 4, 5, 10, 35, 80, 200]
    return list(range(1, 36)) + [80, 200]


def _support_lo(t):
    return 0.0 if t in ("lognormal", "schulz") else -np.inf


def ref_grid(t, c, sigma, npts, nsig):
    """documented, unconstrained grid"""
    if t == "uniform":
        return np.linspace(c - sigma, c + sigma, npts)
    return c + np.linspace(-nsig * sigma, +nsig * sigma, npts)


def ref_logpdf(t, c, sigma, x):
    if t == "gaussian":
        return stats.norm(c, sigma).logpdf(x)
    if t == "boltzmann":
        return stats.laplace(c, abs(sigma)).logpdf(x)
    if t == "lognormal":
        return stats.lognorm(s=abs(sigma / c), scale=c).logpdf(x)
    if t == "schulz":
        z = (c / sigma) ** 2
        return stats.gamma(a=z, scale=c / z).logpdf(x)
    if t in ("uniform", "rectangle"):
        return np.zeros_like(x)
    raise ValueError(t)


def limits_for(pattern, g, c):
    """hard limits realising the named truncation pattern on the unconstrained grid g"""
    n = len(g)
    inf = np.inf
    if pattern == "none":
        return (-inf, inf)
    if pattern == "pos":
        return (0.0, inf)
    if pattern == "centre_out":
        return (c + abs(c) + 1.0, inf) if n == 1 else None
    if n == 1:
        if pattern == "ongrid":
            return (g[0], g[0])
        return None
    mid = lambda i: 0.5 * (g[i] + g[i + 1])
    k = max(0, n // 3 - 1)
    if pattern == "lower":
        return (mid(k), inf)
    if pattern == "upper":
        return (-inf, mid(n - 2 - k))
    if pattern == "both":
        return (mid(k), mid(n - 2 - k)) if n >= 3 else None
    if pattern == "ongrid":
        return (g[min(1, n - 1)], g[max(n - 2, 0)]) if n >= 3 else (g[0], g[-1])
    m = n // 2
    if pattern == "leave2":
        return (mid(m - 2), mid(m)) if n >= 4 else None
    if pattern == "leave1":
        return (mid(m - 1), mid(m)) if n >= 3 else (mid(0), inf)
    if pattern == "leave0":
        lo, hi = g[m - 1], g[m]
        return (lo + 0.25 * (hi - lo), lo + 0.75 * (hi - lo))
    raise ValueError(pattern)


IFACE_MODELS = ["cylinder", "core_shell_sphere", "parallelepiped", "ellipsoid"]
SV_SPECS = [("width", 0.15), ("width", 1.5), ("npts", 4), ("npts", 1), ("nsigmas", 2.5), ("type", "schulz"),
            ("type", "rectangle"), ("value", 1.37), ("fitrange", 0.2)]
# "fitrange": the per-instance details table (units, min, max) is what a fit page overwrites with the user's FIT
# range; it is not a hard limit and must not cut the distribution (seeded change C02-f2)


def _iface_cases(ctx):
    """part B: how the calling interfaces turn parameter settings into per-parameter (values, weights)"""
    import itertools
    out = []
    for m in IFACE_MODELS:
        out.append({"kind": "mesh", "model": m})
        out.append({"kind": "sv", "model": m, "depth": 2 if ctx.quick else 3})
    # same-named parameters whose hard limits differ between models: both orders in ONE process
    from sasmodels import core
    sig = {}
    for m in core.list_models():
        P = core.load_model_info(m).parameters
        for p in P.call_parameters:
            if p.name in P.pd_1d:
                sig.setdefault(p.name, {}).setdefault((float(p.limits[0]), float(p.limits[1])), m)
    for name, by_limits in sorted(sig.items()):
        lims = sorted(by_limits)
        for i in range(len(lims)):
            for j in range(i + 1, len(lims)):
                out.append({"kind": "cross", "name": name, "models": [by_limits[lims[i]], by_limits[lims[j]]]})
    return out


def _run_cross(case, ctx):
    """one parameter name, two models with different hard limits, identical settings, both orders in one process"""
    from sasmodels import core
    from sasmodels.direct_model import get_mesh
    r = R()
    name = case["name"]
    infos = [core.load_model_info(m) for m in case["models"]]
    pars = [[p for p in i.parameters.call_parameters if p.name == name][0] for i in infos]
    (la, ua), (lb, ub) = pars[0].limits, pars[1].limits
    settings = []
    if la != lb and np.isfinite(max(la, lb)):
        hi_lo = max(la, lb)
        low = max(min(la, lb), hi_lo - 1.0)          # a grid point that only the wider limit admits
        v = hi_lo + 1.0
        settings.append((v, 1.0 - low / v))
    if ua != ub and np.isfinite(min(ua, ub)):
        lo_hi = min(ua, ub)
        high = min(max(ua, ub), lo_hi + 1.0)
        v = lo_hi - 1.0 if lo_hi - 1.0 > 0 else lo_hi / 2.0
        if v > 0:
            settings.append((v, high / v - 1.0))
    for v, w in settings:
        for order in ((0, 1), (1, 0), (0, 1, 0)):
            for k in order:
                info, par = infos[k], pars[k]
                kw = {name: v, name + "_pd": w, name + "_pd_n": 5, name + "_pd_type": "uniform"}
                desc = "get_mesh(%s, %r) after %s" % (case["models"][k], kw, [case["models"][o] for o in order[:order.index(k)]] or "nothing")
                try:
                    mesh = get_mesh(info, kw, dim="1d")
                except Exception as exc:  # noqa
                    r.fail("%s raised %r" % (desc, exc), {"interface": "get_mesh", "clause": "raises"})
                    continue
                got = [t for q, t in zip(info.parameters.call_parameters, mesh) if q.name == name][0]
                ex, ew = _ref_dist(par, {"type": "uniform", "npts": 5, "width": w}, v)
                if not _same(got[1], ex) or not _same(got[2], ew):
                    r.fail("%s: %s has limits %r but got values %s weights %s (expected %s %s): the distribution of another "
                           "model's same-named parameter leaked" % (desc, name, par.limits, np.asarray(got[1]), np.asarray(got[2]), ex, ew),
                           {"interface": "get_mesh", "clause": "cross-model"})
                else:
                    r.ok(nt=True, outcome="cross", branches=["iface-cross"])
    if not settings:
        r.ok(outcome="cross-skip")
    return r


def _ref_dist(par, spec, value):
    from .. import refmodel
    t, n, w, ns = spec.get("type", "gaussian"), spec.get("npts", 0), spec.get("width", 0.0), spec.get("nsigmas", 3.0)
    return refmodel.par_dist(par, t, n, w, ns, value)


def _same(a, b):
    a, b = np.asarray(a, float), np.asarray(b, float)
    return a.shape == b.shape and np.array_equal(a, b)


def _run_mesh(case, ctx):
    """direct_model.get_mesh: every (parameter, type, npts, width) alone and together with a second dispersed parameter"""
    import itertools
    from sasmodels import core
    from sasmodels.direct_model import get_mesh
    r = R()
    info = core.load_model_info(case["model"])
    P = info.parameters
    pd2 = [p for p in P.call_parameters if p.name in P.pd_2d]
    specs = [{"type": t, "npts": n, "width": w, "nsigmas": ns}
             for t in TYPES for n in (1, 3, 4) for w in (0.0, 0.2) for ns in (2.5, 3.0)]
    other_spec = {"type": "rectangle", "npts": 2, "width": 0.1, "nsigmas": 1.0}
    for dim in ("1d", "2d"):
        active = P.pd_1d if dim == "1d" else P.pd_2d
        for p in pd2:
            for other in [None] + [o for o in pd2 if o is not p][:2]:
                for spec in specs:
                    pars = {p.name: (p.default if p.default else 10.0) * (1.0 if p.type != "orientation" else 1.0)}
                    decl = {p.name: spec}
                    if other is not None:
                        decl[other.name] = other_spec
                    for nm, sp in decl.items():
                        w = sp["width"] * (30.0 if [q for q in pd2 if q.name == nm][0].type == "orientation" else 1.0)
                        pars.update({nm + "_pd": w, nm + "_pd_n": sp["npts"], nm + "_pd_type": sp["type"],
                                     nm + "_pd_nsigma": sp["nsigmas"]})
                    desc = "get_mesh(%s, %r, dim=%r)" % (case["model"], pars, dim)
                    try:
                        mesh = get_mesh(info, pars, dim=dim)
                    except (ZeroDivisionError, ValueError) as exc:
                        # lognormal / schulz jitter about zero does not exist: an explicit refusal claims nothing
                        if any(sp["type"] in ("lognormal", "schulz") and sp["npts"] > 1 and sp["width"] > 0 and nm in active
                               and [q for q in pd2 if q.name == nm][0].type == "orientation" for nm, sp in decl.items()):
                            r.ok(outcome="refused-zero-centre", branches=["iface-refused"])
                            continue
                        r.fail("%s raised %r" % (desc, exc), {"interface": "get_mesh", "clause": "raises"})
                        continue
                    except Exception as exc:  # noqa
                        r.fail("%s raised %r" % (desc, exc), {"interface": "get_mesh", "clause": "raises"})
                        continue
                    ok = True
                    for q, (value, disp, wts) in zip(P.call_parameters, mesh):
                        want_value = pars.get(q.name, q.default)
                        sp = decl.get(q.name)
                        if sp is not None and q.name in active:
                            sp = dict(sp, width=pars[q.name + "_pd"])
                            ex, ew = _ref_dist(q, sp, float(want_value))
                        elif q.polydisperse and q.type == "orientation":
                            ex, ew = [0.0], [1.0]
                        else:
                            ex, ew = [float(want_value)], [1.0]
                        if float(value) != float(want_value) or not _same(disp, ex) or not _same(wts, ew):
                            r.fail("%s: parameter %s got value=%r dispersity=%s weights=%s; expected value=%r dispersity=%s weights=%s"
                                   % (desc, q.name, value, np.asarray(disp)[:5], np.asarray(wts)[:5], want_value,
                                      np.asarray(ex)[:5], np.asarray(ew)[:5]),
                                   {"interface": "get_mesh", "clause": "per-parameter", "ptype": q.type})
                            ok = False
                            break
                    if ok:
                        r.ok(nt=bool(spec["npts"] > 1 and spec["width"] > 0), outcome="mesh:" + dim,
                             branches=["iface-mesh", "iface-orientation" if p.type == "orientation" else "iface-size"])
    return r


def _run_sv(case, ctx):
    """SasView-style object: every sequence of <= depth setParam operations, then every parameter's weights"""
    import itertools
    from sasmodels.sasview_model import _make_standard_model
    r = R()
    Model = _make_standard_model(case["model"])
    info = Model._model_info
    pars = [p for p in info.parameters.call_parameters if p.polydisperse][:4]
    ops = [(p.name, f, v) for p in pars for (f, v) in SV_SPECS]
    for depth in range(0, case["depth"] + 1):
        for seq in itertools.product(ops, repeat=depth):
            if depth == 3 and len({o[0] for o in seq}) < 2:
                continue
            m = Model()
            decl = {p.name: {"width": 0.0, "npts": 35, "nsigmas": 3.0, "type": "gaussian", "value": p.default} for p in pars}
            try:
                for name, f, v in seq:
                    if f == "value":
                        val = decl[name]["value"] * v if decl[name]["value"] else v
                        m.setParam(name, val)
                        decl[name]["value"] = val
                    elif f == "fitrange":
                        c = decl[name]["value"]
                        units = m.details[name][0] if name in m.details else ""
                        m.details[name] = [units, c - abs(c) * v * 0.5 - 0.1, c + abs(c) * v * 0.5 + 0.1]
                    else:
                        m.setParam("%s.%s" % (name, f), v)
                        decl[name][f] = v
            except Exception as exc:  # noqa
                r.fail("%s: setParam sequence %r raised %r" % (case["model"], seq, exc), {"interface": "sasview", "clause": "raises"})
                continue
            bad = None
            for p in pars:
                d = decl[p.name]
                try:
                    value, disp, wts = m._get_weights(p)
                except (ValueError, ZeroDivisionError):
                    if d["type"] in ("schulz", "lognormal") and p.type == "orientation" and d["width"] > 0 and d["npts"] > 1:
                        continue
                    raise
                ex, ew = _ref_dist(p, d, float(d["value"]))
                if float(value) != float(d["value"]) or not _same(disp, ex) or not _same(wts, ew):
                    bad = (p.name, value, disp, wts, ex, ew)
                    break
            if bad:
                r.fail("%s after setParam sequence %r: parameter %s has value=%r dispersity=%s weights=%s; "
                       "its declared settings give dispersity=%s weights=%s"
                       % (case["model"], seq, bad[0], bad[1], np.asarray(bad[2])[:5], np.asarray(bad[3])[:5],
                          np.asarray(bad[4])[:5], np.asarray(bad[5])[:5]),
                       {"interface": "sasview", "clause": "per-parameter"})
            else:
                r.ok(nt=depth >= 1, outcome="sv:%d" % depth, branches=["iface-sasview"], trans=depth + len(pars))
    return r


def run_case(case, ctx):
    if case.get("kind") == "mesh":
        return _run_mesh(case, ctx)
    if case.get("kind") == "sv":
        return _run_sv(case, ctx)
    if case.get("kind") == "threads":
        return _run_threads(case, ctx)
    if case.get("kind") == "cross":
        return _run_cross(case, ctx)
    from sasmodels import weights
    t, c, pd, mode = case["type"], case["centre"], case["pd"], case["mode"]
    relative = mode == "relative"
    r = R()
    centre = c if relative else 0.0
    sigma = pd * c if relative else pd * 10.0   # absolute widths in degrees: pd*10 -> 0.01 .. 20
    width = pd if relative else sigma
    for npts in _npts(ctx):
        for nsig in NSIGMAS:
            degenerate = (sigma == 0 or npts < 2)
            g = np.array([centre]) if degenerate else ref_grid(t, centre, sigma, npts, nsig)
            for pat in LIMIT_PATTERNS:
                lim = limits_for(pat, g, centre)
                if lim is None:
                    continue
                sub = {"npts": npts, "nsigmas": nsig, "limits": pat}
                _one(r, t, c, width, sigma, centre, relative, npts, nsig, lim, g, degenerate, sub,
                     weights)
    return r


def _one(r, t, c, width, sigma, centre, relative, npts, nsig, lim, g, degenerate, sub, weights):
    fk = {"dist": t, "mode": "relative" if relative else "absolute"}
    args = (t, npts, width, nsig, c, lim, relative)
    desc = "get_weights%r" % (args,)
    try:
        with warnings.catch_warnings():
            warnings.simplefilter("ignore")
            with np.errstate(all="ignore"):
                x, w = weights.get_weights(*args)
    except (ZeroDivisionError, ValueError) as exc:
        # lognormal/schulz about a zero centre (absolute mode): the density does not exist there;
        # an explicit refusal returns nothing, so nothing is claimed
        if centre <= 0 and t in ("lognormal", "schulz") and not degenerate:
            r.ok(outcome="refused-zero-centre", branches=["refused"])
            return
        r.fail("%s raised %r" % (desc, exc), dict(fk, clause="raises"), sub)
        return
    except Exception as exc:  # noqa
        r.fail("%s raised %r" % (desc, exc), dict(fk, clause="raises"), sub)
        return
    x, w = np.asarray(x, float), np.asarray(w, float)
    lo, hi = lim

    def bad(clause, msg):
        r.fail("%s: %s\n  values=%s\n  weights=%s" % (desc, msg, x[:8], w[:8]),
               dict(fk, clause=clause), sub)

    if x.shape != w.shape or x.ndim != 1:
        return bad("shape", "values/weights shapes differ %s %s" % (x.shape, w.shape))
    # expected grid
    if degenerate:
        exp = g[(g >= lo) & (g <= hi)]
    else:
        exp = g[(g >= lo) & (g <= hi)]
        if t in ("lognormal", "schulz"):
            exp = exp[exp > 0]
        if t == "rectangle":
            exp = exp[np.abs(exp - centre) <= abs(sigma) * math.sqrt(3.0) * (1 + 1e-15)]
    if t in ("lognormal", "schulz") and centre <= 0 and not degenerate:
        # density undefined for a non-positive centre: anything finite-or-refused is outside the statement,
        # but NaN/inf weights are never acceptable
        if len(w) and not np.all(np.isfinite(w)):
            return bad("finite", "non-finite weights for non-positive centre")
        r.ok(outcome="nonpositive-centre", branches=["nonpositive-centre"])
        return
    if len(x) != len(exp):
        # points within 1e-8 of zero may legitimately be dropped for positive-support densities
        if t in ("lognormal", "schulz"):
            exp2 = exp[exp >= 1e-8]
            if len(x) == len(exp2):
                exp = exp2
        if len(x) != len(exp):
            return bad("grid", "expected %d points %s, got %d" % (len(exp), exp[:6], len(x)))
    if len(x) == 0:
        r.ok(outcome="empty", branches=["empty"])
        return
    if not np.all(np.isfinite(x)) or not np.all(np.isfinite(w)):
        return bad("finite", "non-finite values or weights")
    if np.any(np.diff(x) <= 0):
        return bad("increasing", "values not strictly increasing")
    if x[0] < lo or x[-1] > hi:
        return bad("limits", "values outside hard limits %r" % (lim,))
    if t in ("lognormal", "schulz") and not degenerate and x[0] <= 0:
        return bad("support", "value outside the support x>0")
    if t == "uniform" and not degenerate and np.any(np.abs(x - centre) > abs(sigma) * (1 + 1e-12)):
        return bad("support", "uniform value beyond centre+-sigma")
    if np.any(w < 0):
        return bad("nonneg", "negative weight")
    if abs(w.sum() - 1.0) > 1e-12 * max(1, len(w)):
        return bad("sum", "weights sum to %r" % w.sum())
    scale = max(abs(centre), abs(sigma), 1e-300)
    if np.any(np.abs(x - exp) > 1e-12 * scale + 1e-13 * np.abs(exp)):
        return bad("grid", "values differ from the documented grid %s" % exp[:8])
    if degenerate or len(x) == 1:
        if len(x) != 1 or w[0] != 1.0:
            return bad("degenerate", "single-point distribution must have weight exactly 1")
        if degenerate and x[0] != centre:
            return bad("degenerate", "degenerate distribution not at the centre")
        r.ok(outcome="single", branches=["single-point"])
        return
    # density ratios in log space against the point of maximum weight
    lp = ref_logpdf(t, centre, sigma, x)
    k = int(np.argmax(w))
    pos = w > 0
    if not pos[k]:
        return bad("ratio", "all weights zero")
    with np.errstate(divide="ignore"):
        lw = np.where(pos, np.log(np.where(pos, w, 1.0)), -np.inf)
    d_impl = lw - lw[k]
    d_ref = lp - lp[k]
    # rounding budget: the schulz expression sums terms of magnitude z*ln z
    mag = 1.0
    if t == "schulz":
        z = (centre / sigma) ** 2
        mag = max(1.0, z * (1 + abs(math.log(z))))
    tol = 1e-9 + 1e-14 * mag + 1e-13 * np.abs(d_ref)
    # underflowed weights: reference must be below the smallest normal double too
    under = ~pos
    if np.any(under & (d_ref > -650)):
        return bad("ratio", "zero weight where the density ratio is %g" % np.exp(d_ref[under].max()))
    diff = np.abs(d_impl - d_ref)
    diff[under] = 0
    if np.any(diff > tol):
        j = int(np.argmax(diff - tol))
        return bad("ratio", "w[%d]/w[%d]=%.12g but density ratio=%.12g (x=%r)"
                   % (j, k, math.exp(d_impl[j]), math.exp(d_ref[j]), x[j]))
    nt = bool(np.ptp(w) > 0)
    br = ["truncated"] if len(x) < len(g) else []
    r.ok(nt=nt, outcome="%s:%d" % (t, min(len(x), 5)), branches=br)
    if nt and not r.samples:
        r.sample({"call": desc, "values": [float(v) for v in x[:4]], "weights": [float(v) for v in w[:4]]})


def finish(ctx, report):
    report.require("truncated", 100, "limits cut a distribution")
    report.require("single-point", 100, "degenerate / one-point distributions")
    report.require("empty", 10, "distribution cut to zero points")
    report.require("iface-mesh", 100, "direct_model.get_mesh per-parameter distributions")
    report.require("iface-orientation", 20, "absolute-width (orientation) parameters through get_mesh")
    report.require("iface-sasview", 100, "SasView-style setParam sequences")
    report.require("threads", 7, "two concurrent requests under the thread scheduler")
    report.require("iface-cross", 4, "same-named parameters with different limits in two models")

"""
C02 - distribution weights match their documented densities, limits and widths.

Space (full product, nothing sampled): distribution type x centre x PD (incl. 0) x width mode x
npts x nsigmas x limit pattern.  One case = one (type, centre, PD, mode) block; the inner three
dimensions are looped inside the block.

Oracle: an independent grid (the documented linspace of +-nsigmas*sigma resp. +-sigma for 'uniform',
cut by the hard limits and the density's support) and scipy.stats log-densities.
"""
import math
import warnings

import numpy as np
from scipy import stats

from ..engine import R

ID = "C02"
TITLE = "Distribution weights match their documented densities, limits and widths"
LEVEL = "model_checking"
TECHNIQUE = ("exhaustive enumeration of the full product of a finite per-branch alphabet "
             "(type x centre x PD x mode x npts x nsigmas x limit pattern) against scipy.stats densities")
RULE = ("full product; a case is non-trivial when the call returns >= 2 points whose weights are not "
        "all equal; distinct = distinct (type, centre, PD, mode, npts, nsigmas, limit-pattern) tuples")
ASSUMPTIONS = [
    "scipy.stats norm/lognorm/gamma/laplace log-densities are the reference for the documented densities",
    "the documented grid is npts points spanning +-nsigmas*sigma (uniform: +-sigma), cut by limits and support",
    "real-valued inputs are represented by the finite alphabet listed under coverage.bounds",
]
BOUNDS = {
    "quick": {"npts": [1, 2, 3, 4, 5, 10, 35, 80, 200], "pd": [0, 1e-3, 0.1, 0.5, 1, 2]},
    "thorough": {"npts": "1..35, 80, 200", "pd": [0, 1e-3, 0.01, 0.1, 0.3, 0.5, 1, 1.5, 2]},
}

TYPES = ["gaussian", "rectangle", "uniform", "lognormal", "schulz", "boltzmann"]
NSIGMAS = [0.5, 1, 1.73205, 3, 8, 10]
LIMIT_PATTERNS = ["none", "pos", "lower", "upper", "both", "ongrid", "leave2", "leave1", "leave0",
                  "centre_out"]


def cases(ctx):
    centres = [0.1, 1.0, 50.0, 1e4]
    # rotate representatives (never which combinations run)
    centres = [c * (1.0 if ctx.seed == 0 else ctx.factor(k)) for k, c in enumerate(centres)]
    pds = BOUNDS[ctx.tier]["pd"]
    out = []
    for t in TYPES:
        for c in centres:
            for pd in pds:
                for mode in ("relative", "absolute"):
                    out.append({"type": t, "centre": c, "pd": pd, "mode": mode})
    return out


def _npts(ctx):
    if ctx.quick:
        return [1, 2, 3, 4, 5, 10, 35, 80, 200]
    return list(range(1, 36)) + [80, 200]


def _support_lo(t):
    return 0.0 if t in ("lognormal", "schulz") else -np.inf


def ref_grid(t, c, sigma, npts, nsig):
    """documented, unconstrained grid"""
    if t == "uniform":
        return np.linspace(c - sigma, c + sigma, npts)
    return c + np.linspace(-nsig * sigma, +nsig * sigma, npts)


def ref_logpdf(t, c, sigma, x):
    if t == "gaussian":
        return stats.norm(c, sigma).logpdf(x)
    if t == "boltzmann":
        return stats.laplace(c, abs(sigma)).logpdf(x)
    if t == "lognormal":
        return stats.lognorm(s=abs(sigma / c), scale=c).logpdf(x)
    if t == "schulz":
        z = (c / sigma) ** 2
        return stats.gamma(a=z, scale=c / z).logpdf(x)
    if t in ("uniform", "rectangle"):
        return np.zeros_like(x)
    raise ValueError(t)


def limits_for(pattern, g, c):
    """hard limits realising the named truncation pattern on the unconstrained grid g"""
    n = len(g)
    inf = np.inf
    if pattern == "none":
        return (-inf, inf)
    if pattern == "pos":
        return (0.0, inf)
    if pattern == "centre_out":
        return (c + abs(c) + 1.0, inf) if n == 1 else None
    if n == 1:
        if pattern == "ongrid":
            return (g[0], g[0])
        return None
    mid = lambda i: 0.5 * (g[i] + g[i + 1])
    k = max(0, n // 3 - 1)
    if pattern == "lower":
        return (mid(k), inf)
    if pattern == "upper":
        return (-inf, mid(n - 2 - k))
    if pattern == "both":
        return (mid(k), mid(n - 2 - k)) if n >= 3 else None
    if pattern == "ongrid":
        return (g[min(1, n - 1)], g[max(n - 2, 0)]) if n >= 3 else (g[0], g[-1])
    m = n // 2
    if pattern == "leave2":
        return (mid(m - 2), mid(m)) if n >= 4 else None
    if pattern == "leave1":
        return (mid(m - 1), mid(m)) if n >= 3 else (mid(0), inf)
    if pattern == "leave0":
        lo, hi = g[m - 1], g[m]
        return (lo + 0.25 * (hi - lo), lo + 0.75 * (hi - lo))
    raise ValueError(pattern)


def run_case(case, ctx):
    from sasmodels import weights
    t, c, pd, mode = case["type"], case["centre"], case["pd"], case["mode"]
    relative = mode == "relative"
    r = R()
    centre = c if relative else 0.0
    sigma = pd * c if relative else pd * 10.0   # absolute widths in degrees: pd*10 -> 0.01 .. 20
    width = pd if relative else sigma
    for npts in _npts(ctx):
        for nsig in NSIGMAS:
            degenerate = (sigma == 0 or npts < 2)
            g = np.array([centre]) if degenerate else ref_grid(t, centre, sigma, npts, nsig)
            for pat in LIMIT_PATTERNS:
                lim = limits_for(pat, g, centre)
                if lim is None:
                    continue
                sub = {"npts": npts, "nsigmas": nsig, "limits": pat}
                _one(r, t, c, width, sigma, centre, relative, npts, nsig, lim, g, degenerate, sub,
                     weights)
    return r


def _one(r, t, c, width, sigma, centre, relative, npts, nsig, lim, g, degenerate, sub, weights):
    fk = {"dist": t, "mode": "relative" if relative else "absolute"}
    args = (t, npts, width, nsig, c, lim, relative)
    desc = "get_weights%r" % (args,)
    try:
        with warnings.catch_warnings():
            warnings.simplefilter("ignore")
            with np.errstate(all="ignore"):
                x, w = weights.get_weights(*args)
    except (ZeroDivisionError, ValueError) as exc:
        # lognormal/schulz about a zero centre (absolute mode): the density does not exist there;
        # an explicit refusal returns nothing, so nothing is claimed
        if centre <= 0 and t in ("lognormal", "schulz") and not degenerate:
            r.ok(outcome="refused-zero-centre", branches=["refused"])
            return
        r.fail("%s raised %r" % (desc, exc), dict(fk, clause="raises"), sub)
        return
    except Exception as exc:  # noqa
        r.fail("%s raised %r" % (desc, exc), dict(fk, clause="raises"), sub)
        return
    x, w = np.asarray(x, float), np.asarray(w, float)
    lo, hi = lim

    def bad(clause, msg):
        r.fail("%s: %s\n  values=%s\n  weights=%s" % (desc, msg, x[:8], w[:8]),
               dict(fk, clause=clause), sub)

    if x.shape != w.shape or x.ndim != 1:
        return bad("shape", "values/weights shapes differ %s %s" % (x.shape, w.shape))
    # expected grid
    if degenerate:
        exp = g[(g >= lo) & (g <= hi)]
    else:
        exp = g[(g >= lo) & (g <= hi)]
        if t in ("lognormal", "schulz"):
            exp = exp[exp > 0]
        if t == "rectangle":
            exp = exp[np.abs(exp - centre) <= abs(sigma) * math.sqrt(3.0) * (1 + 1e-15)]
    if t in ("lognormal", "schulz") and centre <= 0 and not degenerate:
        # density undefined for a non-positive centre: anything finite-or-refused is outside the statement,
        # but NaN/inf weights are never acceptable
        if len(w) and not np.all(np.isfinite(w)):
            return bad("finite", "non-finite weights for non-positive centre")
        r.ok(outcome="nonpositive-centre", branches=["nonpositive-centre"])
        return
    if len(x) != len(exp):
        # points within 1e-8 of zero may legitimately be dropped for positive-support densities
        if t in ("lognormal", "schulz"):
            exp2 = exp[exp >= 1e-8]
            if len(x) == len(exp2):
                exp = exp2
        if len(x) != len(exp):
            return bad("grid", "expected %d points %s, got %d" % (len(exp), exp[:6], len(x)))
    if len(x) == 0:
        r.ok(outcome="empty", branches=["empty"])
        return
    if not np.all(np.isfinite(x)) or not np.all(np.isfinite(w)):
        return bad("finite", "non-finite values or weights")
    if np.any(np.diff(x) <= 0):
        return bad("increasing", "values not strictly increasing")
    if x[0] < lo or x[-1] > hi:
        return bad("limits", "values outside hard limits %r" % (lim,))
    if t in ("lognormal", "schulz") and not degenerate and x[0] <= 0:
        return bad("support", "value outside the support x>0")
    if t == "uniform" and not degenerate and np.any(np.abs(x - centre) > abs(sigma) * (1 + 1e-12)):
        return bad("support", "uniform value beyond centre+-sigma")
    if np.any(w < 0):
        return bad("nonneg", "negative weight")
    if abs(w.sum() - 1.0) > 1e-12 * max(1, len(w)):
        return bad("sum", "weights sum to %r" % w.sum())
    scale = max(abs(centre), abs(sigma), 1e-300)
    if np.any(np.abs(x - exp) > 1e-12 * scale + 1e-13 * np.abs(exp)):
        return bad("grid", "values differ from the documented grid %s" % exp[:8])
    if degenerate or len(x) == 1:
        if len(x) != 1 or w[0] != 1.0:
            return bad("degenerate", "single-point distribution must have weight exactly 1")
        if degenerate and x[0] != centre:
            return bad("degenerate", "degenerate distribution not at the centre")
        r.ok(outcome="single", branches=["single-point"])
        return
    # density ratios in log space against the point of maximum weight
    lp = ref_logpdf(t, centre, sigma, x)
    k = int(np.argmax(w))
    pos = w > 0
    if not pos[k]:
        return bad("ratio", "all weights zero")
    with np.errstate(divide="ignore"):
        lw = np.where(pos, np.log(np.where(pos, w, 1.0)), -np.inf)
    d_impl = lw - lw[k]
    d_ref = lp - lp[k]
    # rounding budget: the schulz expression sums terms of magnitude z*ln z
    mag = 1.0
    if t == "schulz":
        z = (centre / sigma) ** 2
        mag = max(1.0, z * (1 + abs(math.log(z))))
    tol = 1e-9 + 1e-14 * mag + 1e-13 * np.abs(d_ref)
    # underflowed weights: reference must be below the smallest normal double too
    under = ~pos
    if np.any(under & (d_ref > -650)):
        return bad("ratio", "zero weight where the density ratio is %g" % np.exp(d_ref[under].max()))
    diff = np.abs(d_impl - d_ref)
    diff[under] = 0
    if np.any(diff > tol):
        j = int(np.argmax(diff - tol))
        return bad("ratio", "w[%d]/w[%d]=%.12g but density ratio=%.12g (x=%r)"
                   % (j, k, math.exp(d_impl[j]), math.exp(d_ref[j]), x[j]))
    nt = bool(np.ptp(w) > 0)
    br = ["truncated"] if len(x) < len(g) else []
    r.ok(nt=nt, outcome="%s:%d" % (t, min(len(x), 5)), branches=br)
    if nt and not r.samples:
        r.sample({"call": desc, "values": [float(v) for v in x[:4]], "weights": [float(v) for v in w[:4]]})


def finish(ctx, report):
    report.require("truncated", 100, "limits cut a distribution")
    report.require("single-point", 100, "degenerate / one-point distributions")
    report.require("empty", 10, "distribution cut to zero points")

"""
C18 - building a model is atomic under concurrent first use and crashes (E3).

Real OS processes run the real load_model/make_kernel/call_kernel against one shared cache directory
under a controlled scheduler (mc/procsched.py).  Explored exhaustively, on the implementation itself:

  * all interleavings of N first-time loaders up to a preemption bound (iterated 0,1,2,...);
  * all kill points: a builder is SIGKILLed (whole process group, compiler included) at each of its
    scheduling points, alone or while a second loader runs concurrently, followed by fresh loaders
    (one, and two under all <=1-preemption interleavings).

Oracle: every process that is not killed exits 0 with exactly the reference values; after every
execution, after every kill and after every recovery no file under the final cache name differs from
the complete library; the next attempt after a kill succeeds; no deadlock.
"""
import hashlib
import json
import os
import shutil
import sys
import tempfile

import numpy as np

from .. import procsched
from ..engine import R, Report, HarnessError, pool_map, case_id

ID = "C18"
TITLE = "Building a model is atomic under concurrent first use and crashes"
LEVEL = "model_checking"
ENGINE = "E3"
TECHNIQUE = ("stateless exploration of real-process schedules under a controlled scheduler (audit-hook scheduling "
             "points + scripted compiler), iterated preemption bound; exhaustive kill-point injection with recovery")
RULE = ("every schedule (choice sequence at the scheduling points) up to the preemption bound and every kill point "
        "x recovery schedule is one execution; non-trivial = >=2 processes reach the compile step or a process is "
        "killed at/after the first scheduling point of the build; distinct = distinct choice sequences")
ASSUMPTIONS = [
    "scheduling granularity: audit events (mkdir, mkstemp, open-for-write, Popen, remove, rename/replace, link, lock, dlopen) "
    "and two compiler writes; code between two points runs atomically",
    "the compiler writes its output in place in two halves (finer tearing is not modelled); POSIX file semantics",
    "the C compiler is environment: real cc runs once per distinct source, later invocations copy the memoised library",
    "threads inside one process are outside the property's quantifier",
]
BOUNDS = {
    "quick": {"schedules": "2 processes: preemption bound 2; 3 processes: bound 1",
              "kill": "1 builder x every point x {1 fresh loader; 2 fresh loaders, <=1 preemption}; "
                      "2 concurrent loaders, each killed at every point of the 0-preemption schedules, then 1 fresh loader"},
    "thorough": {"schedules": "2 processes: preemption bound 3; 3 processes: bound 2; 4 processes: bound 1; 16 processes: bound 0 + single preemptions (capped)",
                 "kill": "as quick + 2 concurrent loaders x every victim point x <=2 preemptions; second model: the product sphere@hardsphere (two libraries built in sequence), 2 processes <= 1 preemption + kill points"},
}
CASE_TIMEOUT = 300
Q = [0.01, 0.1, 0.3]
PARS = {"radius": 45.0, "radius_pd": 0.1, "radius_pd_n": 5, "scale": 2.0, "background": 0.125}

STATE = {}
STOP_AFTER = 25      # violating executions after which no further schedule families are started (the verdict is settled)


def _python_for_cc():
    for cand in ("/usr/bin/python3", sys.executable):
        if os.path.exists(cand):
            return cand
    return sys.executable


def _setup_env(ctx):
    os.environ["VERIF_REAL_CC"] = os.environ.get("CC", "cc") if "scripted_cc" not in os.environ.get("CC", "") else "cc"
    os.environ["CC"] = "%s -S -E /verif/mc/scripted_cc.py" % _python_for_cc()
    os.environ["VERIF_CC_MEMO"] = os.path.join(ctx.scratch, "ccmemo")
    os.makedirs(os.environ["VERIF_CC_MEMO"], exist_ok=True)
    os.environ.pop("VERIF_SCHED_SOCK", None)


def _body_factory(model_name, dll_dir, tmp_dir):
    def body(i):
        from sasmodels import core, kerneldll
        from sasmodels.direct_model import call_kernel
        kerneldll.SAS_DLL_PATH = dll_dir
        tempfile.tempdir = tmp_dir
        info = STATE["info"][model_name]

        def attempt():
            model = core.build_model(info, dtype="double", platform="dll")
            kernel = model.make_kernel([np.array(Q)])
            pars = dict(PARS) if model_name == "sphere" else {"scale": 2.0, "background": 0.125, "radius_pd": 0.1, "radius_pd_n": 5}
            res = call_kernel(kernel, pars)
            return [float(v).hex() for v in res]
        try:
            return attempt()
        except KeyboardInterrupt:
            # an interrupted load: "the next attempt to load that model succeeds" - here the next attempt is made by
            # the SAME process (whatever it remembered about the first attempt must not get in the way)
            return ["retried-after-interrupt"] + attempt()
    return body


def _reference(args):
    """isolated, unscheduled build + evaluation: reference values and reference library bytes"""
    model_name, base = args
    dll_dir = os.path.join(base, "ref-dll-" + model_name)
    tmp_dir = os.path.join(base, "ref-tmp-" + model_name)
    os.makedirs(tmp_dir, exist_ok=True)
    os.environ.pop("VERIF_SCHED_SOCK", None)
    vals = _body_factory(model_name, dll_dir, tmp_dir)(0)
    libs = sorted(f for f in os.listdir(dll_dir) if f.endswith(".so"))
    if len(libs) != len(model_name.replace("@", "+").replace("*", "+").split("+")):
        raise HarnessError("reference build left %r" % libs)
    out = {}
    for lib in libs:
        with open(os.path.join(dll_dir, lib), "rb") as fh:
            data = fh.read()
        out[lib] = [hashlib.sha1(data).hexdigest(), len(data)]
    return {"values": vals, "libs": out, "tmp_left": os.listdir(tmp_dir)}


def setup(ctx):
    _setup_env(ctx)
    from sasmodels import core, kerneldll, generate  # noqa - imported AFTER CC is set
    if "scripted_cc" not in " ".join(kerneldll.compiler):
        raise HarnessError("kerneldll did not pick up the scripted compiler: %r" % (kerneldll.compiler,))
    models = ["sphere"] if ctx.quick else ["sphere", "sphere@hardsphere"]
    STATE["info"] = {m: core.load_model_info(m) for m in models}
    for m in models:     # warm the source/template caches in the zygote
        info = STATE["info"][m]
        for part in (info.composition[1] if info.composition else [info]):
            generate.make_source(part)
    STATE["models"] = models
    # serially: two concurrent reference builds of one source would race on the compiler memo (the object code
    # embeds the temporary source name, so two real compiles of the same text differ byte-wise)
    refs = pool_map(ctx, _reference, [(m, ctx.scratch) for m in models], timeout=300, jobs=1)
    STATE["ref"] = {}
    for m, (st, payload) in zip(models, refs):
        if st != "done":
            raise HarnessError("reference build of %s failed: %s %s" % (m, st, payload))
        STATE["ref"][m] = payload


# ------------------------------------------------------------------------------------------------

def _scan(dll_dir, ref):
    """files under the final cache name must be the complete library"""
    bad, leftovers = [], []
    if not os.path.isdir(dll_dir):
        return bad, leftovers
    for f in sorted(os.listdir(dll_dir)):
        p = os.path.join(dll_dir, f)
        if f in ref["libs"]:
            sha, size = ref["libs"][f]
            with open(p, "rb") as fh:
                data = fh.read()
            if len(data) != size or hashlib.sha1(data).hexdigest() != sha:
                bad.append("%s has %d bytes (complete library: %d bytes)" % (f, len(data), size))
        else:
            leftovers.append(f)
    return bad, leftovers


def _judge_phase(ph, ref, who, label, fails, victims=()):
    for i in who:
        if i in victims:
            continue
        st = ph.status.get(i)
        if st is None or st[0] != "exit" or st[1] != 0:
            err = ph.errors.get(i, "")
            what = ("died from signal %d" % st[1]) if st and st[0] == "signal" else "ended with %r" % (st,)
            fails.append(("process-failed", "%s: process %d %s %s" % (label, i, what, err.strip().splitlines()[0] if err else "")))
        elif ph.results.get(i) != ref["values"]:
            fails.append(("wrong-values", "%s: process %d returned %r, reference %r" % (label, i, ph.results.get(i), ref["values"])))
    if ph.deadlock:
        fails.append(("deadlock", "%s: no process enabled but some unfinished" % label))


def run_exec(spec):
    """
    One execution.  spec = {"model", "n1", "prefix1", "kill": None | [victim, step], "n2", "prefix2"}
    Phase 1: n1 first-time loaders under prefix1 (optionally a kill).  Phase 2 (if n2): n2 fresh loaders
    against the directory phase 1 left behind, under prefix2.
    """
    model = spec["model"]
    ref = STATE["ref"][model]
    base = STATE["scratch"]
    exec_dir = tempfile.mkdtemp(prefix="x-", dir=base)
    dll_dir = os.path.join(exec_dir, "dll")      # deliberately not created: first use creates it
    if spec.get("tmpdev") == "shm":
        # the system temporary directory on ANOTHER device than the cache: a move across them is a copy
        tmp_dir = tempfile.mkdtemp(prefix="verif-c18-", dir="/dev/shm")
    else:
        tmp_dir = os.path.join(exec_dir, "tmp")
        os.makedirs(tmp_dir)
    finals = sorted(ref["libs"])
    watch = [dll_dir, tmp_dir]
    body = _body_factory(model, dll_dir, tmp_dir)
    fails = []
    out = {"spec": spec}
    try:
        kill = tuple(spec["kill"]) if spec.get("kill") else None
        ph1 = procsched.run_phase(body, spec["n1"], spec.get("prefix1", []), exec_dir, watch, kill=kill, finals=finals)
        out["p1"] = ph1.pack()
        victims = ph1.killed_at["victims"] if ph1.killed_at else []
        cc_victim = ph1.killed_at.get("compiler_of") if ph1.killed_at else None
        if cc_victim is not None:
            # the loader whose compiler was killed may fail with an exception (the build did fail), but it must
            # not die from a signal and must not return wrong values
            st = ph1.status.get(cc_victim)
            if st and st[0] == "signal":
                fails.append(("process-failed", "phase 1: process %d died from signal %d after its compiler was killed" % (cc_victim, st[1])))
            elif st and st[0] == "exit" and st[1] == 0 and ph1.results.get(cc_victim) != ref["values"]:
                fails.append(("wrong-values", "phase 1: process %d returned %r after its compiler was killed" % (cc_victim, ph1.results.get(cc_victim))))
            victims = list(victims) + [cc_victim]
        if ph1.killed_at and ph1.killed_at.get("interrupt") and not ph1.killed_at.get("not_reached"):
            v = ph1.killed_at["victims"][0]
            st = ph1.status.get(v)
            got = ph1.results.get(v)
            if st is None or st[0] != "exit" or st[1] != 0 or not got:
                err = ph1.errors.get(v, "")
                fails.append(("retry-after-interrupt-failed",
                              "phase 1: process %d was interrupted at %r; its next attempt in the same process ended with "
                              "%r %s" % (v, ph1.killed_at["at"].get(str(v)), st, err.strip().splitlines()[-1] if err else "")))
            elif got[0] == "retried-after-interrupt" and got[1:] != ref["values"]:
                fails.append(("wrong-values", "phase 1: process %d returned %r on its retry after an interrupt, reference %r"
                              % (v, got[1:], ref["values"])))
            elif got[0] != "retried-after-interrupt" and got != ref["values"]:
                fails.append(("wrong-values", "phase 1: process %d returned %r, reference %r" % (v, got, ref["values"])))
        if kill and not ph1.killed_at:
            out["kill_not_reached"] = True
        _judge_phase(ph1, ref, range(spec["n1"]), "phase 1", fails, victims)
        bad, left = _scan(dll_dir, ref)
        for b in bad:
            fails.append(("partial-under-final-name", "after phase 1%s: %s" % (" (kill at %r)" % (ph1.killed_at,) if ph1.killed_at else "", b)))
        out["leftovers1"] = left
        if spec.get("n2"):
            ph2 = procsched.run_phase(body, spec["n2"], spec.get("prefix2", []), exec_dir, watch, id_base=10, finals=finals)
            out["p2"] = ph2.pack()
            _judge_phase(ph2, ref, range(10, 10 + spec["n2"]), "recovery after kill at %r" % (ph1.killed_at,), fails)
            bad, left = _scan(dll_dir, ref)
            for b in bad:
                fails.append(("partial-under-final-name", "after recovery: %s" % b))
            out["leftovers2"] = left
    finally:
        shutil.rmtree(exec_dir, ignore_errors=True)
        if spec.get("tmpdev") == "shm":
            shutil.rmtree(tmp_dir, ignore_errors=True)
    # structural rule: a final cache name must only ever appear through an atomic rename/link of a complete
    # file; opening it for writing (python or compiler) means a partially written library exists under it
    for key in ("p1", "p2"):
        for i, ev in (out.get(key) or {}).get("trace", []):
            if ev.endswith("!") and (ev.startswith("open-w") or ev.startswith("cc.write")):
                fails.append(("final-name-written-in-place",
                              "process %d performs %r on a final cache name: the library is written in place, not "
                              "installed atomically" % (i, ev)))
                break
    out["fails"] = fails
    return out


def _explore_tree(ctx, report, make_spec, bound, label, phase_key="p1", prefix_key="prefix1", cap=None, shared_only=False):
    """wave-parallel enumeration of every schedule up to the preemption bound for one spec family"""
    frontier = [[]]
    n_exec = 0
    by_pre = {}
    first_payload = None
    while frontier:
        if len(report.fails) >= STOP_AFTER:
            report.caps.append("%s: exploration stopped early, %d violating executions already found" % (label, len(report.fails)))
            break
        if cap and n_exec + len(frontier) > cap:
            report.caps.append("%s: stopped at %d executions (cap %d)" % (label, n_exec, cap))
            frontier = frontier[:max(0, cap - n_exec)]
            if not frontier:
                break
        specs = [make_spec(p) for p in frontier]
        res = pool_map(ctx, run_exec, specs, timeout=CASE_TIMEOUT)
        nxt = []
        for pre, spec, (st, payload) in zip(frontier, specs, res):
            n_exec += 1
            if st == "harness":
                raise HarnessError(payload)
            if st != "done":
                _record(report, spec, [("explorer-%s" % st, str(payload)[-600:])], None, label)
                continue
            ph = payload[phase_key]
            if first_payload is None:
                first_payload = payload
            npre = procsched.preemptions(ph["points"], ph["choices"])
            by_pre[npre] = by_pre.get(npre, 0) + 1
            _record(report, spec, payload["fails"], payload, label)
            for alt in procsched.alternatives(ph["points"], ph["choices"], len(pre), bound, shared_only=shared_only):
                nxt.append(alt)
        frontier = nxt
    report.coverage.setdefault("schedules_by_family", {})[label] = {
        "executions": n_exec, "by_preemptions": {str(k): v for k, v in sorted(by_pre.items())}, "bound": bound}
    return n_exec, first_payload


def _record(report, spec, fails, payload, label):
    report.evals += 1
    report.states += 1
    nt = False
    if payload:
        for key in ("p1", "p2"):
            ph = payload.get(key)
            if not ph:
                continue
            report.trans += len(ph["trace"])
            builders = {i for i, ev in ph["trace"] if ev == "Popen"}
            if len(builders) >= 2:
                nt = True
                report.branches["two-builders-compile"] += 1
            if any(ev == "dlopen" for _, ev in ph["trace"]):
                report.branches["dlopen"] += 1
            if ph["blocked_seen"]:
                report.branches["blocked-seen"] += 1
        k = payload["p1"].get("killed_at")
        if k:
            nt = True
            report.branches["killed"] += 1
            for v, at in k["at"].items():
                report.branches["kill-at:%s" % at] += 1
        outcome = "%s|%s|%s" % (label.split(":")[0],
                                ",".join("%s%s" % (s[0][0], s[1]) for _, s in sorted(payload["p1"]["status"].items())),
                                ",".join(sorted({c for c, _ in fails})))
        report.outcomes.add(outcome)
        if len(report.samples) < 3:
            report.samples.append({"spec": spec, "trace_phase1": payload["p1"]["trace"],
                                   "trace_phase2": (payload.get("p2") or {}).get("trace")})
    if nt:
        report.nt += 1
    for clause, detail in fails:
        report.fails.append({"detail": "%s %s\n  spec=%s\n  trace=%s" % (label, detail, json.dumps(spec),
                                                                       json.dumps((payload or {}).get("p1", {}).get("trace"))),
                             "fkey": {"clause": clause, "model": spec["model"]},
                             "case": spec, "cid": case_id(spec), "sub": None})


def explore(ctx):
    setup(ctx)
    STATE["scratch"] = ctx.scratch
    report = Report()
    report.states = 0
    quick = ctx.quick
    # determinism: the same schedule twice must give identical observations
    spec0 = {"model": "sphere", "n1": 2, "prefix1": [], "kill": None, "n2": 0}
    a, b = run_exec(spec0), run_exec(spec0)
    if a["p1"]["trace"] != b["p1"]["trace"] or a["p1"]["status"] != b["p1"]["status"] or a["fails"] != b["fails"]:
        raise HarnessError("replaying one schedule twice gave different observations:\n%s\n%s" % (a["p1"], b["p1"]))
    report.coverage["determinism_replay"] = {"trace": a["p1"]["trace"], "identical": True}

    for model in STATE["models"]:
        fams = [(2, 2), (3, 1)] if quick else [(2, 3), (3, 2), (4, 1), (16, 0)]
        if model != "sphere":
            fams = [(2, 1)]
        for n, bound in fams:
            _explore_tree(ctx, report, lambda p, n=n, model=model: {"model": model, "n1": n, "prefix1": p, "kill": None, "n2": 0},
                          bound, "sched:%s:n%d:b%d" % (model, n, bound), cap=None if n < 16 else 400)
        if not quick and model == "sphere":
            # 16 processes: every single preemption of the default schedule
            _explore_tree(ctx, report, lambda p: {"model": "sphere", "n1": 16, "prefix1": p, "kill": None, "n2": 0},
                          1, "sched:sphere:n16:b1", cap=600)

        # reduced exploration: unbounded preemptions, but a running thread is only preempted before an operation on
        # a shared object (cache lookup, mkdir, rename/replace, removal of a library, dlopen, anything on a final name)
        for n in ((2,) if quick else (2, 3)):
            _explore_tree(ctx, report, lambda p, n=n, model=model: {"model": model, "n1": n, "prefix1": p, "kill": None, "n2": 0},
                          99, "por:%s:n%d" % (model, n), shared_only=True, cap=4000)
        # temporary directory on another device than the cache (a "move" across devices is a copy)
        if os.path.isdir("/dev/shm") and os.stat("/dev/shm").st_dev != os.stat(ctx.scratch).st_dev:
            _explore_tree(ctx, report, lambda p, model=model: {"model": model, "n1": 2, "prefix1": p, "kill": None, "n2": 0, "tmpdev": "shm"},
                          1, "shm:%s:n2:b1" % model)
            report.coverage["tmp_on_other_device"] = True
        else:
            report.coverage["tmp_on_other_device"] = "not available in this environment"
        # kill points of a single builder: find its number of points, then every k x recovery
        probe = run_exec({"model": model, "n1": 1, "prefix1": [], "kill": None, "n2": 0})
        npoints = len(probe["p1"]["trace"])
        report.coverage.setdefault("single_builder_trace", {})[model] = probe["p1"]["trace"]
        for k in range(1, npoints):
            for n2, b2 in ((1, 0), (2, 1)):
                _explore_tree(ctx, report,
                              lambda p, k=k, n2=n2, model=model: {"model": model, "n1": 1, "prefix1": [], "kill": ["all", k], "n2": n2, "prefix2": p},
                              b2, "kill:%s:k%d:rec%d" % (model, k, n2), phase_key="p2", prefix_key="prefix2")
        # the compiler alone is killed (after no, partial or full output); then one fresh loader
        for k in range(1, npoints):
            _explore_tree(ctx, report,
                          lambda p, k=k, model=model: {"model": model, "n1": 1, "prefix1": [], "kill": [0, k, "cc"], "n2": 1, "prefix2": p},
                          0, "killcc:%s:k%d" % (model, k), phase_key="p2", prefix_key="prefix2")
        # the builder is INTERRUPTED (SIGINT to its process group, as Ctrl-C does): the compiler dies, the loader
        # unwinds through its handlers; then one fresh loader
        for k in range(1, npoints):
            _explore_tree(ctx, report,
                          lambda p, k=k, model=model: {"model": model, "n1": 1, "prefix1": [], "kill": [0, k, "int"], "n2": 1, "prefix2": p},
                          0, "killint:%s:k%d" % (model, k), phase_key="p2", prefix_key="prefix2")
        # a victim killed while a second loader runs concurrently, followed by one fresh loader
        kb = 0 if quick else 2
        STATE["stop"] = len(report.fails) >= STOP_AFTER
        base_scheds = _enumerate_prefixes(ctx, model, 2, kb)
        specs = []
        if len(report.fails) >= STOP_AFTER:
            base_scheds = []
        for pre, length in base_scheds:
            for victim in (0, 1):
                for k in range(1, length):
                    # choices after the kill belong to a different enabled set: default (0) from there on
                    specs.append({"model": model, "n1": 2, "prefix1": pre[:k], "kill": [victim, k], "n2": 1, "prefix2": []})
        res = pool_map(ctx, run_exec, specs, timeout=CASE_TIMEOUT)
        for spec, (st, payload) in zip(specs, res):
            if st == "harness":
                raise HarnessError(payload)
            if st != "done":
                _record(report, spec, [("explorer-%s" % st, str(payload)[-600:])], None, "killconc")
            else:
                _record(report, spec, payload["fails"], payload, "killconc:%s" % model)
        report.coverage.setdefault("schedules_by_family", {})["killconc:%s" % model] = {"executions": len(specs), "base_schedules": len(base_scheds)}
    report.generated = report.evals
    # every failing execution is replayed once more before it is reported
    distinct = {}
    for f in report.fails:
        distinct.setdefault(f["cid"], f)
    for cid, f in list(distinct.items())[:12]:
        if f["fkey"]["clause"].startswith("explorer-"):
            continue
        again = run_exec(f["case"])
        if not again["fails"]:
            raise HarnessError("non-reproducible failure for schedule %s" % json.dumps(f["case"]))
    return report


def _enumerate_prefixes(ctx, model, n, bound):
    """all complete schedules (as full choice lists) of n loaders up to the bound, with their lengths"""
    out = []
    frontier = [[]]
    if STATE.get("stop"):
        return out
    while frontier:
        specs = [{"model": model, "n1": n, "prefix1": p, "kill": None, "n2": 0} for p in frontier]
        res = pool_map(ctx, run_exec, specs, timeout=CASE_TIMEOUT)
        nxt = []
        for pre, (st, payload) in zip(frontier, res):
            if st != "done":
                continue
            ph = payload["p1"]
            out.append((ph["choices"], len(ph["choices"])))
            nxt.extend(procsched.alternatives(ph["points"], ph["choices"], len(pre), bound))
        frontier = nxt
    return out


def finish(ctx, report):
    report.require("two-builders-compile", 5, ">=2 processes reach the compile step")
    report.require("killed", 5, "kill points")
    report.require("dlopen", 10, "library load")


def replay(case, ctx):
    STATE["scratch"] = ctx.scratch
    out = run_exec(case)
    r = R()
    if out["fails"]:
        for clause, detail in out["fails"]:
            r.fail("%s\n  trace=%s" % (detail, json.dumps(out["p1"]["trace"])), {"clause": clause, "model": case["model"]})
    else:
        r.ok(nt=True, outcome="ok", trans=len(out["p1"]["trace"]))
    return r

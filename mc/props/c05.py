"""
C05 - orientation and angular jitter follow the documented rotation convention.

Part A (kind "orient", E1): for every oriented model, every combination of <= D dimensions off their
base value out of {theta, phi, psi, jitter(theta), jitter(phi), jitter(psi), size dispersity, kernel
instantiation}.  One case = one (model, set of deviating dimensions) block; the block loops over the
full product of the alternatives of those dimensions.  Each evaluation calls the real 2-D kernel
(call_kernel) on a detector point set that is closed under the 90-degree rotation (all four quadrants,
all four half-axes, a point next to the origin) and judges it with

  (i)  the reference  I = scale * sum_k w_k |cos dtheta_k| F2(R_k^-1 (qx,qy,0); size_k)
                          / sum_k w_k |cos dtheta_k| V_shell(size_k)  + background,
       R = Rz(phi) Ry(theta) Rz(psi) Rx(dphi) Ry(dtheta) Rz(dpsi) built from numpy rotation matrices,
       the jitter mesh built here from the documented grid (centred on ZERO, width in degrees) and
       density, F2 and the volumes from the model's own Iqac/Iqabc/form_volume/shell_volume through the
       shim (mc.shim) - nothing of kernel_iq.c, details.py, weights.py (for the angles) is shared;
  (ii) consequences that need no shim: I(-q) = I(q); rotating the detector points and phi by the
       same angle alpha (seed-rotated, a second kernel call) leaves every value unchanged.

Part B (kind "oned"): 1-D results of every oriented model are unchanged - bit for bit through
call_kernel and DirectModel, to rounding through the SasView wrapper (which carries the angle mesh
along) - by orientation values, their dispersity, and both combined with size dispersity.

Part C (kind "unoriented"): 2-D results of every model without orientation parameters are equal on a
set of detector points of identical |q| and equal to the 1-D result at that |q|.  Models that supply
their own Iqxy(qx, qy) (line, micromagnetic_FF_3D: documented 2-D definitions of their own, the
kernel's CALL_IQ_XY route) are outside this clause; they are counted as "own-Iqxy-skipped".

Branches found in the code beyond the DESIGN alphabet:
* an angle WITHOUT jitter only stays at zero jitter through the kernel's explicit reset when it has no
  dispersity-loop slot, which needs max_pd other parameters dispersed (size alternative "fill");
* the rotation/jitter code is instantiated a second time in the Imagnetic kernel (dimension "kernel":
  an M0 of 1e-300 selects it without changing any SLD, so the same oracle applies);
* a jitter mesh truncated by the +-360 degree limits, and |cos(dtheta)| beyond 90 degrees;
* a single-point jitter mesh (npts=1) with a non-zero width: weights.Dispersion.get_weights special-cases
  npts < 2 and must return {0}, not {view angle}, for the absolute-width (orientation) parameters.
* the dispersity cutoff acts on (product of distribution weights) x |cos(dtheta)| and the rotation is built
  inside the `weight > cutoff` branch: dimension "cutoff" {1e-5, a value cutting 3-sigma gaussian tails} plus a
  "cutoff family" (kind "cutfam", both tiers, full product: jitter in theta / phi / theta+phi / psi / all three x
  jitter mesh {3, 5 points} x size mesh {9, 35, 3, 2 points: longer and shorter than the jitter mesh, i.e. both
  loop nestings} x both cutoffs).  A weight that ties with the cutoff to rounding is inconclusive.
* qac_apply() obtains qab indirectly as sqrt(|q|^2 - qc^2) and guards a slightly negative argument: every
  evaluation now also carries detector points constructed ON the projections of the particle axes (and on the
  in-plane perpendiculars) for its own view angles, theta gets the alternative 270, and an "axis family" (kind
  "axisfam", both tiers) forms theta in {+-90, +-270, 0, 180} x a menu of 10 phi (multiples of 90 and generic) x
  psi {generic, 0, 90} x {no jitter, phi jitter}.  A non-finite kernel value where the reference is finite is
  reported as such (clause ":non-finite"), never left to a comparison of differences.
* every built-in jitter distribution is symmetric about zero, which hides dphi -> -dphi (a sign in the jitter
  matrix): family "asymfam" (both tiers, all 21 models) feeds one-sided, unequally weighted explicit meshes
  {0, +-15, +-30} through make_kernel_args (what an array dispersion or a user distribution class supplies), every
  sign pattern over theta / phi / theta+phi / psi / all three, judged by the same rotation-formula reference;
* the parameter limits are applied to the zero-centred jitter values: kind "limits" requires the limits of every
  orientation parameter to be symmetric about zero and to contain [-180, 180] (the unchanged tree has [-360, 360]
  everywhere), and a built-in mesh whose mean is not zero after the cut is a violation ("jitter-mesh-not-centred").
An EMPTY angle mesh (e.g. rectangle, npts=2, nsigmas=3) is not a mesh of jitter angles and is not
enumerated.
"""
import itertools
import math

import numpy as np

from .. import build, refmodel, shim
from ..engine import R, HarnessError

ID = "C05"
TITLE = "Orientation and angular jitter follow the documented rotation convention"
LEVEL = "model_checking"
ENGINE = "E1"
TECHNIQUE = ("deviation-bounded exhaustive enumeration of view angles x jitter meshes x size dispersity x kernel "
             "instantiation on the real 2-D kernels, judged by an independent numpy rotation + jitter average of the "
             "model's own particle-frame functions (compiled shim) and by shim-free symmetry consequences")
RULE = ("per oriented model every combination of <=D dimensions off base (theta, phi, psi, jitter in each angle = "
        "type x npts x width, size dispersity, magnetic-kernel instantiation), full product of their alternatives; "
        "non-trivial = the 2-D value differs from the value at the same |q| on another azimuth by >1e-6 relative "
        "(1-D clause: the same parameter change moves the 2-D result; unoriented: >=2 distinct azimuths)")
ASSUMPTIONS = [
    "the model's own Iqac/Iqabc/form_volume/shell_volume, reached through wrappers appended to the generated source, "
    "are the particle-frame reference (the shim contains no physics)",
    "numpy rotation matrices Rz, Ry, Rx (right-handed, degrees) define the documented convention",
    "size-parameter distributions come from weights.get_weights (decided by C02); the jitter mesh is rebuilt here",
    "DLL driver only (no OpenCL/CUDA in the image); view angles, widths and detector points are drawn from the "
    "finite alphabet in coverage.bounds",
]
JTYPES = ["gaussian", "uniform", "rectangle", "boltzmann"]
JNPTS = [2, 3, 5]
JWIDTHS = [5.0, 40.0]
BOUNDS = {
    "quick": {"models": "all 21 oriented models", "D": 2,
              "theta": "base generic; {0, 90, 180, 270, generic negative}", "phi": "base generic; {0, generic negative, 270}",
              "psi": "base generic; {0, 90}",
              "jitter": "per angle: {gaussian, uniform, rectangle, boltzmann} x npts {2,3,5} x width {5, 40} deg "
                        "+ one mesh truncated by the +-360 limits + a single-point mesh (npts=1) with width 10",
              "size": "first (3 or 9 points) / last volume parameter dispersed / as many as there are dispersity loops left",
              "cutoff": "0; {1e-5, ~0.02 seed-rotated}; + cutoff family: angle sets x jitter {3,5 pts} x size {9,35,3,2 pts} x cutoffs", "kernel": "Iqxy; Imagnetic driven with M0=1e-300",
              "q": "17 fixed detector points (4 orbits under 90-degree rotation: quadrants, half-axes; + near-origin) + per "
                   "view 4 (symmetric) / <=12 (triaxial) points on the projected particle axes and their perpendiculars "
                   "(three |q| each in the axis family)",
              "axis family": "theta {+-90, +-270, 0, 180} x phi {0,90,180,270, 6 generic} x psi {generic,0,90} x {none, phi jitter}",
              "unoriented": "14 models", "oned": "all 21 oriented models"},
    "thorough": {"models": "all 21 oriented models", "D": 3, "alphabet": "as quick",
                 "unoriented": "every model without orientation parameters (compiled and pure Python)",
                 "oned": "all 21 oriented models"},
}
CASE_TIMEOUT = 900
CUTOFF_TAILS = (0.0213, 0.0187, 0.0231, 0.0173, 0.0247, 0.0199, 0.0223, 0.0161)
# cutoff family (both tiers, full product): jitter angle sets x jitter meshes x size meshes x cutoffs
# axis family (both tiers, full product): special theta x phi menu (multiples of 90 and generic) x psi menu x phi jitter
# asymmetric jitter family (both tiers): explicit meshes {0, +d, +2d} with unequal weights and their mirror images
ASYM_STEP = 15.0
ASYM_WEIGHTS = [0.5, 0.3, 0.2]
AXIS_THETAS = [90.0, -90.0, 270.0, -270.0, 0.0, 180.0]
CUTFAM_JITTER = [["gaussian", 3, 40.0], ["gaussian", 5, 5.0]]
CUTFAM_SIZE = [["first", "gaussian", 9, 0.15], ["first", "gaussian", 35, 0.15], ["first", "gaussian", 3, 0.15],
               ["last", "schulz", 2, 0.2]]

SCALE, BACKGROUND = 1.7, 0.0
UNORIENTED_QUICK = ["sphere", "core_shell_sphere", "fuzzy_sphere", "vesicle", "lamellar", "flexible_cylinder",
                    "pringle", "hardsphere", "hayter_msa", "dab", "broad_peak", "guinier", "fractal", "teubner_strey"]
GENERIC = {"theta": (37.0, 23.0, 61.0, 143.0, 52.0, 17.0, 118.0, 74.0),
           "phi": (60.0, 41.0, 155.0, 19.0, 203.0, 77.0, 309.0, 128.0),
           "psi": (71.0, 33.0, 12.0, 127.0, 58.0, 164.0, 46.0, 101.0),
           "neg": (-112.0, -47.0, -161.0, -23.0, -98.0, -7.0, -134.0, -66.0),
           "alpha": (33.0, 127.5, -61.0, 201.0, 14.5, -147.0, 72.0, 290.0)}


# ------------------------------------------------------------------------------------------------
# alphabet

def oriented_models():
    return [n for n in build.compiled_models() if build.info(n).parameters.orientation_parameters]


def unoriented_models(ctx):
    if ctx.quick:
        return list(UNORIENTED_QUICK)
    return [n for n in build.all_models() if not build.info(n).parameters.orientation_parameters]


def _gen(ctx, key, k=0):
    return ctx.rot(GENERIC[key], k)


def base_cfg(ctx):
    return {"theta": _gen(ctx, "theta"), "phi": _gen(ctx, "phi"), "psi": _gen(ctx, "psi"),
            "jtheta": None, "jphi": None, "jpsi": None, "size": None, "kernel": "nuc", "cutoff": 0.0}


def alternatives(ctx, dim):
    if dim == "theta":
        return [0.0, 90.0, 180.0, 270.0, _gen(ctx, "neg")]
    if dim == "phi":
        return [0.0, _gen(ctx, "neg", 1), 270.0]
    if dim == "psi":
        return [0.0, 90.0]
    if dim in ("jtheta", "jphi", "jpsi"):
        out = [[t, n, w] for t in JTYPES for n in JNPTS for w in JWIDTHS]
        out.append(["uniform", 5, 400.0])        # truncated by the +-360 limits to 3 points, |cos| of 200 degrees
        # a SINGLE-point mesh with a non-zero width (theta_pd=10, theta_pd_n=1; SasView npts=1, width=10): the
        # documented mesh is {0}, so the result must equal the un-jittered one (weights.py special-cases npts < 2)
        # (handled in Dispersion.get_weights before the type-specific code, so one distribution type suffices)
        out.append(["gaussian", 1, 10.0])
        return out
    if dim == "size":
        # "fill": as many volume parameters dispersed as there are dispersity loops left, so that an angle WITHOUT
        # jitter gets no loop slot and the kernel's "jitter defaults to zero" reset is what is observed
        # 9 points: MORE than any jitter mesh (2, 3, 5), so the size loop is the innermost one; 3 and 2 points: fewer
        return [["first", "gaussian", 3, 0.15], ["last", "schulz", 2, 0.2], ["fill", "gaussian", 2, 0.1],
                ["first", "gaussian", 9, 0.15]]
    if dim == "kernel":
        return ["mag"]
    if dim == "cutoff":
        # DirectModel's default, and a value that cuts the tails of a 3-sigma gaussian (not a round number, so
        # that no product of uniform weights 1/2, 1/3, 1/5 ties with it)
        return [1e-5, ctx.rot(CUTOFF_TAILS)]
    raise HarnessError("unknown dimension %r" % dim)


def dims_of(info):
    d = ["theta", "phi"] + (["psi"] if info.parameters.is_asymmetric else [])
    d += ["jtheta", "jphi"] + (["jpsi"] if info.parameters.is_asymmetric else [])
    d += ["size"]
    if info.parameters.nmagnetic > 0:
        d.append("kernel")
    d.append("cutoff")
    return d


def detector_points(ctx):
    """(n,2) array closed under the 90-degree rotation, + one point next to the origin (index 0)"""
    f = 1.0 if ctx.seed == 0 else ctx.factor(3)
    seeds = [(0.041, 0.023), (-0.019, 0.11), (0.07, 0.0), (0.21, 0.13)]
    pts = [(2e-4, 1e-4)]
    for x, y in seeds:
        x, y = x * f, y * f
        pts += [(x, y), (-y, x), (-x, -y), (y, -x)]
    return np.array(pts, float)


def axis_points(ctx, view, asym, mags=(0.087,)):
    """
    detector points constructed ON the projections of the particle axes (c; also a, b for triaxial shapes) into
    the detector plane and on the in-plane perpendiculars, at the given |q| (one in the deviation blocks, three in the
    axis family), in groups (p, p_perp, -p, -p_perp) like
    detector_points.  With the axis exactly in the detector plane (theta = +-90, +-270) the point p has
    qab^2 = |q|^2 - qc^2 = 0 up to rounding, the input on which the kernel's indirect qab needs its guard.
    Returns (array (4k,2), in_plane: some axis lies in the detector plane to rounding).
    """
    theta, phi, psi = view
    V = Rz(phi) @ Ry(theta) @ Rz(psi)
    f = 1.0 if ctx.seed == 0 else ctx.factor(3)
    pts, in_plane = [], False
    for j in ((0, 1, 2) if asym else (2,)):
        x, y = float(V[0, j]), float(V[1, j])
        n = math.hypot(x, y)
        if n < 1e-6:
            continue            # axis along the beam: no direction in the detector plane
        if abs(n - 1.0) > 1e-9:
            x, y = x / n, y / n
        else:
            in_plane = True     # keep (cos phi, sin phi)-like components exactly as the rotation produces them
        for mag in mags:
            px, py = mag * f * x, mag * f * y
            pts += [(px, py), (-py, px), (-px, -py), (py, -px)]
    return np.array(pts, float).reshape(-1, 2), in_plane


def setup(ctx):
    om = oriented_models()
    if len(om) < 21:
        raise HarnessError("expected >= 21 oriented models, found %d" % len(om))
    un = [n for n in unoriented_models(ctx) if not callable(build.info(n).Iq)]
    bad = build.prebuild(ctx, om + un)
    if bad:
        raise HarnessError("models failed to build: %r" % bad)
    paths = shim.build_all(ctx, [(n, None) for n in om])
    ctx.notes["shim"] = {n: p for (n, _), p in paths.items()}


def cases(ctx):
    out = []
    D = 2 if ctx.quick else 3
    for m in oriented_models():
        dims = dims_of(build.info(m))
        for k in range(D + 1):
            for sub in itertools.combinations(dims, k):
                # large blocks are split on their widest dimensions (load balance only: the union is the full product)
                sizes = {d: len(alternatives(ctx, d)) for d in sub}
                lead = []
                while np.prod([sizes[d] for d in sub if d not in lead] or [1]) > 200:
                    lead.append(max((d for d in sub if d not in lead), key=lambda d: sizes[d]))
                for idx in itertools.product(*[range(sizes[d]) for d in lead]):
                    case = {"kind": "orient", "model": m, "dims": list(sub)}
                    if lead:
                        case["lead"] = dict(zip(lead, idx))
                    out.append(case)
        angle_sets = [["theta"], ["phi"], ["theta", "phi"]]
        if build.info(m).parameters.is_asymmetric:
            angle_sets += [["psi"], ["theta", "phi", "psi"]]
        for th in AXIS_THETAS:
            out.append({"kind": "axisfam", "model": m, "theta": th})
        out.append({"kind": "limits", "model": m})
        for aset in angle_sets:
            out.append({"kind": "asymfam", "model": m, "angles": aset})
        for aset in angle_sets:
            for jspec in CUTFAM_JITTER:
                for sspec in CUTFAM_SIZE:
                    out.append({"kind": "cutfam", "model": m, "angles": aset, "jitter": jspec, "size": sspec})
        out.append({"kind": "oned", "model": m})
    for m in unoriented_models(ctx):
        out.append({"kind": "unoriented", "model": m})
    return out


# ------------------------------------------------------------------------------------------------
# reference model

def Rx(a):
    c, s = math.cos(math.radians(a)), math.sin(math.radians(a))
    return np.array([[1, 0, 0], [0, c, -s], [0, s, c]], float)


def Ry(a):
    c, s = math.cos(math.radians(a)), math.sin(math.radians(a))
    return np.array([[c, 0, s], [0, 1, 0], [-s, 0, c]], float)


def Rz(a):
    c, s = math.cos(math.radians(a)), math.sin(math.radians(a))
    return np.array([[c, -s, 0], [s, c, 0], [0, 0, 1]], float)


def jitter_mesh(spec, limits):
    """documented jitter mesh: npts values centred on ZERO spanning +-nsigmas*width degrees (uniform: +-width),
    cut by the parameter limits, weighted by the density; returns (values, weights, nsigmas)"""
    if spec is None:
        return np.array([0.0]), np.array([1.0]), 3.0
    if spec[0] == "array":
        # an explicit (tabulated / user-defined) jitter distribution: values and weights as given, cut by the limits
        x, w = np.asarray(spec[1], float), np.asarray(spec[2], float)
        keep = (x >= limits[0]) & (x <= limits[1])
        return x[keep], w[keep] / w[keep].sum(), 3.0
    t, n, width = spec
    nsig = 1.73205 if t == "rectangle" else 3.0
    if n < 2:
        # one point: the centre of the jitter distribution, i.e. no jitter at all, whatever the width
        return np.array([0.0]), np.array([1.0]), nsig
    if t == "uniform":
        x = np.linspace(-width, width, n)
    else:
        x = np.linspace(-nsig * width, nsig * width, n)
    if t == "rectangle":
        x = x[np.abs(x) <= width * math.sqrt(3.0)]
    x = x[(x >= limits[0]) & (x <= limits[1])]
    if t == "gaussian":
        w = np.exp(-0.5 * (x / width) ** 2)
    elif t == "boltzmann":
        w = np.exp(-np.abs(x) / width)
    else:
        w = np.ones_like(x)
    return x, w / w.sum(), nsig


def par_by_name(info, name):
    for p in info.parameters.call_parameters:
        if p.name == name:
            return p
    raise KeyError(name)


def size_choice(info, spec, njit=0):
    """names of the size parameters dispersed by a size alternative"""
    vol = [p.name for p in info.parameters.kernel_parameters if p.type == "volume" and p.length == 1]
    if spec[0] == "first":
        return vol[:1]
    if spec[0] == "last":
        return vol[-1:]
    return vol[:max(1, info.parameters.max_pd - njit)]


def reference(sh, info, pars, view, jit, size, Q, cutoff=0.0):
    """
    view = (theta, phi, psi); jit = [(values, weights)] for dtheta, dphi, dpsi; size = None or [(name, values, weights)]
    A mesh point takes part iff (product of its distribution weights) x |cos(dtheta)| > cutoff.
    Returns I[n], mag[n] (sum of |terms|), fmax (largest |F2| met), npoints, ncut, tie   (tie: some weight is
    within rounding of the cutoff, so which side it falls on depends on the order of the multiplications)
    """
    theta, phi, psi = view
    V = Rz(phi) @ Ry(theta) @ Rz(psi)
    (xt, wt), (xp, wp), (xs, ws) = jit
    q3 = np.zeros((len(Q), 3))
    q3[:, :2] = Q
    rows, wj = [], []
    for (dt, w1), (dp, w2), (ds, w3) in itertools.product(zip(xt, wt), zip(xp, wp), zip(xs, ws)):
        Rfull = V @ Rx(dp) @ Ry(dt) @ Rz(ds)
        rows.append(q3 @ Rfull)               # rows are (R^T q)^T = q^T R
        wj.append(w1 * w2 * w3 * abs(math.cos(math.radians(dt))))
    qabc = np.concatenate(rows, axis=0)
    wj = np.array(wj)
    nq = len(Q)
    snames = [nm for nm, _, _ in (size or [])]
    sgrids = [list(zip(x, w)) for _, x, w in (size or [])]
    num = np.zeros(nq)
    mag = np.zeros(nq)
    norm = 0.0
    fmax = 0.0
    npoints = ncut = 0
    tie = False
    for combo in itertools.product(*sgrids):
        sw = float(np.prod([w_ for _, w_ in combo])) if combo else 1.0
        p = sh.pvec(dict(pars, **{nm: float(v_) for nm, (v_, _) in zip(snames, combo)}))
        npoints += len(wj)
        if not sh.valid(p):
            continue
        form, shell = sh.volumes(p)
        F2 = sh.Ivec(qabc, p).reshape(len(wj), nq)
        fmax = max(fmax, float(np.max(np.abs(F2))))
        w = sw * wj
        keep = w > cutoff
        if cutoff > 0 and np.any(np.abs(w - cutoff) <= 1e-12 * cutoff):
            tie = True
        ncut += int(np.sum(~keep))
        w = np.where(keep, w, 0.0)
        num += w @ F2
        mag += np.abs(w) @ np.abs(F2)
        norm += float(np.sum(w)) * shell
    if norm == 0.0:
        return None
    scale = pars["scale"]
    return (scale * num / norm + pars["background"], abs(scale) * mag / abs(norm) + abs(pars["background"]),
            abs(scale) * fmax / abs(norm), npoints, ncut, tie)


# ------------------------------------------------------------------------------------------------

def run_case(case, ctx):
    kind = case["kind"]
    if kind == "limits":
        return _run_limits(case, ctx)
    if kind in ("orient", "cutfam", "axisfam", "asymfam"):
        return _run_orient(case, ctx)
    if kind == "oned":
        return _run_oned(case, ctx)
    if kind == "unoriented":
        return _run_unoriented(case, ctx)
    raise HarnessError("unknown case kind %r" % kind)


def _defaults(info):
    pars = {p.name: p.default for p in info.parameters.call_parameters}
    pars["scale"], pars["background"] = SCALE, BACKGROUND
    return pars


def _clause(cfg):
    jit = any(cfg[k] for k in ("jtheta", "jphi", "jpsi"))
    c = ("jitter+size" if cfg["size"] else "jitter") if jit else ("size" if cfg["size"] else "view")
    if cfg["kernel"] == "mag":
        c += "/magnetic-kernel"
    if cfg["cutoff"] > 0:
        c += "/cutoff"
    return c


def _call_with_arrays(kernel, info, pars, arrays, cutoff):
    """call_kernel with explicit (values, weights) meshes for some angles: exactly direct_model.call_kernel, except that
    the mesh entries of those parameters are the given arrays (as an array dispersion / user distribution supplies)"""
    from sasmodels.direct_model import get_mesh
    from sasmodels.details import make_kernel_args
    mesh = get_mesh(info, pars, dim="2d")
    names = [p.name for p in info.parameters.call_parameters]
    for ang, (x, w) in arrays.items():
        i = names.index(ang)
        mesh[i] = (mesh[i][0], x.copy(), w.copy())
    call_details, values, is_magnetic = make_kernel_args(kernel, mesh)
    return kernel(call_details, values, cutoff, is_magnetic)


def _run_limits(case, ctx):
    """table-level clause: the limits of every orientation parameter admit a jitter range that is symmetric about zero.
    On the unchanged tree every orientation parameter of all 21 oriented models has limits [-360, 360]; the limits are
    applied to the zero-centred JITTER values, so an interval that is not symmetric about zero, or that does not
    contain the documented jitter range [-180, 180], moves the centre of every wide enough mesh away from zero."""
    r = R()
    name = case["model"]
    info = build.info(name)
    for p in info.parameters.kernel_parameters:
        if p.type != "orientation":
            continue
        lo, hi = p.limits
        if not (lo <= -180.0 and hi >= 180.0 and lo == -hi):
            r.fail("%s: orientation parameter %s has limits [%g, %g]; they are applied to the jitter values (centred on "
                   "zero), so they must be symmetric about zero and contain [-180, 180]" % (name, p.name, lo, hi),
                   {"model": name, "clause": "orientation-limits", "angle": p.name})
        else:
            r.ok(nt=True, outcome="limits-symmetric", branches=["orientation-limits"])
    return r


def _run_orient(case, ctx):
    from sasmodels.direct_model import call_kernel, get_mesh
    from sasmodels.details import make_kernel_args
    r = R()
    name = case["model"]
    m = build.model(name)
    info = m.info
    sh = shim.load(ctx.notes["shim"][name], name)
    asym = info.parameters.is_asymmetric
    Q0 = detector_points(ctx)
    alpha = _gen(ctx, "alpha")
    kernels = {}

    def detector(view):
        """fixed detector points + points on the projected particle axes of this view; kernels cached per view"""
        if view not in kernels:
            Qa, in_plane = axis_points(ctx, view, asym, (0.033, 0.087, 0.19) if case["kind"] == "axisfam" else (0.087,))
            Qv = np.concatenate([Q0, Qa], axis=0)
            Qr = Qv @ Rz(alpha)[:2, :2].T
            # index triples: q, -q, and the same |q| on the perpendicular azimuth
            orb = [(1 + 4 * g + j, 1 + 4 * g + (j + 2) % 4, 1 + 4 * g + (j + 1) % 4)
                   for g in range((len(Qv) - 1) // 4) for j in range(4)]
            kernels[view] = (Qv, m.make_kernel([Qv[:, 0].copy(), Qv[:, 1].copy()]),
                             m.make_kernel([Qr[:, 0].copy(), Qr[:, 1].copy()]), orb, len(Qa), in_plane)
        return kernels[view]

    base = base_cfg(ctx)
    dims = case.get("dims", [])
    sld_names = [p.name for p in info.parameters.kernel_parameters if p.type == "sld"]
    todo = []
    if case["kind"] == "asymfam":
        # one-sided, unequally weighted explicit meshes and their mirror images, every sign pattern over the angle set
        d = ASYM_STEP
        for signs in itertools.product((1.0, -1.0), repeat=len(case["angles"])):
            cfg = dict(base)
            for a, sg in zip(case["angles"], signs):
                cfg["j" + a] = ["array", [0.0, sg * d, sg * 2 * d], ASYM_WEIGHTS]
            todo.append((cfg, {"angles": case["angles"], "signs": list(signs)}))
    elif case["kind"] == "axisfam":
        # special theta x phi menu x psi menu x {no jitter, phi jitter with a central mesh point}: full product
        phis = [0.0, 90.0, 180.0, 270.0] + [_gen(ctx, "phi", k) for k in range(4)] + [_gen(ctx, "neg", k) for k in (1, 2)]
        psis = [base["psi"], 0.0, 90.0] if asym else [base["psi"]]
        for ph, ps, js in itertools.product(phis, psis, [None, ["gaussian", 3, 5.0]]):
            cfg = dict(base, theta=case["theta"], phi=ph, psi=ps, jphi=js)
            todo.append((cfg, {"theta": case["theta"], "phi": ph, "psi": ps, "jphi": js}))
    elif case["kind"] == "cutfam":
        for jspec, sspec, cut in itertools.product([case["jitter"]], [case["size"]], alternatives(ctx, "cutoff")):
            cfg = dict(base, size=sspec, cutoff=cut)
            cfg.update({"j" + a: jspec for a in case["angles"]})
            todo.append((cfg, {"jitter": jspec, "size": sspec, "cutoff": cut}))
    else:
        lead = case.get("lead") or {}
        alts = [[alternatives(ctx, d)[lead[d]]] if d in lead else alternatives(ctx, d) for d in dims]
        for combo in itertools.product(*alts):
            cfg = dict(base)
            cfg.update(zip(dims, combo))
            todo.append((cfg, {d: cfg[d] for d in dims}))
    for cfg, sub in todo:
        fk = {"model": name, "clause": _clause(cfg)}
        pars = _defaults(info)
        pars["theta"], pars["phi"] = cfg["theta"], cfg["phi"]
        view = (cfg["theta"], cfg["phi"], cfg["psi"] if asym else 0.0)
        Q, k1, k2, orbit, naxis, in_plane = detector(view)
        if asym:
            pars["psi"] = cfg["psi"]
        ref_pars = dict(pars)
        jit = []
        br = []
        arrays = {}
        off_centre = False
        for ang in ("theta", "phi", "psi"):
            spec = cfg["j" + ang] if (asym or ang != "psi") else None
            par = par_by_name(info, ang) if spec else None
            x, w, nsig = jitter_mesh(spec, par.limits if par else (-360.0, 360.0))
            jit.append((x, w))
            if spec and spec[0] == "array":
                # fed to the kernel as an explicit mesh (what an array dispersion / a user distribution class produces)
                arrays[ang] = (np.asarray(spec[1], float), np.asarray(spec[2], float))
                br.append("jitter-asymmetric:" + ang)
            elif spec:
                if len(x) and abs(float(np.dot(x, w))) > 1e-9 * max(1.0, float(np.max(np.abs(x)))):
                    # every built-in distribution is symmetric about its centre: a mesh whose mean is not zero has
                    # been cut on one side by the parameter limits, i.e. it is no longer "centred on zero"
                    lim = par.limits
                    r.fail("%s: the %s jitter mesh %s (limits %r) is not centred on zero: values %s"
                           % (name, ang, spec, lim, x), {"model": name, "clause": "jitter-mesh-not-centred", "angle": ang},
                           sub, branches=br)
                    off_centre = True
                t, n, width = spec
                pars.update({ang + "_pd": width, ang + "_pd_n": n, ang + "_pd_type": t, ang + "_pd_nsigma": nsig})
                br.append("jitter:" + ang if n > 1 else "jitter-single-point:" + ang)
                if len(x) < n:
                    br.append("jitter-truncated-by-limits")
                if np.any(np.abs(x) > 90.0) and ang == "theta":
                    br.append("cos(dtheta)<0")
        if off_centre:
            continue
        njit = sum(1 for k in ("jtheta", "jphi", "jpsi") if cfg[k])
        size = None
        if cfg["size"]:
            _, t, n, width = cfg["size"]
            size = []
            for sname in size_choice(info, cfg["size"], njit):
                sx, sw = refmodel.par_dist(par_by_name(info, sname), t, n, width, 3.0, pars[sname])
                pars.update({sname + "_pd": width, sname + "_pd_n": n, sname + "_pd_type": t,
                             sname + "_pd_nsigma": 3.0})
                size.append((sname, sx, sw))
            br.append("size-dispersed")
            nangles = 3 if asym else 2
            if len(size) + njit >= info.parameters.max_pd and njit < nangles:
                br.append("angle-without-loop-slot")
        if cfg["kernel"] == "mag":
            # drives the Imagnetic instantiation of the rotation/jitter code; 1e-300 leaves every SLD unchanged
            pars[sld_names[0] + "_M0"] = 1e-300
            if not make_kernel_args(k1, get_mesh(info, pars, dim="2d"))[2]:
                raise HarnessError("%s: M0=1e-300 did not select the magnetic kernel" % name)
            br.append("magnetic-kernel")
        br.append("jitter-angles:%d" % njit)
        if naxis:
            br.append("on-axis-detector-points")
        if in_plane:
            br.append("axis-in-detector-plane" + (":phi-jitter" if cfg["jphi"] else ""))
        if cfg["theta"] in (0.0, 180.0):
            br.append("theta-pole")
        shown = {k: v for k, v in pars.items() if k in ("theta", "phi", "psi") or "_pd" in k or k.endswith("_M0")}
        desc = "call_kernel(%s 2-D, %s%s) at (qx,qy)=" % (name, shown,
                                                          ", cutoff=%r" % cfg["cutoff"] if cfg["cutoff"] else "")
        try:
            with np.errstate(all="ignore"):
                ref = reference(sh, info, ref_pars, view, jit, size, Q, cfg["cutoff"])
        except Exception as exc:  # noqa - the reference is the harness
            raise HarnessError("reference failed for %s %r: %r" % (name, sub, exc))
        if ref is None or not np.all(np.isfinite(ref[0])):
            r.inconc("all-points-below-cutoff" if cfg["cutoff"] > 0 else "reference-undefined")
            continue
        Iref, mag, fmax, npoints, ncut, tie = ref
        if tie:
            r.inconc("weight-ties-with-cutoff")
            continue
        if cfg["cutoff"] > 0:
            br.append("cutoff")
            if ncut and njit:
                # the kernel nests the loops by decreasing length: the longest distribution is the innermost loop
                jlen = max(len(x) for x, _ in jit)
                slen = max([len(x) for _, x, _ in (size or [])] or [1])
                br.append("cutoff-excluded-jittered")
                br.append("cutoff-excluded:" + ("size-loop-innermost" if slen > jlen else
                                                "jitter-loop-innermost" if jlen > slen else "equal-lengths"))
        try:
            if arrays:
                A = np.array(_call_with_arrays(k1, info, pars, arrays, cfg["cutoff"]), float)
                B = np.array(_call_with_arrays(k2, info, dict(pars, phi=pars["phi"] + alpha), arrays, cfg["cutoff"]), float)
            else:
                A = np.array(call_kernel(k1, pars, cutoff=cfg["cutoff"]), float)
                B = np.array(call_kernel(k2, dict(pars, phi=pars["phi"] + alpha), cutoff=cfg["cutoff"]), float)
        except Exception as exc:  # noqa
            r.fail("%s... raised %r" % (desc, exc), dict(fk, clause=fk["clause"] + ":raises"), sub, branches=br)
            continue
        tol = 1e-11 * mag + 1e-13 * fmax
        if not (np.all(np.isfinite(A)) and np.all(np.isfinite(B))):
            # never left to a comparison of differences: a NaN/inf where the reference is finite is a violation
            bad_idx = np.flatnonzero(~np.isfinite(A)) if not np.all(np.isfinite(A)) else np.flatnonzero(~np.isfinite(B))
            j = int(bad_idx[0])
            r.fail("%s%s: kernel returns %r where the reference is %.15g (%d of %d detector points non-finite%s)"
                   % (desc, Q[j].tolist(), float(A[j]) if not np.isfinite(A[j]) else float(B[j]), Iref[j], len(bad_idx),
                      len(Q), "" if not np.all(np.isfinite(A)) else "; after rotating the points and phi by %g" % alpha),
                   dict(fk, clause=fk["clause"] + ":non-finite"), sub, branches=br)
            continue
        nt = bool(any(abs(A[i] - A[k]) > 1e-6 * abs(A[i]) for i, _, k in orbit))
        err = np.abs(A - Iref)
        if not np.all(err <= tol):
            j = int(np.argmax(err - tol))
            r.fail("%s(%.6g, %.6g): kernel %.15g, reference %.15g (rel. diff %.3g; R=Rz(phi)Ry(theta)Rz(psi)Rx(dphi)"
                   "Ry(dtheta)Rz(dpsi), mesh of %d points, %d below the cutoff)\n  all points: kernel %s\n  reference %s"
                   % (desc, Q[j, 0], Q[j, 1], A[j], Iref[j], err[j] / max(abs(Iref[j]), 1e-300), npoints, ncut,
                      A[:6], Iref[:6]), fk, sub, nt=nt, trans=2 * npoints, branches=br)
            continue
        bad = [(i, j) for i, j, _ in orbit if not abs(A[i] - A[j]) <= tol[i] + tol[j]]
        if bad:
            i, j = bad[0]
            r.fail("%s: I(-q) != I(q): I(%.6g,%.6g)=%.15g, I(%.6g,%.6g)=%.15g"
                   % (desc, Q[i, 0], Q[i, 1], A[i], Q[j, 0], Q[j, 1], A[j]),
                   dict(fk, clause=fk["clause"] + ":minus-q"), sub, nt=nt, branches=br)
            continue
        err = np.abs(A - B)
        if not np.all(err <= 2 * tol):
            j = int(np.argmax(err - 2 * tol))
            r.fail("%s(%.6g, %.6g) = %.15g but rotating the detector point and phi by %g degrees gives %.15g"
                   % (desc, Q[j, 0], Q[j, 1], A[j], alpha, B[j]),
                   dict(fk, clause=fk["clause"] + ":q-phi-rotation"), sub, nt=nt, branches=br)
            continue
        r.ok(nt=nt, outcome="%s:j%d:%s" % (fk["clause"], njit, "nt" if nt else "flat"), trans=2 * npoints,
             branches=br + (["anisotropic"] if nt else []))
        if nt and not r.samples:
            r.sample({"call": desc + "%s" % Q[1:3].tolist(), "kernel": [float(v) for v in A[1:3]],
                      "reference": [float(v) for v in Iref[1:3]], "mesh_points": npoints})
    for _, ka, kb, _, _, _ in kernels.values():
        ka.release()
        kb.release()
    return r


# ------------------------------------------------------------------------------------------------
# 1-D clause

def _run_oned(case, ctx):
    from sasmodels.direct_model import call_kernel, DirectModel
    from sasmodels.data import empty_data1D
    from sasmodels.sasview_model import _make_standard_model
    r = R()
    name = case["model"]
    m = build.model(name)
    info = m.info
    asym = info.parameters.is_asymmetric
    angles = ["theta", "phi"] + (["psi"] if asym else [])
    q = np.array([0.004, 0.031, 0.19]) * (1.0 if ctx.seed == 0 else ctx.factor(3))
    Q = detector_points(ctx)
    k1d = m.make_kernel([q.copy()])
    k2d = m.make_kernel([Q[:, 0].copy(), Q[:, 1].copy()])
    base = _defaults(info)
    sname = size_choice(info, ["first"])[0]
    sizepd = {sname + "_pd": 0.15, sname + "_pd_n": 3, sname + "_pd_type": "gaussian", sname + "_pd_nsigma": 3.0}
    values = {a: _gen(ctx, a) for a in angles}
    jit = {}
    for k, a in enumerate(angles):
        t = JTYPES[k % len(JTYPES)]
        jit.update({a + "_pd": 40.0 if k == 0 else 5.0 * (k + 1), a + "_pd_n": (3, 2, 2)[k], a + "_pd_type": t,
                    a + "_pd_nsigma": 1.73205 if t == "rectangle" else 3.0})   # (an EMPTY angle mesh is out of scope)
    configs = [("values", values, {}), ("jitter", {}, jit), ("values+jitter", values, jit),
               ("values+jitter+size", values, dict(jit, **sizepd))]
    for a in angles:    # each angle alone, special values
        for v in (0.0, 90.0, 180.0):
            configs.append(("%s=%g" % (a, v), {a: v}, {}))
        configs.append(("%s jitter" % a, {}, {k: v for k, v in jit.items() if k.startswith(a)}))
    data = empty_data1D(q)
    direct = DirectModel(data, m, cutoff=0.0)
    Wrapper = _make_standard_model(name)
    def wrapper_eval(P):
        w = Wrapper()
        w.cutoff = 0.0
        for key, v in P.items():
            if "_pd" not in key:
                w.setParam(key, v)
        for key in list(w.dispersion):
            if key + "_pd_n" in P:
                w.dispersion[key].update(width=P[key + "_pd"], npts=P[key + "_pd_n"],
                                         nsigmas=P[key + "_pd_nsigma"], type=P[key + "_pd_type"])
        return np.array(w.evalDistribution(q.copy()))

    def evaluate(P):
        return (np.array(call_kernel(k1d, P, cutoff=0.0)), np.array(direct(**P)),
                np.array(call_kernel(k2d, P, cutoff=0.0)), wrapper_eval(P))

    reference_values = {}
    for label, vals, pd in configs:
        fk = {"model": name, "clause": "1d-orientation"}
        sub = {"config": label}
        with_size = any(k.startswith(sname) for k in pd)
        ref_pars = dict(base, **(sizepd if with_size else {}))
        pars = dict(ref_pars, **vals)
        pars.update(pd)
        desc = "%s 1-D with %s" % (name, dict(vals, **pd))
        try:
            if with_size not in reference_values:
                reference_values[with_size] = evaluate(ref_pars)
            I0, D0, two0, W0 = reference_values[with_size]
            I1, D1, two1, W1 = evaluate(pars)
            W = [W0, W1]
        except Exception as exc:  # noqa
            r.fail("%s raised %r" % (desc, exc), dict(fk, clause="1d-orientation:raises"), sub)
            continue
        nt = bool(np.any(np.abs(two1 - two0) > 1e-6 * np.abs(two0)))
        if I1.tobytes() != I0.tobytes():
            r.fail("%s: call_kernel gives %s, without them %s" % (desc, I1, I0), dict(fk, path="call_kernel"), sub, nt=nt)
            continue
        if D1.tobytes() != D0.tobytes():
            r.fail("%s: DirectModel gives %s, without them %s" % (desc, D1, D0), dict(fk, path="DirectModel"), sub, nt=nt)
            continue
        ok1, _ = refmodel.close(W[1], W[0], rtol=1e-12)
        ok2, _ = refmodel.close(W[0], I0, rtol=1e-12)
        if not (ok1 and ok2):
            r.fail("%s: SasviewModel.evalDistribution gives %s, without them %s (call_kernel %s)" % (desc, W[1], W[0], I0),
                   dict(fk, path="SasviewModel"), sub, nt=nt)
            continue
        r.ok(nt=nt, outcome="oned:%s" % ("nt" if nt else "same2d"), trans=8, branches=["oned"] + (["oned-2d-moved"] if nt else []))
    if not r.samples:
        r.sample({"model": name, "q": q.tolist(), "configs": [c[0] for c in configs]})
    k1d.release()
    k2d.release()
    return r


# ------------------------------------------------------------------------------------------------
# models without orientation parameters

def own_iqxy(info):
    """the model supplies its own Iqxy(qx, qy, ...): the documented way to take full control of the 2-D pattern
    (kernel_iq.c CALL_IQ_XY); such a model (line, micromagnetic_FF_3D) documents its own 2-D definition and is
    outside "depends on |q| only", which is about models routed through Iq(|q|)"""
    from sasmodels import generate
    if info.Iqxy is not None:
        return True
    if callable(info.Iq):
        return False
    code = [generate.read_text(f) for f in generate.model_sources(info)]
    if isinstance(info.c_code, str):
        code.append(info.c_code)
    return generate.find_xy_mode(code) == "qxy"


def _run_unoriented(case, ctx):
    from sasmodels.direct_model import call_kernel
    r = R()
    name = case["model"]
    m = build.model(name)
    info = m.info
    if own_iqxy(info):
        return r.ok(nt=False, outcome="own-Iqxy: outside the clause", branches=["own-Iqxy-skipped"])
    f = 1.0 if ctx.seed == 0 else ctx.factor(3)
    fk = {"model": name, "clause": "unoriented"}
    for a, b in ((0.041, 0.023), (0.019, 0.11), (0.0, 0.07), (0.21, 0.13), (3e-4, 1e-4)):
        a, b = a * f, b * f
        # all sign/swap images have bit-identical qx*qx+qy*qy
        pts = sorted(set([(a, b), (-a, b), (a, -b), (-a, -b), (b, a), (-b, a), (b, -a), (-b, -a)]))
        qx = np.array([p[0] for p in pts])
        qy = np.array([p[1] for p in pts])
        qmag = np.sqrt(qx * qx + qy * qy)
        if np.ptp(qmag) != 0.0:
            raise HarnessError("detector points of one orbit must have identical |q|")
        pars = _defaults(info)
        desc = "%s 2-D at |q|=%.17g, points %s" % (name, qmag[0], pts)
        try:
            k2 = m.make_kernel([qx, qy])
            I2 = np.array(call_kernel(k2, pars, cutoff=0.0), float)
            k1 = m.make_kernel([qmag[:1].copy()])
            I1 = np.array(call_kernel(k1, pars, cutoff=0.0), float)
        except Exception as exc:  # noqa
            r.fail("%s raised %r" % (desc, exc), dict(fk, clause="unoriented:raises"), {"q": [a, b]})
            continue
        if not np.all(np.isfinite(I2)) and np.all(np.isnan(I2)) and np.all(np.isnan(I1)):
            r.inconc("nan-at-defaults")
            continue
        tol = 1e-13 * max(abs(I1[0]), 1e-300)
        if not np.all(np.abs(I2 - I2[0]) <= tol):
            r.fail("%s: values differ with azimuth: %s" % (desc, I2), fk, {"q": [a, b]})
            continue
        if not abs(I2[0] - I1[0]) <= tol:
            r.fail("%s: 2-D value %.17g differs from the 1-D value %.17g at the same |q|" % (desc, I2[0], I1[0]),
                   dict(fk, clause="unoriented:1d"), {"q": [a, b]})
            continue
        r.ok(nt=True, outcome="unoriented", trans=2, branches=["unoriented"])
    if not r.samples:
        r.sample({"model": name, "kind": "unoriented"})
    return r


def finish(ctx, report):
    report.require("anisotropic", 1000, "evaluations whose 2-D value depends on the azimuth")
    for a in ("theta", "phi", "psi"):
        report.require("jitter:" + a, 500, "jitter mesh in " + a)
        report.require("jitter-single-point:" + a, 40, "one-point jitter mesh with non-zero width in " + a)
    report.require("jitter-angles:2", 500, "two angles jittered together")
    if not ctx.quick:
        report.require("jitter-angles:3", 500, "three angles jittered together")
    report.require("cos(dtheta)<0", 100, "|cos(dtheta)| with dtheta beyond 90 degrees")
    report.require("jitter-truncated-by-limits", 20, "jitter mesh cut by the angle limits")
    report.require("size-dispersed", 100, "size dispersity combined with orientation")
    report.require("cutoff-excluded:size-loop-innermost", 100, "cutoff dropped >=1 point of a jittered mesh, size loop innermost")
    report.require("cutoff-excluded:jitter-loop-innermost", 100, "cutoff dropped >=1 point of a jittered mesh, jitter loop innermost")
    report.require("magnetic-kernel", 100, "Imagnetic instantiation")
    report.require("theta-pole", 100, "theta = 0 / 180")
    report.require("orientation-limits", 51, "orientation parameters whose limits were examined")
    for a in ("theta", "phi", "psi"):
        report.require("jitter-asymmetric:" + a, 40, "explicit jitter mesh not symmetric about zero in " + a)
    report.require("on-axis-detector-points", 1000, "detector points on the projected particle axes")
    report.require("axis-in-detector-plane", 300, "symmetry axis exactly in the detector plane, detector points on it")
    report.require("axis-in-detector-plane:phi-jitter", 300, "the same with phi jitter (central mesh point on the axis)")
    report.require("angle-without-loop-slot", 100, "all dispersity loops taken, an un-jittered angle relies on the zero default")
    report.require("oned", 100, "1-D invariance configurations")
    report.require("oned-2d-moved", 50, "1-D invariance where the 2-D result does move")
    report.require("unoriented", 40, "unoriented models")

"""
C19 - the SESANS transform is the Hankel transform G(xi) - G(0) of I(q), masked by the acceptance.

Space (full product, nothing sampled): number of spin-echo lengths x grid kind x range x wavelength x
acceptance angle.  One case = one transform built from a data object exactly as DirectModel builds it
(`direct_model._make_sesans_transform(empty_sesans(xi, wavelength, (theta, 'radians')))`), judged with

  * q_calc finite, positive, strictly increasing;
  * linearity apply(a f + b g) = a apply(f) + b apply(g) to rounding;
  * Gaussians I(q) = exp(-q^2 s^2/2) and sums of two whose 1/s lies well inside the calculated range
    (20 q_min < 1/s < q_max/20) and well inside the acceptance (60/s < q_acc):
    |apply - (exp(-xi^2/2s^2) - 1)/(2 pi s^2)| <= 2 (log_spacing - 1) / (2 pi s^2);
  * Gaussians that the acceptance cuts (q_acc < 60/s): the same integral, truncated at q_acc, by an independent
    Gauss-Legendre quadrature;
  * direct inspection of the transform through unit impulses apply(e_j) at calculated q values just inside and
    just outside the acceptance q_acc = (2 pi/lambda) sin(theta_acc) and the kinematic limit 2 pi/lambda:
    inside, the column is w_j (J0(q_j xi) - 1); outside, the whole integrand is masked (column 0);
  * a single spin-echo length taken from a larger set: both transforms meet the bound whenever both qualify;
  * through DirectModel / Gxi with a compiled model: background is ignored, scale is linear, and the result is
    apply(I(q_calc)).
"""
import math
import warnings

import numpy as np

from .. import build
from .. import res_helpers as H
from ..engine import R, HarnessError

ID = "C19"
TITLE = "The SESANS transform is the Hankel transform G(xi)-G(0) of I(q)"
LEVEL = "model_checking"
ENGINE = "E1"
TECHNIQUE = ("exhaustive enumeration of (spin-echo grid, wavelength, acceptance) against the analytic Hankel pair of "
             "Gaussians, an independent Gauss-Legendre quadrature of the masked integral, and unit-impulse inspection of "
             "the transform matrix")
RULE = ("full product of the alphabet; one evaluation = one (transform, intensity, clause) judgement; non-trivial = "
        "|G(xi)-G(0)| exceeds 1 % of |G(0)| for some xi of the evaluation (impulses: the probed q is inside the calculated "
        "range); distinct = distinct (n, grid kind, range, wavelength, acceptance) tuples")
ASSUMPTIONS = [
    "Hankel pair: (1/2pi) int_0^inf J0(q xi) exp(-q^2 s^2/2) q dq = exp(-xi^2/2s^2)/(2 pi s^2)",
    "acceptance: a scattering vector is accepted iff q <= (2 pi/lambda) sin(theta_acc); q > 2 pi/lambda cannot be reached; "
    "'masked' applies to the whole integrand [J0(q xi) - 1] I(q) q, so that the value tends to 0 for xi -> 0",
    "stated quadrature accuracy: 2 (log_spacing - 1) = 6e-4 of the maximum of the exact curve (rectangle rule on a "
    "geometric grid of ratio 1.0003)",
    "quadrature weights of the impulse columns are the distance to a neighbouring calculated q (either side), times q/2pi",
    "spin-echo lengths, wavelengths, acceptances and Gaussian widths are drawn from the finite alphabet in coverage.bounds",
]
RANGES = [[10.0, 1e3], [1e2, 1e4], [1e3, 1e5]]
WIDE_RANGE = [10.0, 1e5]
LAMBDAS = [2.0, 5.0, 12.0]
ACCEPT = [math.pi / 2, 0.1, 0.01]
BOUNDS = {
    "quick": {"n": [1, 2, 5, 20, 50, 77], "kinds": ["linear", "log"], "ranges_A": RANGES, "wavelength_A": LAMBDAS,
              "acceptance_rad": ACCEPT,
              "gaussian_s_A": "10, 30, 100, 300, 1000, 3000, 10000, 30000 (x seed factor) and sums of two neighbours",
              "impulse_ladder": "q_acc x (0.3 0.6 0.9 0.99 1.01 1.1 1.5 3), 2pi/lambda x (0.9 0.99 1.01 1.5)",
              "masked_quadrature_xi": "first, middle, last",
              "tof_wavelength_arrays": "increasing / decreasing / two-valued over 2..12 A and 5..6 A, n in (5, 20), "
                                       "both grid kinds, all ranges and acceptances",
              "signs": "linearity with a combination that is negative over part of q, apply(-f), differences of two "
                       "Gaussians, negative scale through DirectModel and Gxi",
              "copy_round_trip": "copy.deepcopy and pickle of every transform with n <= 50 (and of DirectModel and its transform; a "
                                 "refusal to pickle the calculator is accepted), then apply to a Gaussian that is as wide in q "
                                 "as the calculated range allows: bit-identical",
              "reuse": "every transform: data object and I(q) array compared bit for bit with copies after construction and "
                       "apply(); apply() twice; second transform from the same data object (n <= 5, linear grids n <= 20); DirectModel twice",
              "interleaved_construction": "fresh processes: create A, create B (all 72 ordered pairs of distinct (wavelength, "
                                          "acceptance) configurations; B optionally built and evaluated), then build A; "
                                          "3 spin-echo grids",
              "storage_order": "ascending / descending / rotated (cyclic shift n//3) / interleaved (two banks): transforms "
                               "with n in (5, 20), both kinds, the first two ranges, wavelength 5 / tof-increasing(2..12), "
                               "acceptance pi/2 and 0.1; DirectModel and Gxi with guinier on "
                               "linspace(200, 4000, 20|21)"},
    "thorough": {"n": [1, 2, 3, 5, 10, 20, 50, 77, 100, 150, 199, 200], "kinds": ["linear", "log"], "ranges_A": RANGES,
                 "wavelength_A": LAMBDAS, "acceptance_rad": ACCEPT,
                 "gaussian_s_A": "10, 30, 100, 300, 1000, 3000, 10000, 30000 (x seed factor) and sums of two neighbours",
                 "impulse_ladder": "q_acc x (0.3 0.6 0.9 0.99 1.01 1.1 1.5 3), 2pi/lambda x (0.9 0.99 1.01 1.5)",
                 "masked_quadrature_xi": "first, quartiles, last",
                 "tof_wavelength_arrays": "increasing / decreasing / two-valued over 2..12 A and 5..6 A, n in (2, 5, 20, 50, "
                                          "77), both grid kinds, all ranges and acceptances",
                 "signs": "linearity with a combination that is negative over part of q, apply(-f), differences of two "
                          "Gaussians, negative scale through DirectModel and Gxi",
                 "storage_order": "as quick with n in (3, 5, 20, 50, 77), all ranges, also tof-two-valued(5..6)"},
}
CASE_TIMEOUT = 900
# time-of-flight data: one wavelength per spin-echo length.  (pattern, shortest, longest)
TOF = [("increasing", 2.0, 12.0), ("decreasing", 2.0, 12.0), ("two-valued", 2.0, 12.0),
       ("increasing", 5.0, 6.0), ("decreasing", 5.0, 6.0), ("two-valued", 5.0, 6.0)]
LOG_SPACING = 1.0003
REL_TOL = 2 * (LOG_SPACING - 1)
ACC_LADDER = [0.3, 0.6, 0.9, 0.99, 1.01, 1.1, 1.5, 3.0]
REACH_LADDER = [0.9, 0.99, 1.01, 1.5]


def _preload():
    import sasmodels.sesans, sasmodels.direct_model, sasmodels.data  # noqa - imported, never used


def setup(ctx):
    bad = build.prebuild(ctx, ["sphere", "guinier"])
    if bad:
        raise HarnessError("models failed to build: %r" % bad)
    # pristine process for the history cases: every sequence of transforms starts from never-used module state
    from .. import zygote
    zygote.start(ctx, "c19", _preload)


def _hist_one(arg):
    """(fresh process) build the transforms of a sequence in order; report the LAST one's observable behaviour"""
    xi, seq, s = arg
    T = None
    for lam, acc in seq:
        T = make_transform(xi, lam, acc)
    q = np.asarray(T.q_calc, float)
    vals = np.asarray(T.apply(gauss(q, s)), float)
    return [len(q), float(q[0]).hex(), float(q[-1]).hex()] + [float(v).hex() for v in vals]


def _interleave_one(arg):
    """(fresh process) create data set A, then the data sets in `others` (optionally building them), THEN build and
    evaluate A; report A's observable inputs and behaviour"""
    xi_a, cfg_a, others, s = arg
    A = make_data(xi_a, cfg_a[0], cfg_a[1])
    for xi_b, cfg_b, build_it in others:
        B = make_data(xi_b, cfg_b[0], cfg_b[1])
        if build_it:
            Tb = build_transform(B)
            Tb.apply(gauss(np.asarray(Tb.q_calc, float), s))
    lam = np.atleast_1d(np.asarray(A.source.wavelength, float))
    acc = A.sample.zacceptance
    T = build_transform(A)
    q = np.asarray(T.q_calc, float)
    vals = np.asarray(T.apply(gauss(q, s)), float)
    return {"wavelength": [float(v).hex() for v in lam], "zacceptance": [float(acc[0]).hex(), str(acc[1])],
            "x": [float(v).hex() for v in np.asarray(A.x, float)],
            "q": [len(q), float(q[0]).hex(), float(q[-1]).hex()], "G": [float(v).hex() for v in vals]}


def run_interleave(case, ctx, r):
    """
    interleaved construction: data set A is created, then data set B with another wavelength / acceptance / set of
    spin-echo lengths (and, in the second variant, B is also built and evaluated), THEN A is built and evaluated.
    A's wavelength, acceptance, q_calc and values must be bit-for-bit those of A created, built and evaluated alone in
    a fresh process.  All ordered pairs of distinct (wavelength, acceptance) configurations.
    """
    from .. import zygote
    xi_a = [float(v) for v in xi_grid(case["n"], case["grid"], case["range"])]
    xi_b = [float(v) for v in xi_grid(case["n"] + 2, "log", RANGES[1])]
    s = case["s"]
    configs = [[lam, acc] for lam in LAMBDAS for acc in ACCEPT]
    alone = {}
    for cfg in configs:
        out = zygote.call(ctx, "c19", "mc.props.c19:_interleave_one", [xi_a, cfg, [], s])
        if "value" not in out:
            raise HarnessError("reference transform failed: %s" % (out,))
        alone[tuple(cfg)] = out["value"]
    dec = lambda v: [float.fromhex(x) for x in v[:3]]
    for ca in configs:
        for cb in configs:
            if ca == cb:
                continue
            for built in (False, True):
                # variant 1: B has other spin-echo lengths and is only created; variant 2: B has A's spin-echo lengths and
                # is built and evaluated before A
                out = zygote.call(ctx, "c19", "mc.props.c19:_interleave_one",
                                  [xi_a, ca, [[xi_a if built else xi_b, cb, built]], s])
                got, want = out.get("value"), alone[tuple(ca)]
                desc = ("A = empty_sesans(xi=%s(n=%d), wavelength=%g, zacceptance=(%.4g, 'radians')); B = empty_sesans(xi=<n=%d>, "
                        "wavelength=%g, zacceptance=(%.4g, 'radians'))%s; _make_sesans_transform(A)"
                        % (case["grid"], case["n"], ca[0], ca[1], case["n"] if built else case["n"] + 2, cb[0], cb[1],
                           "; B built and evaluated" if built else ""))
                if got is None:
                    r.fail("%s failed: %s" % (desc, out), {"clause": "shared-state", "what": "raises"}, branches=["interleaved"])
                elif got != want:
                    bad = [k for k in ("wavelength", "zacceptance", "x", "q", "G") if got[k] != want[k]]
                    k = bad[0]
                    show = (lambda v: v) if k == "zacceptance" else (lambda v: dec(v) if k != "q" else [v[0]] + dec(v[1:]))
                    r.fail("%s: creating B changed A: %s is %s, for A alone in a fresh process it is %s (also differing: %s)"
                           % (desc, k, show(got[k]), show(want[k]), bad[1:]),
                           {"clause": "shared-state", "what": k, "built": built}, branches=["interleaved"])
                else:
                    r.ok(nt=True, outcome="interleaved:same", trans=2, branches=["interleaved"])


def run_hist(case, ctx, r):
    """
    The transform is a function of (spin-echo lengths, wavelength, acceptance): after ANY sequence of other
    transforms built in the same process it must behave bit-for-bit as when it is the first one built.
    All ordered sequences (length 2; thorough: 3) over the (wavelength, acceptance) alphabet for one xi grid.
    """
    import itertools
    from .. import zygote
    xi = [float(v) for v in xi_grid(case["n"], case["grid"], case["range"])]
    s = case["s"]
    configs = [[lam, acc] for lam in LAMBDAS for acc in ACCEPT]
    ref = {}
    for cfg in configs:
        out = zygote.call(ctx, "c19", "mc.props.c19:_hist_one", [xi, [cfg], s])
        if "value" not in out:
            r.fail("building SesansTransform(xi=%s, wavelength=%r, acceptance=%r) first in a fresh process failed: %s"
                   % (xi, cfg[0], cfg[1], out), {"clause": "history", "what": "raises"})
            return
        ref[tuple(cfg)] = out["value"]
    for depth in range(2, case["depth"] + 1):
        for seq in itertools.product(configs, repeat=depth):
            if depth == 3 and seq[0] == seq[1]:
                continue
            out = zygote.call(ctx, "c19", "mc.props.c19:_hist_one", [xi, [list(c) for c in seq], s])
            got = out.get("value")
            want = ref[tuple(seq[-1])]
            if got != want:
                def dec(v):
                    return None if v is None else [float.fromhex(x) for x in v[3:6]]
                r.fail("SESANS transform depends on the transforms built before it: xi=%s, sequence (wavelength, acceptance)=%s; "
                       "the last transform gives G=%s..., built first in a fresh process it gives %s... (%s)"
                       % (xi, list(seq), dec(got), dec(want), "" if got else out),
                       {"clause": "history", "what": "differs"}, branches=["history"])
            else:
                r.ok(nt=seq[-1] != seq[0], outcome="hist:same", trans=depth, branches=["history"])


def _svals(ctx):
    base = [10.0, 30.0, 100.0, 300.0, 1000.0, 3000.0, 10000.0, 30000.0]
    if ctx.seed == 0:
        return base
    return [b * ctx.factor(k) for k, b in enumerate(base)]


def cases(ctx):
    out = []
    svals = _svals(ctx)
    for n in BOUNDS[ctx.tier]["n"]:
        for kind in (["linear", "log"] if n > 2 else ["linear"]):
            # log grids also span four decades (10 A .. 10 um, the full range of the quantifier): long spin-echo
            # lengths together with narrow features, i.e. q*xi far beyond the first Bessel oscillations
            for rng in (RANGES + [WIDE_RANGE] if kind == "log" and n >= 5 else RANGES):
                for lam in LAMBDAS:
                    for acc in ACCEPT:
                        out.append({"kind": "transform", "n": n, "grid": kind, "range": rng, "lam": lam, "acc": acc,
                                    "s": svals, "nxi_quad": 3 if ctx.quick else 5})
    # per-point wavelength arrays (time-of-flight): the acceptance cut is that of the LONGEST wavelength for every point
    for n in ([5, 20] if ctx.quick else [2, 5, 20, 50, 77]):
        for kind in ("linear", "log"):
            for rng in RANGES:
                for pat, l0, l1 in TOF:
                    for acc in ACCEPT:
                        out.append({"kind": "transform", "n": n, "grid": kind, "range": rng,
                                    "lam": {"tof": pat, "shortest": l0, "longest": l1}, "acc": acc,
                                    "s": svals, "nxi_quad": 3 if ctx.quick else 5})
    # storage order of the spin-echo lengths (per-point wavelengths travel with their points): the same set stored
    # descending / rotated / interleaved, at the transform level ...
    for n in ([5, 20] if ctx.quick else [3, 5, 20, 50, 77]):
        for kind in ("linear", "log"):
            for rng in (RANGES[:2] if ctx.quick else RANGES):
                for lam in ((5.0, {"tof": "increasing", "shortest": 2.0, "longest": 12.0}) if ctx.quick else
                            (5.0, {"tof": "increasing", "shortest": 2.0, "longest": 12.0},
                             {"tof": "two-valued", "shortest": 5.0, "longest": 6.0})):
                    for acc in ACCEPT[:2]:
                        for order in H.distinct_orders(n):
                            out.append({"kind": "transform", "n": n, "grid": kind, "range": rng, "lam": lam, "acc": acc,
                                        "s": svals, "nxi_quad": 3 if ctx.quick else 5, "order": order})
    # ... and through DirectModel / Gxi with a Gaussian model (guinier), where the analytic value of every point is known
    sg = 1500.0 * (1.0 if ctx.seed == 0 else 1.0 + 0.01 * (ctx.seed % 8))
    for order in H.ORDERS:
        for lam in (5.0, {"tof": "increasing", "shortest": 2.0, "longest": 3.0}):
            for n in (20, 21):
                out.append({"kind": "direct-order", "order": order, "lam": lam, "n": n, "s": sg})
    out.append({"kind": "gxi-order", "s": sg, "n": 20})
    for lam in LAMBDAS:
        out.append({"kind": "direct", "lam": lam, "acc": math.pi / 2, "radius": 150.0 * (1.0 if ctx.seed == 0 else ctx.factor(1))})
    out.append({"kind": "gxi", "radius": 150.0 * (1.0 if ctx.seed == 0 else ctx.factor(1))})
    # history independence of the transform itself (module-level state): small grids, all ordered config sequences
    for n, kind, rng, s in ((5, "linear", RANGES[0], 200.0), (1, "linear", RANGES[1], 600.0), (8, "log", RANGES[1], 2000.0)):
        out.append({"kind": "hist", "n": n, "grid": kind, "range": rng, "s": s, "depth": 2 if ctx.quick else 3})
        # interleaved construction: data set B created (and built) between creating A and building A
        out.append({"kind": "interleave", "n": n, "grid": kind, "range": rng, "s": s})
    return out


# ----------------------------------------------------------------------------------------------

def xi_grid(n, kind, rng):
    lo, hi = rng
    if n == 1:
        return np.array([math.sqrt(lo * hi)])
    if kind == "linear":
        return np.linspace(lo, hi, n)
    return np.geomspace(lo, hi, n)


def wavelengths(lam, n):
    """scalar wavelength, or the per-point array named by {"tof": pattern, "shortest": a, "longest": b}"""
    if not isinstance(lam, dict):
        return lam
    a, b = lam["shortest"], lam["longest"]
    if lam["tof"] == "increasing":
        return np.linspace(a, b, n)
    if lam["tof"] == "decreasing":
        return np.linspace(b, a, n)
    if lam["tof"] == "two-valued":
        return np.where(np.arange(n) % 2 == 0, a, b).astype(float)
    raise HarnessError("unknown wavelength pattern %r" % (lam,))


def lam_name(lam):
    return lam if not isinstance(lam, dict) else "tof-%s(%g..%g)" % (lam["tof"], lam["shortest"], lam["longest"])


def make_data(xi, lam, acc):
    from sasmodels.data import empty_sesans
    lam = lam if np.isscalar(lam) else np.array(lam, float)
    return empty_sesans(np.array(xi, float), wavelength=lam, zacceptance=(acc, "radians"))


def build_transform(data):
    from sasmodels.direct_model import _make_sesans_transform
    with warnings.catch_warnings():
        warnings.simplefilter("ignore")
        with np.errstate(all="ignore"):
            return _make_sesans_transform(data)


def make_transform(xi, lam, acc):
    from sasmodels.direct_model import _make_sesans_transform
    data = make_data(xi, lam, acc)
    with warnings.catch_warnings():
        warnings.simplefilter("ignore")
        with np.errstate(all="ignore"):
            return _make_sesans_transform(data)


def gauss(q, s):
    return np.exp(-0.5 * (q * s) ** 2)


def exact_gauss(xi, s):
    return np.expm1(-xi ** 2 / (2 * s * s)) / (2 * math.pi * s * s)


_GL = np.polynomial.legendre.leggauss(16)


def masked_reference(xi, s, q_lo, q_hi):
    """(1/2pi) int_{q_lo}^{q_hi} [J0(q xi) - 1] exp(-q^2 s^2/2) q dq by composite 16-point Gauss-Legendre,
    panels no longer than a quarter period of J0(q xi) or a quarter of 1/s; also returns int |integrand|"""
    from scipy.special import j0
    if q_hi <= q_lo:
        return 0.0, 0.0
    width = 0.25 * min(1.0 / xi * 2 * math.pi, 1.0 / s)
    m = int(math.ceil((q_hi - q_lo) / width))
    m = max(m, 4)
    edges = np.linspace(q_lo, q_hi, m + 1)
    half = 0.5 * np.diff(edges)
    mid = 0.5 * (edges[1:] + edges[:-1])
    x = mid[:, None] + half[:, None] * _GL[0][None, :]
    w = half[:, None] * _GL[1][None, :]
    core = np.exp(-0.5 * (x * s) ** 2) * x / (2 * math.pi)
    val = float(np.sum(w * (j0(x * xi) - 1.0) * core))
    mag = float(np.sum(w * (np.abs(j0(x * xi)) + 1.0) * core))
    return val, mag


def _bucket(x):
    return "<=0.1" if x <= 0.1 else "<=0.5" if x <= 0.5 else "<=1" if x <= 1 else ">1"


class Judge(object):
    def __init__(self, r, fk, desc):
        self.r, self.fk, self.desc = r, fk, desc
        self.failed = set()

    def bad(self, clause, msg, **extra):
        if clause == "inputs-modified":
            # Not a violation of this property: its statement says what the smeared values are, not that the objects
            # handed in stay untouched (on the unchanged tree Pinhole2D(data, index=None) clamps zero widths of the
            # caller's dqx_data/dqy_data to 1e-10 in place).  Consequences that the statement does cover are judged
            # by the second-use / shared-state clauses; the modification itself is only counted in the evidence.
            self.r.branches["observation:inputs-modified:%s" % extra.get("what", "?")] += 1
            return
        key = (clause, tuple(sorted(extra.items())))
        if key in self.failed:
            return
        self.failed.add(key)
        self.r.fail("%s: %s" % (self.desc, msg), dict(self.fk, clause=clause, **extra), count_eval=False)


def _apply(T, Iq):
    with np.errstate(all="ignore"):
        return np.asarray(T.apply(Iq), float)


def judge_transform(r, J, T, xi, lam, acc, svals, nxi_quad, tag=""):
    """all clauses for one transform; returns {s: (qualifies, max abs error / tolerance)} for the analytic Gaussians"""
    from scipy.special import j0
    q = np.asarray(T.q_calc, float)
    if q.ndim != 1 or len(q) < 2 or not np.all(np.isfinite(q)) or np.any(q <= 0) or np.any(np.diff(q) <= 0):
        J.bad("q_calc", "%sq_calc is not a finite, positive, strictly increasing vector: %s ..." % (tag, q[:5]))
        r.ok(outcome="q_calc-bad")
        return {}
    r.ok(nt=True, outcome="q_calc-ok", branches=["q_calc"])
    nxi = len(xi)
    lamv = np.full(nxi, float(lam)) if np.isscalar(lam) else np.asarray(lam, float)
    # documented rule ("for ToF: Q of min(R) and max(lam)"): one acceptance cut, that of the longest wavelength,
    # for every point; a point cannot reach q beyond 2 pi / (its own wavelength)
    q_acc = 2 * math.pi / float(np.max(lamv)) * math.sin(acc)
    reach = 2 * math.pi / lamv
    cutv = np.minimum(q_acc, reach)                       # per spin-echo length
    q_reach = float(np.min(reach))
    tof = bool(np.ptp(lamv) > 0)
    if tof:
        r.branch("tof")
    # quadrature scale: G0 of |I| from the oracle's own rectangle weights
    dq = np.gradient(q)
    g0 = lambda I: float(np.sum(dq * q * np.abs(I))) / (2 * math.pi)

    # ---- linearity
    s1, s2 = svals[1], svals[-3]
    f, g = gauss(q, s1), gauss(q, s2) + 0.25 * gauss(q, s1 * 3.3)
    a, b = 1.7, -0.6
    lhs = _apply(T, a * f + b * g)
    rhs = a * _apply(T, f) + b * _apply(T, g)
    tol = 1e-11 * (abs(a) * g0(f) + abs(b) * g0(g))
    if lhs.shape != (nxi,) or not np.all(np.isfinite(lhs)):
        J.bad("finite", "%sapply returns shape %s / non-finite values for %d spin-echo lengths" % (tag, lhs.shape, nxi))
        r.ok(outcome="nonfinite")
        return {}
    if np.any(np.abs(lhs - rhs) > tol):
        k = int(np.argmax(np.abs(lhs - rhs)))
        J.bad("linearity", "%sapply(%r f + %r g)[%d] = %r but %r apply(f) + %r apply(g) = %r"
              % (tag, a, b, k, lhs[k], a, b, rhs[k]))
    r.ok(nt=True, outcome="linear", trans=3, branches=["linearity"])
    # a combination that is negative over part of the calculated range, and the plain negation
    a2, b2 = 0.8, -1.5
    comb = a2 * f + b2 * g
    if np.any(comb < 0) and np.any(comb > 0):
        lhs = _apply(T, comb)
        rhs = a2 * _apply(T, f) + b2 * _apply(T, g)
        tol = 1e-11 * (abs(a2) * g0(f) + abs(b2) * g0(g))
        if lhs.shape != (nxi,) or np.any(~(np.abs(lhs - rhs) <= tol)):
            k = int(np.nanargmax(np.abs(lhs - rhs))) if lhs.shape == (nxi,) else 0
            J.bad("linearity", "%sI = %r f + %r g is negative for q < %.4g and positive beyond: apply(I)[%d] = %r but "
                  "%r apply(f) + %r apply(g) = %r" % (tag, a2, b2, float(q[np.argmax(comb > 0)]), k,
                                                      lhs[k] if lhs.shape == (nxi,) else lhs, a2, b2, rhs[k]), sign="mixed")
        r.ok(nt=True, outcome="linear-mixed-sign", trans=1, branches=["linearity:mixed-sign"])
    pos, neg = _apply(T, f), _apply(T, -f)
    if neg.shape != pos.shape or np.any(~(np.abs(neg + pos) <= 1e-11 * g0(f))):
        k = int(np.nanargmax(np.abs(neg + pos))) if neg.shape == pos.shape else 0
        J.bad("linearity", "%sapply(-f)[%d] = %r but -apply(f) = %r" % (tag, k, neg[k] if neg.shape == pos.shape else neg, -pos[k]),
              sign="negated")
    r.ok(nt=bool(np.any(pos != 0)), outcome="linear-negated", trans=2, branches=["linearity:negated"])

    # ---- Gaussians
    results = {}
    intens = [("gauss(s=%r)" % s, [(1.0, s)]) for s in svals]
    intens += [("%r gauss(s=%r) + %r gauss(s=%r)" % (0.7, svals[i], 1.9, svals[i + 1]), [(0.7, svals[i]), (1.9, svals[i + 1])])
               for i in range(len(svals) - 1)]
    # differences: narrow-in-q minus wide-in-q Gaussian, negative beyond the crossing
    intens += [("%r gauss(s=%r) - %r gauss(s=%r)" % (1.0, svals[i + 1], 1.6, svals[i]), [(1.0, svals[i + 1]), (-1.6, svals[i])])
               for i in range(len(svals) - 1)]
    pick = sorted(set(int(round(t * (nxi - 1))) for t in np.linspace(0, 1, nxi_quad)))
    for name, parts in intens:
        negative = any(c < 0 for c, _ in parts)
        in_range = all(20 * q[0] < 1.0 / s < q[-1] / 20 for _, s in parts)
        if not in_range:
            r.ok(outcome="gauss-out-of-range", branches=["gauss:out-of-range"])
            continue
        Iq = sum(c * gauss(q, s) for c, s in parts)
        got = _apply(T, Iq)
        unmasked = all(60.0 / s <= float(np.min(cutv)) for _, s in parts)
        if unmasked:
            ex = sum(c * exact_gauss(xi, s) for c, s in parts)
            tolv = sum(abs(c) * REL_TOL / (2 * math.pi * s * s) for c, s in parts)
            err = np.abs(got - ex)
            G0 = sum(abs(c) / (2 * math.pi * s * s) for c, s in parts)
            nt = bool(np.any(np.abs(ex) > 0.01 * G0))
            if np.any(err > tolv):
                k = int(np.argmax(err))
                J.bad("gaussian", "%sI(q) = %s: apply(I)[xi=%r] = %.12g, exact (exp(-xi^2/2s^2)-1)/(2 pi s^2) = %.12g; "
                      "|error| %.3g exceeds %.3g (= %g of the maximum)" % (tag, name, xi[k], got[k], ex[k], err[k], tolv, REL_TOL))
            r.ok(nt=nt, outcome="gauss-analytic", branches=["gauss:analytic"] + (["gauss:difference"] if negative else []))
            r.extra["analytic_err_over_tol_%s" % _bucket(float(np.max(err) / tolv))] += 1
            if len(parts) == 1:
                results[parts[0][1]] = float(np.max(err) / tolv)
        else:
            # the acceptance cuts the intensity: independent quadrature of the truncated integral at a few xi
            nt = False
            for k in pick:
                ref = mag = 0.0
                for c, s in parts:
                    v, m = masked_reference(xi[k], s, q[0], min(cutv[k], q[-1], 9.0 / s))
                    ref += c * v
                    mag += abs(c) * m
                # rectangle rule: REL_TOL of the integrated magnitude + one bin at the cut
                qc = min(cutv[k], q[-1])
                edge = sum(abs(c) * gauss(qc, s) for c, s in parts) * qc * qc * (LOG_SPACING - 1) * 2 / (2 * math.pi)
                tolv = REL_TOL * mag + edge
                if abs(got[k] - ref) > tolv:
                    J.bad("masked-integral", "%sI(q) = %s, xi = %r (wavelength %g): apply(I) = %.12g but (1/2pi) int_[q<=%.6g] "
                          "[J0(q xi)-1] I q dq = %.12g (cut = min(2pi/max(lambda) sin(theta), 2pi/lambda)); |error| %.3g exceeds %.3g"
                          % (tag, name, xi[k], lamv[k], got[k], cutv[k], ref, abs(got[k] - ref), tolv))
                nt = nt or abs(ref) > 0.01 * mag
                r.extra["masked_err_over_tol_%s" % _bucket(abs(got[k] - ref) / tolv)] += 1
            r.ok(nt=nt, outcome="gauss-masked", trans=len(pick),
                 branches=["gauss:masked"] + (["gauss:difference"] if negative else []))

    # ---- unit impulses around the acceptance and the kinematic limit(s); judged per spin-echo length
    probes = [("q_acc", t, t * q_acc) for t in ACC_LADDER] + [("2pi/max(lambda)", t, t * q_reach) for t in REACH_LADDER]
    if tof:
        probes += [("2pi/min(lambda)", t, t * float(np.max(reach))) for t in REACH_LADDER]
    seen = set()
    for what, t, qp in probes:
        if not (q[1] < qp < q[-2]):
            r.ok(outcome="impulse-outside-range", branches=["impulse:outside-q_calc"])
            continue
        j = int(np.searchsorted(q, qp))
        if t < 1:
            j -= 1                                      # stay on the named side of the boundary
        if j in seen:
            continue
        seen.add(j)
        qj = q[j]
        accepted = qj <= cutv * (1 - 1e-6)               # per spin-echo length
        rejected = qj >= cutv * (1 + 1e-6)
        if not np.any(accepted | rejected):
            continue
        e = np.zeros(len(q))
        e[j] = 1.0
        col = _apply(T, e)
        w_lo = min(q[j] - q[j - 1], q[j + 1] - q[j]) * qj / (2 * math.pi)
        w_hi = max(q[j] - q[j - 1], q[j + 1] - q[j]) * qj / (2 * math.pi)
        jz = j0(qj * xi)
        full_lo, full_hi = w_lo * (jz - 1), w_hi * (jz - 1)      # both <= 0
        slack = 1e-9 * w_hi
        is_full = (col >= full_hi - slack) & (col <= full_lo + slack)
        is_zero = np.abs(col) <= slack
        is_g0_only = (col >= -w_hi - slack) & (col <= -w_lo + slack)
        where = ("q_calc[%d] = %.8g = %.4g x %s (q_acc = (2pi/%g) sin(%g) = %.8g, wavelength %s)"
                 % (j, qj, t, what, float(np.max(lamv)), acc, q_acc, lam_name(lam) if tof else lamv[0]))
        distinct = np.abs(jz) > 0.05                      # J0 term distinguishable from the -1 term
        bad_in = accepted & ~is_full
        bad_out = rejected & ~is_zero
        if np.any(bad_in):
            m = bad_in & (is_g0_only | is_zero)
            if np.any(m & distinct) and np.all(m[bad_in]):
                k = int(np.argmax(m & distinct))
                J.bad("mask-cutoff", "%simpulse at %s lies inside the acceptance of xi[%d]=%r (wavelength %g, cut %.8g), but its J0 "
                      "term is masked: apply(e_j)[%d] = %r, expected w (J0(q xi) - 1) = %r"
                      % (tag, where, k, xi[k], lamv[k], cutv[k], k, col[k], full_lo[k]), side="inside-masked")
            else:
                k = int(np.argmax(bad_in))
                J.bad("impulse", "%simpulse at %s: apply(e_j)[%d] = %r is not w (J0(q xi) - 1) = %r with w in [%.4g, %.4g]"
                      % (tag, where, k, col[k], full_lo[k], w_lo, w_hi))
        if np.any(accepted):
            r.ok(nt=True, outcome="impulse-inside", branches=["impulse:inside"])
        if np.any(bad_out):
            if np.any(bad_out & is_full & distinct):
                k = int(np.argmax(bad_out & is_full & distinct))
                J.bad("mask-cutoff", "%simpulse at %s lies outside the acceptance of xi[%d]=%r (wavelength %g, cut %.8g), but is not "
                      "masked: apply(e_j)[%d] = %r" % (tag, where, k, xi[k], lamv[k], cutv[k], k, col[k]), side="outside-unmasked")
            elif np.all(is_g0_only[bad_out]):
                k = int(np.argmax(bad_out))
                J.bad("mask-G0", "%simpulse at %s lies outside the acceptance of xi[%d]=%r: its J0 term is masked but its G(0) term is "
                      "not: apply(e_j)[%d] = %r, expected 0 (the value for xi -> 0 must vanish)" % (tag, where, k, xi[k], k, col[k]))
            else:
                k = int(np.argmax(bad_out))
                J.bad("impulse", "%simpulse at %s: apply(e_j)[%d] = %r, expected 0" % (tag, where, k, col[k]))
        if np.any(rejected):
            r.ok(nt=True, outcome="impulse-outside", branches=["impulse:outside"])
        if tof and np.any(accepted) and np.any(rejected):
            r.branch("impulse:tof-split")                # accepted for some spin-echo lengths, rejected for others
    return results


def _reuse(r, J, data, before, T, s, second=True, copies=True):
    """
    inputs are not modified / second use: the data object handed to _make_sesans_transform and the I(q) array handed
    to apply() stay bit-identical to their copies; apply() twice on the same array and a second transform built from
    the SAME data object give bit-identical q_calc and values
    """
    def inputs_ok(stage):
        names = H.changed(before, data)
        if names:
            J.bad("inputs-modified", "%s changed the caller's data object: %s"
                  % (stage, "; ".join(H.describe_change(before, data, k) for k in names[:3])),
                  stage=stage.split()[0], what=names[0].split(".")[-1].split("[")[0])
    inputs_ok("construction")
    q = np.asarray(T.q_calc, float)
    Iq = gauss(q, s)
    keep = Iq.copy()
    o1 = _apply(T, Iq).copy()
    if not np.array_equal(Iq, keep):
        k = int(np.argmax(Iq != keep))
        J.bad("inputs-modified", "apply() changed the I(q) array it was given: element %d was %r, is %r" % (k, keep[k], Iq[k]),
              stage="apply", what="Iq")
        Iq = keep.copy()
    o2 = _apply(T, Iq)
    if o1.shape != o2.shape or not np.array_equal(o1, o2, equal_nan=True):
        J.bad("second-use", "apply() on the same I(q) array gives %s the first time and %s the second time" % (o1[:3], o2[:3]),
              what="apply")
    inputs_ok("apply()")
    branches = ["reuse:apply-twice"]
    # copy round trip (copy.deepcopy / pickle, as a parallel fit does): q_calc and values bit for bit those of the original
    if copies:
        for how, twin, refusal in H.copy_round_trips(T):
            if twin is None:
                J.bad("copy", "%s of the transform failed: %s" % (how, refusal), how=how, what="refused")
                continue
            try:
                qc = np.asarray(twin.q_calc, float)
                oc = _apply(twin, keep.copy())
            except Exception as exc:  # noqa
                J.bad("copy", "the %s copy cannot be applied: %s: %s" % (how, type(exc).__name__, exc), how=how, what="raises")
                continue
            if qc.shape != q.shape or not np.array_equal(qc, q):
                J.bad("copy", "the %s copy calculates %d q values, the original %d" % (how, len(qc), len(q)), how=how, what="q_calc")
            elif oc.shape != o1.shape or not np.array_equal(oc, o1, equal_nan=True):
                k = int(np.argmax(oc != o1)) if oc.shape == o1.shape else 0
                J.bad("copy", "gauss(s=%r): the %s copy gives %r at spin-echo length %d, the original %r (an acceptance cut or "
                      "wavelength lost in the copy shows here)" % (s, how, oc[k] if oc.shape == o1.shape else oc.shape, k, o1[k]),
                      how=how, what="result")
            branches.append("copy:" + how)
    if second:
        T2 = build_transform(data)
        q2 = np.asarray(T2.q_calc, float)
        if q2.shape != q.shape or not np.array_equal(q, q2):
            J.bad("second-use", "a second transform built from the same data object calculates %d q values %g..%g, the first %d "
                  "values %g..%g" % (len(q2), q2[0], q2[-1], len(q), q[0], q[-1]), what="q_calc")
        else:
            o3 = _apply(T2, keep.copy())
            if not np.array_equal(o1, o3, equal_nan=True):
                J.bad("second-use", "a second transform built from the same data object gives %s, the first %s" % (o3[:3], o1[:3]),
                      what="result")
        inputs_ok("second construction")
        branches.append("reuse:second-construction")
    r.ok(nt=True, outcome="reuse", trans=3, branches=branches)


def _reuse_width(T, svals):
    """the Gaussian used for the second-use / copy clauses: the one that is widest in q (smallest s) whose 1/s still
    lies inside the calculated range, so that an acceptance cut or a kinematic limit carries weight if there is one"""
    q = np.asarray(T.q_calc, float)
    ok = [s for s in svals if len(q) > 1 and q[0] < 1.0 / s < q[-1] / 3]
    return min(ok) if ok else svals[len(svals) // 2]


def _short(v):
    v = [float(x) for x in v]
    return "[%s]" % ", ".join("%g" % x for x in v) if len(v) <= 6 else "[%g, %g, %g, ..., %g]" % (v[0], v[1], v[2], v[-1])


def _order_equivariance(r, J, T, xi, xi_a, lam_a, acc, perm, svals, order):
    """
    storage order at the transform level: the value at a spin-echo length must not depend on where it is stored.
    The calculated q range is derived from the stored first, second and last lengths, so q_calc may legitimately
    differ between the orders; then the two values are compared through the stated quadrature accuracy (both within
    REL_TOL of the exact Gaussian pair, hence within 2 REL_TOL of each other) for every Gaussian whose 1/s lies well
    inside BOTH calculated ranges and inside the acceptance.  With identical q_calc they must agree to rounding.
    """
    Ta = make_transform(xi_a, lam_a, acc)
    q, qa = np.asarray(T.q_calc, float), np.asarray(Ta.q_calc, float)
    same = q.shape == qa.shape and np.array_equal(q, qa)
    lamv = np.full(len(xi_a), float(lam_a)) if np.isscalar(lam_a) else np.asarray(lam_a, float)
    q_acc = 2 * math.pi / float(np.max(lamv)) * math.sin(acc)
    n_cmp = 0
    for s in svals:
        ok = all(20 * g[0] < 1.0 / s < g[-1] / 20 for g in (q, qa)) and 60.0 / s <= q_acc
        if not (ok or same):
            continue
        got = _apply(T, gauss(q, s))
        want = _apply(Ta, gauss(qa, s))[perm]
        tolv = 1e-11 / (2 * math.pi * s * s) if same else 2 * REL_TOL / (2 * math.pi * s * s)
        if got.shape != want.shape or np.any(~(np.abs(got - want) <= tolv)):
            k = int(np.nanargmax(np.abs(got - want))) if got.shape == want.shape else 0
            J.bad("storage-order", "gauss(s=%r): stored point %d (xi=%r) gives %.12g; the same point in the set stored ascending "
                  "gives %.12g (exact %.12g, tolerance %.3g, q_calc %s)"
                  % (s, k, xi[k], got[k] if got.shape == want.shape else float("nan"), want[k], float(exact_gauss(xi[k], s)),
                     tolv, "identical" if same else "differs: %g..%g vs %g..%g" % (q[0], q[-1], qa[0], qa[-1])), what="value")
        n_cmp += 1
    r.ok(nt=n_cmp > 0, outcome="order-equivariance:%s" % ("same-q" if same else "other-q"), trans=2,
         branches=["order:" + order] + (["order:compared"] if n_cmp else []) + (["order:same-q_calc"] if same else []))


def run_direct_order(case, ctx, r):
    """DirectModel on SESANS data stored in a given order, Gaussian model (guinier: s^2 = 2 rg^2 / 3)"""
    from sasmodels.data import empty_sesans
    from sasmodels.direct_model import DirectModel, call_kernel
    model = build.model("guinier")
    n, s, order = case["n"], case["s"], case["order"]
    xi_a = np.linspace(200.0, 4000.0, n)
    lam_a = wavelengths(case["lam"], n)
    perm = H.order_perm(order, n)
    xi = xi_a[perm]
    lam = lam_a if np.isscalar(lam_a) else lam_a[perm]
    fk = {"wavelength": lam_name(case["lam"]), "via": "DirectModel", "order": order}
    desc = ("DirectModel(empty_sesans(xi=linspace(200, 4000, %d) stored %s %s, wavelength=%s), guinier)(rg=%r)"
            % (n, order, _short(xi), lam_name(case["lam"]), s * math.sqrt(1.5)))
    J = Judge(r, fk, desc)
    pars = {"rg": s * math.sqrt(1.5), "scale": 1.0, "background": 0.0}

    def evaluate(x, l):
        data = empty_sesans(np.array(x, float), wavelength=l if np.isscalar(l) else np.array(l, float))
        with warnings.catch_warnings():
            warnings.simplefilter("ignore")
            with np.errstate(all="ignore"):
                calc = DirectModel(data, model, cutoff=0.0)
                val = np.array(calc(**pars), float)
                T = calc.resolution
                q = np.asarray(T.q_calc, float)
                Iq = np.asarray(call_kernel(model.make_kernel([q]), pars), float)
        return val, T, q, Iq
    try:
        val, T, q, Iq = evaluate(xi, lam)
    except Exception as exc:  # noqa
        J.bad("storage-order", "raised %s: %s (the same spin-echo lengths stored ascending evaluate)"
              % (type(exc).__name__, exc), what="raises")
        r.ok(nt=True, outcome="order-raises", branches=["order:" + order, "direct-order"])
        return
    tolv = REL_TOL / (2 * math.pi * s * s)
    in_range = 20 * q[0] < 1.0 / s < q[-1] / 20
    ref = _apply(T, Iq)
    if val.shape != (n,) or not np.array_equal(val, ref):
        k = int(np.argmax(val != ref)) if val.shape == ref.shape else 0
        J.bad("apply", "value of stored point %d (xi=%r) is %r but resolution.apply(I(q_calc))[%d] = %r"
              % (k, xi[k], val[k] if val.shape == ref.shape else val.shape, k, ref[k]))
    elif in_range:
        ex = exact_gauss(xi, s)
        if np.any(~(np.abs(val - ex) <= tolv)):
            k = int(np.nanargmax(np.abs(val - ex)))
            J.bad("storage-order" if order != "ascending" else "gaussian",
                  "stored point %d (xi=%r) gives %.12g, its Hankel value (exp(-xi^2/2s^2)-1)/(2 pi s^2) is %.12g (tolerance %.3g)"
                  % (k, xi[k], val[k], ex[k], tolv), what="value")
        r.branch("direct-order:analytic")
    if order != "ascending":
        va, Ta, qa, _ = evaluate(xi_a, lam_a)
        if 20 * qa[0] < 1.0 / s < qa[-1] / 20 and in_range and val.shape == (n,):
            if np.any(~(np.abs(val - va[perm]) <= 2 * tolv)):
                k = int(np.nanargmax(np.abs(val - va[perm])))
                J.bad("storage-order", "stored point %d (xi=%r) gives %.12g; the same point in the data set stored ascending gives "
                      "%.12g" % (k, xi[k], val[k], va[perm][k]), what="value")
            r.branch("order:compared")
    r.ok(nt=True, n=n, trans=2, outcome="direct-order", branches=["order:" + order, "direct-order"])


def run_gxi_order(case, ctx, r):
    """direct_model.Gxi with a list of spin-echo lengths stored in every order of the menu (serial: Gxi builds its model)"""
    from sasmodels.direct_model import Gxi
    n, s = case["n"], case["s"]
    xi_a = np.linspace(200.0, 4000.0, n)
    tolv = REL_TOL / (2 * math.pi * s * s)
    for order in H.ORDERS:
        perm = H.order_perm(order, n)
        xi = xi_a[perm]
        fk = {"via": "Gxi", "order": order}
        desc = "Gxi('guinier', linspace(200, 4000, %d) stored %s %s, rg=%r)" % (n, order, _short(xi), s * math.sqrt(1.5))
        J = Judge(r, fk, desc)
        try:
            with warnings.catch_warnings():
                warnings.simplefilter("ignore")
                with np.errstate(all="ignore"):
                    val = np.asarray(Gxi("guinier", [float(v) for v in xi], rg=s * math.sqrt(1.5), background=0.0), float)
                    q = np.asarray(make_transform(xi, 5.0, math.pi / 2).q_calc, float)
        except Exception as exc:  # noqa
            J.bad("storage-order", "raised %s: %s (the same spin-echo lengths stored ascending evaluate)"
                  % (type(exc).__name__, exc), what="raises")
            r.ok(nt=True, outcome="order-raises", branches=["order:" + order, "gxi-order"])
            continue
        if 20 * q[0] < 1.0 / s < q[-1] / 20:
            ex = exact_gauss(xi, s)
            # Gxi builds a single-precision kernel by default: 1e-6 relative on I(q) on top of the quadrature accuracy
            if val.shape != ex.shape or np.any(~(np.abs(val - ex) <= tolv + 1e-5 * np.abs(ex))):
                k = int(np.nanargmax(np.abs(val - ex))) if val.shape == ex.shape else 0
                J.bad("storage-order" if order != "ascending" else "gaussian",
                      "stored point %d (xi=%r) gives %r, its Hankel value is %.12g (tolerance %.3g)"
                      % (k, xi[k], val[k] if val.shape == ex.shape else val.shape, ex[k], tolv), what="value")
            r.branch("order:compared")
        r.ok(nt=True, n=n, trans=1, outcome="gxi-order", branches=["order:" + order, "gxi-order"])


def run_transform(case, ctx, r):
    xi_a = xi_grid(case["n"], case["grid"], case["range"])
    acc = case["acc"]
    lam_a = wavelengths(case["lam"], len(xi_a))
    order = case.get("order")
    perm = H.order_perm(order, len(xi_a)) if order else np.arange(len(xi_a))
    xi = xi_a[perm]
    lam = lam_a if np.isscalar(lam_a) else lam_a[perm]           # wavelengths travel with their points
    fk = {"wavelength": lam_name(case["lam"]), "acceptance": round(acc, 4)}
    if order:
        fk["order"] = order
    desc = ("_make_sesans_transform(empty_sesans(xi=%s(%g..%g A, n=%d)%s, wavelength=%s, zacceptance=(%.6g, 'radians')))"
            % (case["grid"], xi_a[0], xi_a[-1], len(xi), " stored %s %s" % (order, _short(xi)) if order else "",
               lam_name(case["lam"]) if isinstance(case["lam"], dict) else "%g" % lam_a, acc))
    J = Judge(r, fk, desc)
    data = make_data(xi, lam, acc)
    before = H.snapshot(data)
    if order:
        try:
            T = build_transform(data)
        except Exception as exc:  # noqa - "for every set of spin-echo lengths"
            J.bad("storage-order", "raised %s: %s (the same spin-echo lengths stored ascending construct)"
                  % (type(exc).__name__, exc), what="raises")
            r.ok(nt=True, outcome="order-raises", branches=["order:" + order])
            return
    else:
        T = build_transform(data)
    _reuse(r, J, data, before, T, _reuse_width(T, case["s"]), copies=len(xi) <= 50, second=len(xi) <= 5 or (len(xi) <= 20 and case["grid"] == "linear"))
    res = judge_transform(r, J, T, xi, lam, acc, case["s"], case["nxi_quad"])
    if order:
        _order_equivariance(r, J, T, xi, xi_a, lam_a, acc, perm, case["s"], order)
    r.branch("n=%d" % case["n"])
    # ---- single point versus the same point inside the larger set
    if len(xi) >= 5:
        for s, ratio in sorted(res.items()):
            # a one-point set calculates q in [0.01, 10] x 2pi/xi: Gaussians with 20 q_min < 1/s < q_max/20
            cand = [k for k in range(len(xi)) if 1.3 < xi[k] / s < 3.0]
            for k in (cand[:1] + cand[-1:] if len(cand) > 1 else cand):
                T1 = make_transform(xi[k:k + 1], lam if np.isscalar(lam) else lam[k:k + 1], acc)
                q1 = np.asarray(T1.q_calc, float)
                if not (20 * q1[0] < 1.0 / s < q1[-1] / 20):
                    continue
                one = _apply(T1, gauss(q1, s))
                many = _apply(T, gauss(np.asarray(T.q_calc, float), s))[k]
                ex = float(exact_gauss(xi[k], s))
                tolv = REL_TOL / (2 * math.pi * s * s)
                if one.shape != (1,) or abs(one[0] - ex) > tolv:
                    J.bad("single-point", "gauss(s=%r): one-point transform at xi=%r gives %r, exact %.12g (tolerance %.3g); "
                          "the same point inside the %d-point set gives %.12g" % (s, xi[k], one, ex, tolv, len(xi), many))
                elif abs(one[0] - many) > 2 * tolv:
                    J.bad("single-point", "gauss(s=%r): xi=%r alone gives %.12g, inside the %d-point set %.12g (exact %.12g)"
                          % (s, xi[k], one[0], len(xi), many, ex))
                r.ok(nt=True, outcome="single-vs-embedded", trans=1, branches=["single-point"])
    if not r.samples and not J.failed:
        r.sample({"call": desc, "n_q": int(len(T.q_calc)), "q_range": [float(T.q_calc[0]), float(T.q_calc[-1])],
                  "analytic_gaussians_err_over_tol": {str(k): v for k, v in res.items()}})


def run_direct(case, ctx, r):
    """DirectModel on SESANS data with a compiled model: background ignored, scale linear, result = apply(I(q_calc))"""
    from sasmodels.data import empty_sesans
    from sasmodels.direct_model import DirectModel, call_kernel
    model = build.model("sphere")
    xi = np.geomspace(50.0, 5000.0, 12)
    lam, acc = case["lam"], case["acc"]
    fk = {"wavelength": lam, "acceptance": round(acc, 4), "via": "DirectModel"}
    desc = "DirectModel(empty_sesans(xi=log(50..5000, n=12), wavelength=%g), sphere)(radius=%r, ...)" % (lam, case["radius"])
    J = Judge(r, fk, desc)
    data = empty_sesans(xi, wavelength=lam, zacceptance=(acc, "radians"))
    before = H.snapshot(data)
    with warnings.catch_warnings():
        warnings.simplefilter("ignore")
        calc = DirectModel(data, model, cutoff=0.0)
        pars = {"radius": case["radius"], "sld": 1.0, "sld_solvent": 6.0}
        base = np.array(calc(scale=1.0, background=0.0, **pars), float)
        again = np.array(calc(scale=1.0, background=0.0, **pars), float)
        other = np.array(DirectModel(data, model, cutoff=0.0)(scale=1.0, background=0.0, **pars), float)
        with_bg = np.asarray(calc(scale=1.0, background=7.5, **pars), float)
        scaled = np.asarray(calc(scale=0.37, background=0.0, **pars), float)
        negated = np.asarray(calc(scale=-1.0, background=0.0, **pars), float)
        T = calc.resolution
        q = np.asarray(T.q_calc, float)
        kernel = model.make_kernel([q])
        Iq = np.asarray(call_kernel(kernel, dict(pars, scale=1.0, background=0.0)), float)
    ref = _apply(T, Iq)
    if not np.all(np.isfinite(base)) or not np.any(base != 0):
        J.bad("finite", "theory is %s" % base[:4])
    names = H.changed(before, data)
    if names:
        J.bad("inputs-modified", "DirectModel changed the caller's data object: %s"
              % "; ".join(H.describe_change(before, data, k) for k in names[:3]), stage="direct", what=names[0].split(".")[-1])
    if not np.array_equal(base, again) or not np.array_equal(base, other):
        J.bad("second-use", "first call %s, second call %s, second DirectModel from the same data object %s"
              % (base[:3], again[:3], other[:3]), what="direct")
    r.branch("reuse:direct")
    for how, twin, refusal in H.copy_round_trips(DirectModel(data, model, cutoff=0.0)) + H.copy_round_trips(calc.resolution):
        if twin is None:
            r.branch("copy-refused:direct:" + how)          # ctypes kernels do not pickle: a refusal is accepted
            continue
        with warnings.catch_warnings():
            warnings.simplefilter("ignore")
            v = (np.array(twin(scale=1.0, background=0.0, **pars), float) if hasattr(twin, "_calc_theory")
                 else _apply(twin, Iq))
        if v.shape != base.shape or not np.array_equal(v, base, equal_nan=True):
            J.bad("copy", "the %s copy of %s gives %s, the original %s"
                  % (how, type(twin).__name__, v[:3], base[:3]), how=how, what="direct")
        r.branch("copy:direct:" + how)
    if not np.array_equal(base, with_bg):
        k = int(np.argmax(np.abs(base - with_bg)))
        J.bad("background", "background=7.5 changes the SESANS value at xi=%r: %r -> %r" % (xi[k], base[k], with_bg[k]))
    if np.any(np.abs(scaled - 0.37 * base) > 1e-12 * np.abs(base).max()):
        k = int(np.argmax(np.abs(scaled - 0.37 * base)))
        J.bad("scale", "scale=0.37 gives %r, 0.37 x (scale=1) = %r at xi=%r" % (scaled[k], 0.37 * base[k], xi[k]))
    if negated.shape != base.shape or np.any(~(np.abs(negated + base) <= 1e-12 * np.abs(base).max())):
        k = int(np.nanargmax(np.abs(negated + base))) if negated.shape == base.shape else 0
        J.bad("scale", "scale=-1 gives %r, -(scale=1) = %r at xi=%r" % (negated[k], -base[k], xi[k]), sign="negative")
    r.branch("direct:negative-scale")
    if not np.array_equal(base, ref):
        k = int(np.argmax(np.abs(base - ref)))
        J.bad("apply", "DirectModel value %r != resolution.apply(I(q_calc)) = %r at xi=%r" % (base[k], ref[k], xi[k]))
    r.ok(nt=True, n=4, trans=4, outcome="direct", branches=["direct"])


def run_gxi(case, ctx, r):
    from sasmodels.direct_model import Gxi
    xi = [80.0, 400.0, 2000.0]
    fk = {"via": "Gxi"}
    desc = "Gxi('sphere', %r, radius=%r, ...)" % (xi, case["radius"])
    J = Judge(r, fk, desc)
    with warnings.catch_warnings():
        warnings.simplefilter("ignore")
        a = np.asarray(Gxi("sphere", xi, radius=case["radius"], background=0.0), float)
        b = np.asarray(Gxi("sphere", xi, radius=case["radius"], background=3.0), float)
        c = np.asarray(Gxi("sphere", xi, radius=case["radius"], background=0.0, scale=2.0), float)
        d = np.asarray(Gxi("sphere", xi, radius=case["radius"], background=0.0, scale=-1.0), float)
    if not np.all(np.isfinite(a)) or np.any(a >= 0):
        J.bad("finite", "G(xi)-G(0) = %s is not finite and negative" % a)
    if not np.array_equal(a, b):
        J.bad("background", "background=3 changes Gxi: %s -> %s" % (a, b))
    if np.any(np.abs(c - 2 * a) > 1e-12 * np.abs(a).max()):
        J.bad("scale", "scale=2 gives %s, 2 x (scale=1) = %s" % (c, 2 * a))
    if d.shape != a.shape or np.any(~(np.abs(d + a) <= 1e-12 * np.abs(a).max())):
        J.bad("scale", "scale=-1 gives %s, -(scale=1) = %s" % (d, -a), sign="negative")
    r.ok(nt=True, n=4, trans=4, outcome="gxi", branches=["gxi", "gxi:negative-scale"])


def run_case(case, ctx):
    np.set_printoptions(legacy="1.25")     # plain floats in failure details
    r = R()
    kind = case["kind"]
    if kind == "transform":
        run_transform(case, ctx, r)
    elif kind == "direct":
        run_direct(case, ctx, r)
    elif kind == "gxi":
        run_gxi(case, ctx, r)
    elif kind == "hist":
        run_hist(case, ctx, r)
    elif kind == "interleave":
        run_interleave(case, ctx, r)
    elif kind == "direct-order":
        run_direct_order(case, ctx, r)
    elif kind == "gxi-order":
        run_gxi_order(case, ctx, r)
    else:
        raise HarnessError("unknown case kind %r" % kind)
    return r


def finish(ctx, report):
    report.require("q_calc", 50, "q_calc judged")
    report.require("linearity", 50, "linearity judged")
    report.require("gauss:analytic", 150, "Gaussians inside the calculated range and the acceptance")
    report.require("gauss:masked", 100, "Gaussians cut by the acceptance")
    report.require("impulse:inside", 100, "impulses inside the acceptance")
    report.require("impulse:outside", 100, "impulses outside the acceptance")
    report.require("single-point", 20, "single spin-echo length versus the same point in a larger set")
    report.require("direct", 3, "DirectModel path")
    report.require("gxi", 1, "Gxi path")
    report.require("history", 100, "sequences of transforms in one process")
    report.require("interleaved", 400, "data set B created (and built) between creating and building data set A")
    report.require("reuse:apply-twice", 300, "apply() twice on the same I(q) array; data object compared with its copy")
    report.require("reuse:second-construction", 200, "a second transform built from the same data object")
    for how in ("deepcopy", "pickle"):
        report.require("copy:" + how, 300, "copy round trip of a transform")
    report.require("copy:direct:deepcopy", 3, "copy round trip of DirectModel / its transform")
    report.require("reuse:direct", 3, "second call / second DirectModel from the same data object")
    for o in H.ORDERS[1:]:
        report.require("order:" + o, 30, "the same spin-echo lengths stored in another order")
    report.require("order:compared", 20, "values compared between storage orders / with the analytic value of the stored point")
    report.require("direct-order", 12, "DirectModel on every storage order")
    report.require("gxi-order", 3, "Gxi on every storage order")
    report.require("tof", 100, "transforms with a per-point wavelength array")
    # (no guard on "impulse:tof-split": with one cut at 2pi/max(lambda) sin(theta) <= 2pi/lambda_i the per-point
    #  reachability limit never lies below the acceptance cut, so every impulse is accepted or rejected for all points)
    report.require("linearity:mixed-sign", 100, "linearity with an intensity that is negative over part of the q range")
    report.require("linearity:negated", 100, "apply(-f) = -apply(f)")
    report.require("gauss:difference", 100, "differences of two Gaussians (negative intensity beyond the crossing)")
    report.require("direct:negative-scale", 3, "negative scale through DirectModel")
    report.require("gxi:negative-scale", 1, "negative scale through Gxi")
    for n in BOUNDS[ctx.tier]["n"]:
        report.require("n=%d" % n, 9, "every grid size explored")

"""
C08 - sum and product mixtures equal the stated combination of their parts.

Space (E1, programs x inputs): ALL ordered assignments of a component alphabet to the expression shapes
A+B, A*B, A+B+C, A*B*C, A+B*C, A*B+C (and the 4-leaf shapes A+B+C+D, A*B+C*D on a smaller alphabet).  One
case = one program; inside it EVERY combination of at most D dimensions off default is executed:
per part {non-default values, size dispersity or (2-D) orientation jitter, magnetism or zero amplitude with
non-zero magnetic angles, intensity exactly zero, distribution wholly outside the limits (empty mesh)}, and globally {2-D data,
non-default spin state}.  Because every ordered assignment and every per-part deviation is enumerated, every
permutation of a multiset of parts (with permuted settings) is in the space and is judged against the same
commutative oracle: order independence is decided by construction.

Oracle: the expression tree is recovered from info.composition and the combined parameter table is sliced
POSITIONALLY (prefix letters depend on nesting and are never assumed); every leaf (plain model or P@S) is
evaluated ALONE through call_kernel with scale 1, background 0 and its own (de-prefixed) parameter names;
sum nodes give sum_k X_scale_k * I_k, product nodes prod_k I_k, the root scale * I + background.
The positional values given to the parts are all different, so a value routed to the wrong part changes the result.
"""
import itertools

import numpy as np

from .. import build, refmodel
from ..engine import R, HarnessError
from ..space import deviations

ID = "C08"
TITLE = "Sum and product mixtures equal the stated combination of their parts"
LEVEL = "model_checking"
ENGINE = "E1"
TECHNIQUE = ("exhaustive enumeration of all model expressions over a component alphabet (all ordered assignments to all "
             "shapes) x deviation-bounded per-part configurations; each mixture value is re-derived from its leaves "
             "evaluated alone, mapped positionally through info.composition")
RULE = ("every ordered assignment of components to every expression shape; per program every combination of <=D "
        "dimensions off default (per part: values, dispersity, magnetism / M0=0 with angles, zero intensity, empty mesh; "
        "weak intensity (~1e-12), left-over S.radius_effective dispersity of a P@S part; per sum part: scale 0, negative and 1e-10; global: 2-D, spin state, and for >=3 leaves up to three dispersed parameters in every part at once); "
        "after the block, for every part and every reachable refusal reason: a refused call then an ordinary one on the same kernel; "
        "non-trivial = >=2 parts whose intensities alone are non-constant in q and pairwise distinct")
ASSUMPTIONS = [
    "each leaf evaluated alone by call_kernel (plain models: C01/C06; P@S leaves: C07) is the reference I_k",
    "the polarisation parameters up_frac_i, up_frac_f, up_theta, up_phi are shared by all parts (they are not prefixed)",
    "NaN on both sides (hayter_msa beyond its validity range) is agreement",
    "scale, background = 1.7, 0.25; per-sum-part scales 0.7 + 0.45 j; 3 q points (1-D) / 3 q points (2-D)",
    "DLL and pure-Python drivers only (no OpenCL/CUDA in the image)",
]
# sphere@squarewell: a P@S part whose S.radius_effective is dispersible (left over when R_eff comes from P)
COMPONENTS_Q = ["sphere", "cylinder", "core_multi_shell", "power_law", "sphere@squarewell"]
COMPONENTS_T = ["sphere", "cylinder", "core_multi_shell", "lamellar", "guinier", "power_law", "sphere@hardsphere",
                "hollow_cylinder@hayter_msa", "dab"]
COMPONENTS_4Q = ["cylinder", "power_law", "sphere@squarewell"]
COMPONENTS_4T = ["sphere", "cylinder", "power_law", "sphere@hardsphere"]
SHAPES = ["{0}+{1}", "{0}*{1}", "{0}+{1}+{2}", "{0}*{1}*{2}", "{0}+{1}*{2}", "{0}*{1}+{2}"]
# programs with a pure-Python part that HAS SLD parameters (its magnetism is refused), at every position
REFUSAL_PROGRAMS = ["teubner_strey+sphere", "sphere+teubner_strey", "sphere+teubner_strey+cylinder",
                    "teubner_strey*sphere", "sphere*teubner_strey*cylinder", "sphere+cylinder*teubner_strey",
                    "core_multi_shell+sphere+sphere", "sphere+core_multi_shell+sphere", "sphere+sphere+core_multi_shell"]
SHAPES4 = ["{0}+{1}+{2}+{3}", "{0}*{1}+{2}*{3}"]
BOUNDS = {
    "quick": {"components": COMPONENTS_Q, "shapes": SHAPES, "D": 2, "D_2leaf": 3,
              "components_4leaf": COMPONENTS_4Q, "shapes_4leaf": SHAPES4, "D_4leaf": 2},
    "thorough": {"components": COMPONENTS_T, "shapes": SHAPES, "D": 3,
                 "D_note": "programs with >=3 leaves: the weak-part alternative only in combinations of <=2 deviations",
                 "components_4leaf": COMPONENTS_4T, "shapes_4leaf": SHAPES4, "D_4leaf": 2},
}
CASE_TIMEOUT = 900

SCALE, BACKGROUND = 1.7, 0.25
Q1 = [0.011, 0.07, 0.31]
Q2 = [[0.05, 0.02], [-0.1, 0.13], [0.013, -0.3]]
MULT = [1.0, 0.8, 1.25, 0.65]            # positional value multipliers: every part gets different numbers
MAG = [(3.0, 30.0, 50.0), (-2.0, 90.0, 0.0), (1.5, 20.0, 123.0), (2.5, 60.0, -40.0)]
SPIN = {"up_frac_i": 1.0, "up_frac_f": 0.3, "up_theta": 35.0, "up_phi": 60.0}
SUFFIXES = ("_pd_nsigma", "_pd_type", "_pd_n", "_pd", "_M0", "_mtheta", "_mphi")


def base_models(components):
    out = []
    for c in components:
        out.extend(build.base_names(c))
    return sorted(set(out))


def is_py(name):
    return callable(build.info(name).Iq)


def setup(ctx):
    comps = COMPONENTS_Q if ctx.quick else COMPONENTS_T
    names = [m for m in base_models(comps) if not is_py(m)]
    bad = build.prebuild(ctx, names)
    if bad:
        raise HarnessError("models failed to build: %r" % bad)


def cases(ctx):
    out = []
    comps = COMPONENTS_Q if ctx.quick else COMPONENTS_T
    comps4 = COMPONENTS_4Q if ctx.quick else COMPONENTS_4T
    D = 2 if ctx.quick else 3
    for shape in SHAPES:
        k = shape.count("{")
        for combo in itertools.product(comps, repeat=k):
            out.append({"expr": shape.format(*combo), "D": 3 if k == 2 else D})
    for e in REFUSAL_PROGRAMS:
        out.append({"expr": e, "D": 1})
    for shape in SHAPES4:
        for combo in itertools.product(comps4, repeat=4):
            out.append({"expr": shape.format(*combo), "D": 2})
    return out


# ------------------------------------------------------------------------------------------------
# expression tree from info.composition, sliced positionally

def tree(info, names=None, leaves=None):
    kp = info.parameters.kernel_parameters
    if names is None:
        names = [p.id for p in kp]
    if leaves is None:
        leaves = []
    if len(names) != len(kp):
        raise HarnessError("table slice does not match part %s" % info.id)
    comp = info.composition
    if comp and comp[0] == "mixture":
        op = info.operation
        idx = 0
        children = []
        for part in comp[1]:
            scale = None
            if op == "+":
                scale = names[idx]
                idx += 1
            n = len(part.parameters.kernel_parameters)
            children.append((scale, tree(part, names[idx:idx + n], leaves)))
            idx += n
        if idx != len(names):
            raise HarnessError("mixture table of %s not consumed: %d of %d" % (info.id, idx, len(names)))
        return {"op": op, "children": children}
    # the part info may be shared/renamed inside the mixture: use a fresh copy of the leaf's own table
    own = build.info(info.id)
    okp = own.parameters.kernel_parameters
    if len(okp) != len(kp):
        raise HarnessError("leaf %s: own table has %d parameters, slice has %d" % (info.id, len(okp), len(kp)))
    node = {"leaf": info.id, "k": len(leaves), "map": {p.id: nm for p, nm in zip(okp, names)},
            "vector": {p.id for p in okp if p.length > 1}}
    leaves.append(node)
    return node


def comb_name(leaf, own_name):
    """name of a leaf's own call parameter (incl. _pd*/_M0... variants, vector elements) in the mixture table"""
    suffix = ""
    for s in SUFFIXES:
        if own_name.endswith(s):
            own_name, suffix = own_name[:-len(s)], s
            break
    if own_name in leaf["map"]:
        return leaf["map"][own_name] + suffix
    stem = own_name.rstrip("0123456789")
    if stem in leaf["vector"] and stem in leaf["map"]:
        return leaf["map"][stem] + own_name[len(stem):] + suffix
    raise HarnessError("cannot map parameter %r of leaf %s" % (own_name + suffix, leaf["leaf"]))


def controls(info):
    return {p.length_control for p in info.parameters.kernel_parameters if p.length > 1 and p.length_control}


def leaf_base(name, k, factor):
    """positional, pairwise different own parameter values of leaf k"""
    info = build.info(name)
    ctl = controls(info)
    mult = MULT[k] * factor
    pars = {}
    for p in info.parameters.call_parameters:
        if p.type == "magnetic" or p.name in ("scale", "background"):
            continue
        v = p.default
        if p.name in ctl:
            v = 2.0
        elif p.choices or p.name.endswith("_mode"):
            pass
        elif p.type == "sld":
            v = v + 0.37 * k
        elif p.type == "orientation":
            v = {"theta": 50.0, "phi": 25.0, "psi": 15.0}.get(p.name, v) + 7.0 * k
        elif np.isfinite(v):
            lo, hi = p.limits
            if lo <= v * mult <= hi:
                v = v * mult
        pars[p.name] = v
    return pars


def leaf_dims(name):
    info = build.info(name)
    ctl = controls(info)
    slds = [p.name for p in info.parameters.call_parameters if p.type == "sld"]
    pd = [p.name for p in info.parameters.call_parameters
          if p.type == "volume" and p.name in info.parameters.pd_1d and p.name not in ctl]
    return slds, pd


def _q(dim):
    if dim == "2d":
        q = np.array(Q2, float)
        return [q[:, 0].copy(), q[:, 1].copy()]
    return [np.array(Q1, float)]


_KC = {}


def _kernel(name, dim):
    key = (name, dim)
    if key not in _KC:
        _KC[key] = build.model(name).make_kernel(_q(dim))
    return _KC[key]


def call_alone(name, dim, pars, force_magnetic=False):
    from sasmodels.direct_model import get_mesh
    from sasmodels.details import make_kernel_args
    kernel = _kernel(name, dim)
    mesh = get_mesh(kernel.info, dict(pars), dim=kernel.dim)
    call_details, values, is_magnetic = make_kernel_args(kernel, mesh)
    return np.array(kernel(call_details, values, 0.0, bool(is_magnetic or force_magnetic)), float)


def evaluate(node, leaf_vals, sum_scales):
    """(value, magnitude) of a node from the leaves evaluated alone"""
    if "leaf" in node:
        v = leaf_vals[node["k"]]
        return v, np.abs(v)
    vals = [evaluate(ch, leaf_vals, sum_scales) for _, ch in node["children"]]
    if node["op"] == "+":
        tot = np.zeros_like(vals[0][0])
        mag = np.zeros_like(vals[0][0])
        for (scale, _), (v, m) in zip(node["children"], vals):
            tot = tot + sum_scales[scale] * v
            mag = mag + abs(sum_scales[scale]) * m
        return tot, mag
    tot = np.ones_like(vals[0][0])
    for v, _ in vals:
        tot = tot * v
    return tot, np.abs(tot)


def sum_scale_names(node, out=None):
    out = [] if out is None else out
    if "op" in node:
        for scale, ch in node["children"]:
            if scale is not None:
                out.append(scale)
            sum_scale_names(ch, out)
    return out


def product_scale_names(node, out=None):
    """scale parameters of sum parts that are themselves products"""
    out = [] if out is None else out
    if "op" in node:
        for scale, ch in node["children"]:
            if scale is not None and "op" in ch and ch["op"] == "*":
                out.append(scale)
            product_scale_names(ch, out)
    return out


def refusals(name, dim):
    """[(reason, own-parameter overrides)] that make the library refuse an evaluation because of this leaf"""
    info = build.info(name)
    out = []
    active = info.parameters.pd_1d if dim == "1d" else info.parameters.pd_2d
    names = [p.name for p in info.parameters.call_parameters if p.name in active]
    comp = info.composition
    limit = comp[1][0].parameters.max_pd if comp else info.parameters.max_pd       # P@S: the limit of P
    if len(names) > limit:
        over = {}
        for nm in names[:limit + 1]:
            over.update({nm + "_pd": 0.05 if nm not in ("theta", "phi", "psi") else 4.0, nm + "_pd_n": 2,
                         nm + "_pd_type": "gaussian"})
        out.append(("too-many-dispersed", over))
    if comp and comp[0] == "product" and comp[1][0].have_Fq and dim == "2d":
        out.append(("beta-2d", {"structure_factor_mode": 1}))
    slds = [p.name for p in info.parameters.call_parameters if p.type == "sld"]
    if slds and dim == "2d" and any(is_py(b) for b in build.base_names(name)):
        out.append(("python-magnetism", {slds[0] + "_M0": 2.0, slds[0] + "_mtheta": 35.0}))
    return out


def has_product_with(node, pred):
    """does a product node directly contain a leaf satisfying pred?"""
    if "op" not in node:
        return False
    if node["op"] == "*" and any("leaf" in ch and pred(ch) for _, ch in node["children"]):
        return True
    return any(has_product_with(ch, pred) for _, ch in node["children"])


def run_case(case, ctx):
    from sasmodels.direct_model import call_kernel
    r = R()
    expr = case["expr"]
    model = build.model(expr)
    info = model.info
    leaves = []
    root = tree(info, None, leaves)
    scales = sum_scale_names(root)
    base_scales = {nm: 0.7 + 0.45 * j for j, nm in enumerate(scales)}
    product_scales = product_scale_names(root)
    known = set(info.parameters.defaults)
    nleaf = len(leaves)

    dims = []
    for lf in leaves:
        k, name = lf["k"], lf["leaf"]
        slds, pd = leaf_dims(name)
        dims.append(("val:%d" % k, 0, [1]))
        oriented = bool(build.info(name).parameters.orientation_parameters)
        if pd or oriented:
            # size dispersity; for oriented parts also jitter (applied for 2-D data only, where it is defined)
            # ... and for a P@S part the dispersity of S.radius_effective, which is left over (ignored) while the
            # effective radius comes from P (radius_effective_mode keeps its default 1)
            left = ["radius_effective"] if ("@" in name and "radius_effective" in pd) else []
            dims.append(("pd:%d" % k, None, pd[:1] + left + (["theta"] if oriented else [])))
        if slds and not is_py(name):
            dims.append(("mag:%d" % k, 0, [1, 2]))      # 2 = zero amplitude with non-zero angles: not magnetic
        if len(slds) >= 2 and any("solvent" in s_ for s_ in slds):
            dims.append(("zero:%d" % k, 0, [1, 2]))     # 2 = nearly contrast matched: intensity ~1e-12 of the default
        if pd:
            dims.append(("empty:%d" % k, 0, [1]))       # distribution wholly outside the limits: empty mesh
    for j, nm in enumerate(scales):
        # per-part scale of a sum (also of a nested product): switched off, and negative
        alts = [0.0, -0.6 - 0.1 * j, 1e-10 * (1 + j)]
        # both for two-leaf programs of the thorough tier; otherwise one of the two per part, alternating with the
        # part index and rotated by the seed (keeps the thorough tier inside its time budget)
        pick = [ctx.rot(alts, j)]
        if nm in product_scales and pick[0] >= 0.0:
            pick.append(alts[1])        # a product nested in a sum always gets the negative scale as well
        dims.append(("scale:" + nm, None, alts if (nleaf == 2 and not ctx.quick) else pick))
    dims.append(("dim", "1d", ["2d"]))
    if nleaf >= 3:
        # up to three dispersed size parameters (2 points each) in EVERY part at once: the mixture's total number of
        # dispersity loops exceeds the per-kernel limit of 5 although every part alone stays below it
        dims.append(("pdall", 0, [1]))
    if any(leaf_dims(lf["leaf"])[0] for lf in leaves):
        dims.append(("spin", 0, [1]))
    kernels = {d: model.make_kernel(_q(d)) for d in ("1d", "2d")}
    py_leaves = [lf["leaf"] for lf in leaves if any(is_py(b) for b in build.base_names(lf["leaf"]))]
    fk0 = {"model": expr}

    def one(ndev, cfg, kernel=None, prior="", extra=None, expect_refusal=False):
        """judge one configuration (on a given kernel object); with expect_refusal only report whether it is refused"""
        sum_scales = dict(base_scales)
        for nm in scales:
            if cfg.get("scale:" + nm) is not None:
                sum_scales[nm] = cfg["scale:" + nm]
        dim = cfg["dim"]
        sub = {k: v for k, v in cfg.items() if v not in (0, None, "1d")}
        br = []
        pars = {"scale": SCALE, "background": BACKGROUND}
        pars.update(sum_scales)
        spin = dict(SPIN) if cfg.get("spin") else {}
        pars.update(spin)
        own_all, magnetic_leaf, sld_leaf, zero_leaf, empty_leaf, zeroamp_leaf = [], [], [], [], [], []
        nloops = 0
        weak_leaf, leftover_leaf, dispersed_leaf = [], [], []
        for lf in leaves:
            k, name = lf["k"], lf["leaf"]
            slds, pd = leaf_dims(name)
            own = leaf_base(name, k, ctx.factor(k) if cfg.get("val:%d" % k) else 1.0)
            if cfg.get("pdall"):
                for j, nm in enumerate(pd[:3]):
                    own.update({nm + "_pd": 0.08 + 0.02 * j + 0.01 * k, nm + "_pd_n": 2, nm + "_pd_type": "gaussian",
                                nm + "_pd_nsigma": 1.5})
                nloops += len(pd[:3])
                dispersed_leaf.append(k)
                if "@" in name and "radius_effective" in pd[:3]:
                    leftover_leaf.append(k)
            if cfg.get("pd:%d" % k) == "theta":
                if dim == "2d":
                    own.update({"theta_pd": 8.0 + 3.0 * k, "theta_pd_n": 3, "theta_pd_type": "gaussian",
                                "theta_pd_nsigma": 2.0})
                    br.append("part-jitter-2d")
            elif cfg.get("pd:%d" % k):
                nm = cfg["pd:%d" % k]
                (leftover_leaf if nm == "radius_effective" else dispersed_leaf).append(k)
                own.update({nm + "_pd": 0.1 + 0.03 * k, nm + "_pd_n": 3, nm + "_pd_type": "gaussian",
                            nm + "_pd_nsigma": 2.0})
                br.append("part-dispersity")
            if cfg.get("zero:%d" % k) == 2:
                solvent = own[[s for s in slds if "solvent" in s][0]]
                eps_c = 1e-6 * (1.0 + 0.5 * k)
                for s in slds:
                    own[s] = solvent + eps_c * (own[s] - solvent)
                weak_leaf.append(k)
            elif cfg.get("zero:%d" % k):
                solvent = own[slds[-1]] if "solvent" in slds[-1] else own[[s for s in slds if "solvent" in s][0]]
                for s in slds:
                    own[s] = solvent
                zero_leaf.append(k)
            if cfg.get("empty:%d" % k):
                nm = pd[0]
                par = [p for p in build.info(name).parameters.call_parameters if p.name == nm][0]
                lo = par.limits[0]
                centre = (lo if np.isfinite(lo) else 0.0) - abs(own[nm]) - 1.0
                x, _ = refmodel.par_dist(par, "gaussian", 3, 0.1, 2.0, centre)
                if len(x) != 0 or not np.isfinite(lo):
                    raise HarnessError("cannot empty the mesh of %s.%s" % (name, nm))
                own.update({nm: centre, nm + "_pd": 0.1, nm + "_pd_n": 3, nm + "_pd_type": "gaussian",
                            nm + "_pd_nsigma": 2.0})
                empty_leaf.append(k)
            if cfg.get("mag:%d" % k) == 2:
                own.update({slds[0] + "_M0": 0.0, slds[0] + "_mtheta": 40.0, slds[0] + "_mphi": 70.0})
                zeroamp_leaf.append(k)
            elif cfg.get("mag:%d" % k):
                m0, mt, mp = MAG[k]
                own.update({slds[0] + "_M0": m0, slds[0] + "_mtheta": mt, slds[0] + "_mphi": mp})
                magnetic_leaf.append(k)
            if slds:
                sld_leaf.append(k)
            own.update((extra or {}).get(k, {}))
            own_all.append(own)
            for nm, v in own.items():
                cn = comb_name(lf, nm)
                base_cn = cn
                for s in SUFFIXES:
                    if cn.endswith(s):
                        base_cn = cn[:-len(s)] + ("" if s.startswith("_pd") else s)
                        break
                if base_cn not in known:
                    raise HarnessError("mapped name %r (from %s.%s) is not a parameter of %s" % (cn, name, nm, expr))
                pars[cn] = v
        if sum(1 for k in range(nleaf) if cfg.get("pd:%d" % k)) >= 2:
            br.append("dispersity-in-several-parts")
        if cfg.get("pdall"):
            br.append("dispersity-in-every-part")
            if nloops >= 6 and not any(cfg.get("empty:%d" % k) or cfg.get("pd:%d" % k) for k in range(nleaf)):
                br.append("total-dispersity-loops>=6")
                if nleaf >= 4:
                    br.append("total-dispersity-loops>=6-4leaf")
        shown = {k: v for k, v in pars.items() if info.parameters.defaults.get(k) != v}
        desc = prior + "call_kernel(%s %s kernel q=%s, pars=%s)" % (expr, dim, Q1 if dim == "1d" else Q2, shown)
        if expect_refusal:
            try:
                call_kernel(kernel, dict(pars))
            except (ValueError, NotImplementedError) as exc:
                return "%s: %s" % (type(exc).__name__, exc)
            return None
        if any(v == 0.0 for v in sum_scales.values()):
            br.append("zero-sum-scale")
        if any(0.0 < v < 1e-8 for v in sum_scales.values()):
            br.append("tiny-sum-scale")
        if any(v < 0.0 for v in sum_scales.values()):
            br.append("negative-sum-scale")
            if any(sum_scales[nm] < 0.0 for nm in product_scales):
                br.append("negative-scale-on-nested-product")
        if prior:
            br.append("after-refusal")

        # ---- implementation
        try:
            impl = np.array(call_kernel(kernel if kernel is not None else kernels[dim], dict(pars)), float)
        except NotImplementedError as exc:
            if magnetic_leaf and py_leaves:
                r.fail("%s refused: %r (part(s) %s are pure Python and have no magnetic parameters; the magnetic part is %s)"
                       % (desc, exc, py_leaves, [leaves[k]["leaf"] for k in magnetic_leaf]),
                       dict(fk0, clause="python-part-magnetism-refused"), sub, branches=["python-part-refused"])
            else:
                r.fail("%s raised %r" % (desc, exc), dict(fk0, clause="raises"), sub, branches=br)
            return None
        except Exception as exc:  # noqa
            r.fail("%s raised %r" % (desc, exc), dict(fk0, clause="raises"), sub, branches=br)
            return None

        # ---- oracle: every leaf alone, de-prefixed, scale 1, background 0
        leaf_vals = []
        for lf, own in zip(leaves, own_all):
            p = dict(own, scale=1.0, background=0.0)
            if leaf_dims(lf["leaf"])[0]:
                p.update(spin)
            leaf_vals.append(call_alone(lf["leaf"], dim, p))
        val, mag = evaluate(root, leaf_vals, sum_scales)
        ref = SCALE * val + BACKGROUND
        magn = abs(SCALE) * mag + abs(BACKGROUND)
        for k in zero_leaf:
            if np.all(leaf_vals[k] == 0.0):
                br.append("zero-part")
                if has_product_with(root, lambda ch, k=k: ch["k"] == k):
                    br.append("zero-part-in-product")
        if magnetic_leaf:
            br.append("magnetic-part" + ("-2d" if dim == "2d" else "-1d"))
        if zeroamp_leaf:
            br.append("zero-amplitude-angles")
            if magnetic_leaf and dim == "2d":
                br.append("zero-amplitude-angles-beside-magnetic-part-2d")
        for k in empty_leaf:
            if np.all(leaf_vals[k] == 0.0):
                br.append("empty-mesh-part")
                if any(np.any(leaf_vals[j] != 0.0) for j in range(nleaf) if j != k):
                    br.append("empty-mesh-part-beside-nonzero-part")
        if any(np.all(np.isnan(v)) for v in leaf_vals):
            br.append("nan-part")
        nonconst = [k for k in range(nleaf) if np.all(np.isfinite(leaf_vals[k])) and np.ptp(leaf_vals[k]) > 0]
        distinct = len({leaf_vals[k].tobytes() for k in nonconst})
        nt = bool(distinct >= 2)
        both_nan = np.isnan(impl) & np.isnan(ref)
        err = np.abs(impl - ref)
        # relative to the stated combination itself (a part may be 1e-12 of its usual size), plus the rounding of the
        # final "+ background"
        badmask = ~(err <= 1e-11 * (magn - abs(BACKGROUND)) + 8 * 2.0 ** -52 * magn) & ~both_nan & ~(impl == ref)
        for k in weak_leaf:
            if np.all(leaf_vals[k] != 0.0) and np.all(np.abs(leaf_vals[k]) <= 1e-8):
                br.append("weak-part")
                if has_product_with(root, lambda ch, k=k: ch["k"] == k):
                    br.append("weak-part-in-product")
                    if k < nleaf - 1:
                        br.append("weak-part-in-product-before-other-factors")
        for k in leftover_leaf:
            br.append("leftover-reff-dispersity")
            if any(j > k for j in dispersed_leaf):
                br.append("leftover-reff-dispersity-before-dispersed-part")
        if not badmask.any():
            r.ok(nt=nt, outcome="%s:%s:z%d:m%d" % (dim, "nan" if both_nan.all() else "fin", len(zero_leaf),
                                                   len(magnetic_leaf)), trans=1 + nleaf, branches=br)
            if nt and not r.samples and ndev >= 1:
                r.sample({"call": desc, "impl": [float(v) for v in impl], "reference": [float(v) for v in ref],
                          "parts_alone": {"%d:%s" % (lf["k"], lf["leaf"]): [float(v) for v in leaf_vals[lf["k"]]]
                                          for lf in leaves}})
            return None
        # ---- classify the disagreement
        parts_txt = "; ".join("part %d %s alone(%s)=%s" % (lf["k"], lf["leaf"],
                              {n: v for n, v in own_all[lf["k"]].items()
                               if build.info(lf["leaf"]).parameters.defaults.get(n) != v}, leaf_vals[lf["k"]])
                              for lf in leaves)
        clause = "sum" if root["op"] == "+" and all("leaf" in ch for _, ch in root["children"]) else \
                 "product" if root["op"] == "*" else "nested"
        if any(b == "zero-part-in-product" for b in br):
            clause = "product-zero-part"
        elif empty_leaf:
            clause = "empty-mesh-part"
        elif zeroamp_leaf and magnetic_leaf and dim == "2d":
            clause = "zero-amplitude-part-treated-magnetic"
        elif cfg.get("spin") and dim == "2d" and magnetic_leaf and set(sld_leaf) - set(magnetic_leaf):
            # does the difference come ONLY from non-magnetic SLD parts being sent through the magnetic kernel?
            alt = []
            for lf, own in zip(leaves, own_all):
                p = dict(own, scale=1.0, background=0.0)
                has_sld = bool(leaf_dims(lf["leaf"])[0])
                if has_sld:
                    p.update(spin)
                alt.append(call_alone(lf["leaf"], dim, p, force_magnetic=has_sld))
            aval, amag = evaluate(root, alt, sum_scales)
            aref = SCALE * aval + BACKGROUND
            if np.all(np.abs(impl - aref) <= 1e-11 * (SCALE * amag + BACKGROUND)):
                clause = "nonmagnetic-part-spin-weighted"
                br.append("nonmagnetic-part-spin-weighted")
        r.fail("%s\n  impl=%s\n  ref =%s  (%s of the parts evaluated alone)\n  %s\n  sum scales=%s"
               % (desc, impl, ref, "scale*sum_k X_scale_k*I_k+background" if clause == "sum" else
                  "scale*prod_k I_k+background" if clause.startswith("product") else "stated combination",
                  parts_txt, sum_scales),
               dict(fk0, clause=clause), sub, nt=nt, trans=1 + nleaf, branches=br)

    for ndev, cfg in deviations(dims, case["D"]):
        if cfg["dim"] == "1d" and any(cfg.get("pd:%d" % k) == "theta" for k in range(nleaf)):
            continue        # jitter is only applied for 2-D data: in 1-D this is the identical call without it
        if ndev >= 3 and nleaf >= 3 and any(cfg.get("zero:%d" % k) == 2 for k in range(nleaf)):
            continue        # time budget of the thorough tier: weak parts of >=3-leaf programs in combinations of <=2 deviations
        one(ndev, cfg)

    # ---- re-use of one kernel object after a refused evaluation: the refusal is raised while the mixture is
    # preparing / evaluating the part at each position; the next ordinary evaluation must be unaffected
    default = {d[0]: d[1] for d in dims}
    for dim in ("1d", "2d"):
        for lf in leaves:
            for reason, own_extra in refusals(lf["leaf"], dim):
                kernel = model.make_kernel(_q(dim))
                cfg = dict(default, dim=dim)
                why = one(0, cfg, kernel=kernel, extra={lf["k"]: own_extra}, expect_refusal=True)
                if why is None:
                    r.branch("refusal-not-raised:" + reason)
                    continue
                pos = "first" if lf["k"] == 0 else "last" if lf["k"] == nleaf - 1 else "middle"
                r.branch("after-refusal:" + reason)
                r.branch("after-refusal:part-" + pos)
                one(0, cfg, kernel=kernel,
                    prior="same kernel object, previous call refused (%s at part %d %s: %s); now " % (reason, lf["k"], lf["leaf"], why[:80]))
    r.branch("shape:" + "".join(ch for ch in expr if ch in "+*"))
    if "@" in expr:
        r.branch("P@S-leaf")
    if py_leaves:
        r.branch("python-leaf")
    return r


def finish(ctx, report):
    for shp in ("+", "*", "++", "**", "+*", "*+", "+++", "*+*"):
        report.require("shape:" + shp, 9, "expression shape " + shp)
    report.require("P@S-leaf", 20, "P@S nested in a mixture")
    report.require("python-leaf", 20, "pure-Python part")
    report.require("part-dispersity", 100, "dispersity in a part")
    report.require("dispersity-in-several-parts", 50, "dispersity in several parts at once")
    report.require("total-dispersity-loops>=6", 100, "more dispersity loops in the mixture than one kernel supports (5)")
    report.require("total-dispersity-loops>=6-4leaf", 20, "... in a 4-leaf program")
    report.require("zero-part", 100, "a part whose intensity is exactly zero")
    report.require("zero-part-in-product", 50, "exactly-zero part inside a product")
    report.require("magnetic-part-2d", 50, "magnetic part, 2-D")
    report.require("part-jitter-2d", 20, "orientation dispersity of an oriented part, 2-D")
    report.require("weak-part", 200, "a part ~1e-12 of its usual intensity (nearly contrast matched)")
    report.require("weak-part-in-product-before-other-factors", 100, "... written before other factors of a product")
    report.require("leftover-reff-dispersity", 100, "P@S part with dispersed S.radius_effective while R_eff comes from P")
    report.require("leftover-reff-dispersity-before-dispersed-part", 50, "... followed by a dispersed part")
    report.require("tiny-sum-scale", 50, "per-part scale ~1e-10 in a sum")
    report.require("negative-sum-scale", 200, "negative per-part scale in a sum")
    report.require("zero-sum-scale", 200, "zero per-part scale in a sum")
    report.require("negative-scale-on-nested-product", 50, "negative scale on a product nested in a sum")
    report.require("after-refusal", 100, "ordinary evaluation on a kernel whose previous evaluation was refused")
    for reason in ("too-many-dispersed", "beta-2d", "python-magnetism"):
        report.require("after-refusal:" + reason, 5, "refusal reason " + reason)
    for pos in ("first", "middle", "last"):
        report.require("after-refusal:part-" + pos, 10, "refusal raised for the %s part" % pos)
    report.require("empty-mesh-part", 100, "a part whose distribution lies wholly outside the limits (contributes exactly 0)")
    report.require("empty-mesh-part-beside-nonzero-part", 100, "empty-mesh part next to parts that still contribute")
    report.require("zero-amplitude-angles", 100, "part with M0 = 0 but non-zero magnetic angles")
    report.require("zero-amplitude-angles-beside-magnetic-part-2d", 20,
                   "M0 = 0 / non-zero angles part next to a magnetic part, 2-D")

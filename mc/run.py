"""
CLI of the bounded-exhaustive checker:  python -m mc.run C07 [--tier quick|thorough] [--replay F] [--jobs N]

A property module (mc.props.cXX) provides

    ID, TITLE, RULE, ASSUMPTIONS, TECHNIQUE
    def setup(ctx)                 optional; runs once in the parent before workers fork
                                   (serial pre-builds of compiled models etc.)
    def cases(ctx) -> list[dict]   the complete, explicitly enumerated space (JSON-able dicts)
    def run_case(case, ctx) -> R   executes ONE element of the space on the real implementation
                                   and judges it with the oracle
    def finish(ctx, report)        optional; vacuity guards, extra coverage keys

or, for the history / schedule explorers, `def explore(ctx) -> Report` instead of cases/run_case.

Nothing is sampled: every element returned by cases() is executed.  VERIF_SEED only rotates the
concrete representatives used for "non-default" values and the order of exploration.
"""
from __future__ import annotations

import argparse
import importlib
import json
import os
import sys
import time
import traceback

from . import engine
from .evidence import write_evidence
from .findings import load_findings, split_known


def main(argv=None):
    ap = argparse.ArgumentParser()
    ap.add_argument("prop")
    ap.add_argument("--tier", default=os.environ.get("VERIF_TIER", "quick"),
                    choices=["quick", "thorough"])
    ap.add_argument("--replay", default=None)
    ap.add_argument("--jobs", type=int, default=int(os.environ.get("VERIF_JOBS", "0")) or None)
    ap.add_argument("--only", default=None, help="substring filter on case ids (debugging)")
    ap.add_argument("--verbose", "-v", action="store_true")
    args = ap.parse_args(argv)

    pid = args.prop.upper()
    try:
        seed = int(os.environ.get("VERIF_SEED", "0") or 0)
    except ValueError:
        seed = 0
    t0 = time.time()
    ctx = engine.Context(pid, args.tier, seed, args.jobs, verbose=args.verbose, only=args.only)
    try:
        mod = importlib.import_module("mc.props." + pid.lower())
    except ImportError:
        traceback.print_exc()
        print("no such property module: %s" % pid)
        return 2
    ctx.mod = mod

    try:
        if args.replay:
            return engine.replay(ctx, mod, args.replay)
        report = engine.run(ctx, mod)
    except engine.HarnessError as exc:
        traceback.print_exc()
        print("HARNESS-ERROR property=%s %s" % (pid, exc))
        return 2
    finally:
        ctx.cleanup()

    findings = load_findings(pid)
    new, known = split_known(report.fails, findings)
    wall = time.time() - t0
    write_evidence(ctx, mod, report, wall, len(new), known)

    for entry, hits in known:
        print("KNOWN-FINDING: property=%s %s (%d matching case%s this run)"
              % (pid, entry["what"], len(hits), "" if len(hits) == 1 else "s"))
    print("%s tier=%s seed=%d evaluations=%d nontrivial=%d transitions=%d outcomes=%d "
          "inconclusive=%d violations=%d known=%d wall=%.1fs"
          % (pid, ctx.tier, seed, report.evals, report.nt, report.trans, len(report.outcomes),
             report.inconclusive, len(new), sum(len(h) for _, h in known), wall))
    if report.vacuous:
        for msg in report.vacuous:
            print("VACUOUS: %s" % msg)
        if not new:
            # (with violations present a starved branch may be a consequence of the defect: report those)
            print("HARNESS-ERROR property=%s vacuity guard failed" % pid)
            return 2
    if new:
        # one replay file per distinct finding key, smallest case first
        os.makedirs("/verif/replays", exist_ok=True)
        seen = set()
        for f in new:
            k = json.dumps(f.get("fkey", {}), sort_keys=True)
            if k in seen:
                continue
            seen.add(k)
            path = "/verif/replays/%s_%s.json" % (pid, f["cid"])
            with open(path, "w") as fh:
                json.dump({"property": pid, "case": f["case"], "fkey": f.get("fkey", {}),
                           "detail": f["detail"], "tier": ctx.tier, "seed": seed,
                           "replay_cmd": "./check %s --replay %s" % (pid, path)}, fh, indent=1,
                          default=str)
            print("  %s" % f["detail"][:600])
            print("VIOLATION property=%s replay=%s" % (pid, path))
            if len(seen) >= 20:
                print("  ... (%d further violations not written out)" % (len(new) - 20))
                break
        return 1
    return 0


if __name__ == "__main__":
    sys.exit(main())

"""Evidence writer: /verif/evidence/<id>.json, rewritten on every run; all counts are measured."""
import json
import os


def write_evidence(ctx, mod, report, wall, n_new, known):
    cov = {
        "states": int(report.states or report.evals),
        "transitions": int(max(report.trans, 0)),
        "traces_validated_against_impl": int(report.evals),
        "samples": (report.nt_samples[:2] + report.samples[:3])[:4] or [{"note": "no sample"}],
        "evaluations": int(report.evals),
        "distinct_nontrivial": int(report.nt),
        "rule": getattr(mod, "RULE", ""),
        "exhaustive": bool(report.exhaustive and not report.caps),
        "caps_hit": report.caps,
        "distinct_observed_outcomes": len(report.outcomes),
        "outcome_examples": sorted(report.outcomes)[:12],
        "branch_counters": dict(sorted(report.branches.items())),
        "inconclusive": int(report.inconclusive),
        "cases_generated": int(getattr(report, "generated", report.states)),
        "known_findings_hit": [{"what": e["what"], "cases": len(h)} for e, h in known],
        "vacuity_guards_failed": report.vacuous,
        "technique": getattr(mod, "TECHNIQUE", ""),
        "bounds": getattr(mod, "BOUNDS", {}).get(ctx.tier, getattr(mod, "BOUNDS", {})),
        "jobs": ctx.jobs,
    }
    if report.extra:
        cov["counters"] = dict(sorted(report.extra.items()))
    cov.update(report.coverage)
    doc = {
        "property_id": ctx.pid,
        "tier": ctx.tier,
        "seed": int(ctx.seed),
        "level": getattr(mod, "LEVEL", "model_checking"),
        "coverage": cov,
        "assumptions": list(getattr(mod, "ASSUMPTIONS", [])),
        "wall_s": round(float(wall), 2),
        "violations": int(n_new),
    }
    # evidence under /verif/evidence describes /repo itself; runs of my own tooling against a scratch tree
    # (VERIF_REPO, seeded changes / reverts) are filed separately and never committed
    edir = "/verif/evidence" if os.path.realpath(ctx.repo) == "/repo" else "/verif/evidence/.scratch"
    os.makedirs(edir, exist_ok=True)
    path = "%s/%s.json" % (edir, ctx.pid)
    tmp = path + ".tmp"
    with open(tmp, "w") as fh:
        json.dump(doc, fh, indent=1, default=str)
        fh.write("\n")
    os.replace(tmp, path)
    return path

#!/usr/bin/python3
"""
Scripted stand-in for the C compiler (selected through the documented CC environment variable).

* The compiler is environment, not code under test: the real `cc` is run ONCE per distinct
  (flags, source text) and its output memoised under $VERIF_CC_MEMO; later invocations copy it.
* The output file is produced the way a linker does it - created/truncated IN PLACE at the requested
  -o path and written in two halves.  When $VERIF_SCHED_SOCK is set, each write is a scheduling
  point: the script reports "<proc id> cc.write1" / "cc.write2" to the controller and blocks until
  granted (C18).  Without it the script simply writes the file (C17).
"""
import hashlib
import os
import socket
import subprocess
import sys


def main():
    args = sys.argv[1:]
    if "-o" not in args:
        return subprocess.call([os.environ.get("VERIF_REAL_CC", "cc")] + args)
    out = args[args.index("-o") + 1]
    srcs = [a for a in args if a.endswith(".c")]
    memo = os.environ["VERIF_CC_MEMO"]
    real = os.environ.get("VERIF_REAL_CC", "cc")
    h = hashlib.sha1()
    for a in args:
        if a != out and a not in srcs:
            h.update(a.encode() + b"\0")
    for s in srcs:
        with open(s, "rb") as fh:
            h.update(fh.read())
    lib = os.path.join(memo, h.hexdigest() + ".so")
    if not os.path.exists(lib):
        os.makedirs(memo, exist_ok=True)
        tmp = "%s.tmp.%d" % (lib, os.getpid())
        real_args = [real] + [tmp if a == out else a for a in args]
        p = subprocess.run(real_args, stdout=subprocess.PIPE, stderr=subprocess.STDOUT)
        if p.returncode != 0 or not os.path.exists(tmp):
            sys.stdout.write(p.stdout.decode("utf8", "replace"))
            try:
                os.remove(tmp)
            except OSError:
                pass
            return p.returncode or 1
        os.replace(tmp, lib)
    with open(lib, "rb") as fh:
        data = fh.read()

    sock_path = os.environ.get("VERIF_SCHED_SOCK")
    proc_id = os.environ.get("VERIF_PROC_ID", "?")
    conn = None
    if sock_path:
        conn = socket.socket(socket.AF_UNIX, socket.SOCK_STREAM)
        conn.connect(sock_path)

    if conn is not None:
        # tell the controller which process the compiler is (for "the compiler alone is killed" executions)
        conn.sendall(("%s !pid %d\n" % (proc_id, os.getpid())).encode())

    def point(ev):
        if conn is not None:
            conn.sendall(("%s %s\n" % (proc_id, ev)).encode())
            if not conn.recv(1):
                os._exit(97)

    half = len(data) // 2
    final = "!" if os.path.basename(out) in os.environ.get("VERIF_FINAL_NAMES", "").split(",") else ""
    point("cc.write1" + final)
    fd = os.open(out, os.O_WRONLY | os.O_CREAT | os.O_TRUNC, 0o755)
    os.write(fd, data[:half])
    point("cc.write2" + final)
    os.write(fd, data[half:])
    os.close(fd)
    return 0


if __name__ == "__main__":
    sys.exit(main())
